#!/bin/sh
# sequential thorough sweep of all listed properties (run with: vp run -- sh tools/thorough_all.sh)
cd "$(dirname "$0")/.." || exit 2
for ID in ${@:-C01 C02 C03 C04 C05 C06 C07 C08 C09 C10 C11 C12 C13 C14 C15 C16 C17 C18 C19 C20}; do
  echo "=== $ID"; VERIF_EVIDENCE_DIR=/tmp/evth timeout 3000 ./check $ID --tier thorough 2>&1 | grep -v "^   signature" | tail -4 | cut -c1-220
done
