#!/bin/sh
# usage: tools/reseed.sh <ID> [tier]  -- are the kept seeded changes of a property still caught by its check?
# applies each /verif/seeded/<ID>-*/patch.diff in a scratch worktree of /repo HEAD and runs the check against it.
ID=$1; TIER=${2:-quick}; RC=0
for d in /verif/seeded/$ID-*/; do
  s=$(basename $d); WT=/tmp/mut/reseed-$s
  if grep -q '"retired"' $d/meta.json; then echo "$s: retired (superseded by a repair, see meta.json)"; continue; fi
  git -C /repo worktree remove --force $WT >/dev/null 2>&1
  git -C /repo worktree add --detach $WT HEAD >/dev/null 2>&1 || { echo "$s: cannot create worktree"; RC=2; continue; }
  if ! git -C $WT apply $d/patch.diff 2>/dev/null; then
    if ! (cd $WT && patch -p1 -s -F3 < $d/patch.diff >/dev/null 2>&1); then echo "$s: PATCH DOES NOT APPLY on HEAD"; git -C /repo worktree remove --force $WT; RC=2; continue; fi
  fi
  cd /verif; VERIF_EVIDENCE_DIR=/tmp/mut/evidence FRAPPY_REPO=$WT timeout 1500 ./check $ID --tier $TIER >/tmp/mut/reseed-$s.out 2>&1; rc=$?
  if [ $rc = 1 ]; then echo "$s: caught ($(grep -c '^VIOLATION' /tmp/mut/reseed-$s.out) signatures)"; else echo "$s: NOT CAUGHT rc=$rc"; RC=1; fi
  git -C /repo worktree remove --force $WT
done
exit $RC
