#!/bin/sh
# usage: tools/seedtest.sh <ID> <worktree>   -- verify a seeded change and run the check against it
ID=$1; WT=$2
cd $WT || exit 2
echo "== demo with change"; /venv/bin/python demo_seed.py >/tmp/seed_demo_on.txt 2>&1; echo "exit $?"; tail -3 /tmp/seed_demo_on.txt
git diff -- frappy > /tmp/seedtest_cur.patch; git apply -R /tmp/seedtest_cur.patch; echo "== demo without change"; /venv/bin/python demo_seed.py >/tmp/seed_demo_off.txt 2>&1; echo "exit $?"; tail -2 /tmp/seed_demo_off.txt; git apply /tmp/seedtest_cur.patch
echo "== tests with change"; /venv/bin/python -m pytest -q -p no:cacheprovider --timeout=900 --continue-on-collection-errors 2>&1 | tail -1
cd /verif
echo "== check quick"; VERIF_EVIDENCE_DIR=/tmp/seed_evidence FRAPPY_REPO=$WT timeout 1500 ./check $ID --tier quick 2>&1 | grep -v "^/\\\\\|^  \|^State\|^$" | cut -c1-220 | tail -8
