#!/usr/bin/env python3
"""tools/muttest.py <ID> <mutations.json> [--tests] [--only <substring of the name>]
hand-written mutation battery: for each entry {"name", "file", "old", "new"} make a scratch worktree of /repo at
HEAD under /tmp/mut, replace the first occurrence of old by new in file, optionally run the repository tests, run
`./check <ID> --tier quick` against it and report caught / missed.  Worktrees are removed again.
MUT_BASE=<dir> (optional): the *.patch files of that directory are applied (sorted, `git apply`) to the worktree before
the mutation, i.e. the battery runs on top of a patch series that is not committed yet."""
import json
import os
import subprocess
import sys
from pathlib import Path

pid, mfile = sys.argv[1], sys.argv[2]
with_tests = '--tests' in sys.argv
muts = json.loads(Path(mfile).read_text())
if '--only' in sys.argv:      # --only <substring of the mutant name>
    pat = sys.argv[sys.argv.index('--only') + 1]
    muts = [m for m in muts if pat in m['name']]
Path('/tmp/mut').mkdir(exist_ok=True)
res = []
for k, m in enumerate(muts):
    wt = f'/tmp/mut/{pid}-{k}'
    subprocess.run(['git', '-C', '/repo', 'worktree', 'remove', '--force', wt], capture_output=True)
    subprocess.run(['git', '-C', '/repo', 'worktree', 'add', '--detach', wt, 'HEAD'], check=True, capture_output=True)
    try:
        if os.environ.get('MUT_BASE'):
            for patch in sorted(Path(os.environ['MUT_BASE']).glob('*.patch')):
                subprocess.run(['git', '-C', wt, 'apply', str(patch)], check=True, capture_output=True)
        f = Path(wt) / m['file']
        src = f.read_text()
        if m['old'] not in src:
            res.append((m['name'], 'OLD TEXT NOT FOUND', ''))
            continue
        f.write_text(src.replace(m['old'], m['new'], 1))
        tests = ''
        if with_tests:
            r = subprocess.run(['/venv/bin/python', '-m', 'pytest', '-q', '-p', 'no:cacheprovider', '--timeout=900',
                                '--continue-on-collection-errors'], cwd=wt, capture_output=True, text=True)
            tests = r.stdout.strip().splitlines()[-1] if r.stdout.strip() else '?'
        env = dict(os.environ, FRAPPY_REPO=wt, VERIF_EVIDENCE_DIR='/tmp/mut/evidence')
        r = subprocess.run(['./check', m.get('check', pid), '--tier', 'quick'], cwd='/verif', env=env, capture_output=True, text=True)
        sigs = [l.strip() for l in r.stdout.splitlines() if l.strip().startswith('signature:')]
        res.append((m['name'], {0: 'MISSED', 1: 'caught'}.get(r.returncode, f'rc={r.returncode}'),
                    (tests + ' ' if tests else '') + (sigs[0][:160] if sigs else r.stdout.strip().splitlines()[-1][:160] if r.stdout.strip() else '')))
    finally:
        subprocess.run(['git', '-C', '/repo', 'worktree', 'remove', '--force', wt], capture_output=True)
for name, verdict, info in res:
    print(f'{verdict:8s} {name}: {info}')
