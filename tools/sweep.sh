#!/bin/sh
# usage: tools/sweep.sh <seed> [tier]  -- run every integrated check once, report exit codes and wall times
SEED=${1:-0}; TIER=${2:-quick}
cd "$(dirname "$0")/.." || exit 2
for id in $(cat tools/integrated.txt | sort); do
  s=$(date +%s)
  out=$(VERIF_SEED=$SEED ./check $id --tier $TIER 2>&1); rc=$?
  e=$(date +%s)
  echo "$id rc=$rc wall=$((e-s))s $(echo "$out" | grep -c '^KNOWN-FINDING') known $(echo "$out" | grep '^VIOLATION' | head -3 | tr '\n' ' ')"
done
