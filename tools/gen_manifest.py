#!/usr/bin/env python3
"""regenerate /verif/MANIFEST.json from the table below and the set of built checks"""
import json
from pathlib import Path

V = Path(__file__).resolve().parent.parent
props = [json.loads(l) for l in (V / 'properties.jsonl').read_text().splitlines() if l.strip()]

import ast


def load_meta(pid):
    """each harness/props/cXX.py carries a literal  META = dict-literal  near its top"""
    f = V / 'harness' / 'props' / f'{pid.lower()}.py'
    if not f.exists():
        return None
    tree = ast.parse(f.read_text())
    for node in tree.body:
        if isinstance(node, ast.Assign) and getattr(node.targets[0], 'id', '') == 'META':
            return ast.literal_eval(node.value)
    return None


def main():
    checks, na = [], []
    integrated = set((V / 'tools' / 'integrated.txt').read_text().split())
    for p in props:
        pid = p['id']
        m = load_meta(pid) if pid in integrated else None
        if m:
            checks.append({
                'property_id': pid,
                'quick_cmd': f'./check {pid} --tier quick',
                'thorough_cmd': f'./check {pid} --tier thorough',
                'evidence_file': f'/verif/evidence/{pid}.json',
                'replay_cmd_template': f'./check {pid} --replay {{path}}',
                'engine': 'tlc+replay',
                'level_claimed': {'category': 'model_checking', 'text': m['text'], 'design_ref': m['ref']},
                'level_note': m['note'],
                'technique': m['tech'],
            })
        else:
            na.append({'property_id': pid, 'reason': 'check not built yet (work in progress in this round; see DESIGN.md section 8)'})
    man = {
        'version': 1,
        'setup_cmd': './check selftest',
        'hooks': {
            'guard': 'FRAPPY_VERIF',
            'enable': 'no source hooks: checks import /repo\'s working tree (PYTHONPATH) and observe it through fakes, '
                      'monkeypatched primitives and a deterministic scheduler; FRAPPY_VERIF=1 is exported by ./check but '
                      'no code in /repo reads it',
            'baseline_off_cmd': 'cd /repo && /venv/bin/python -m pytest -ra -q -p no:cacheprovider --timeout=900 '
                                '--continue-on-collection-errors',
            'source_commits': [],
            'add_only': True,
        },
        'engines': [
            {'name': 'tlc-mc', 'path': 'harness/core.py', 'kind_free_text': 'TLC model checking of spec/*.tla (design check)'},
            {'name': 'tlc-gen+replay', 'path': 'harness/core.py', 'kind_free_text': 'TLC emits behaviours (hist variable / PrintT JSON); Python replays them on the real frappy objects and compares projected state per step'},
            {'name': 'tlc-trace', 'path': 'harness/core.py', 'kind_free_text': 'batch trace validation: recorded executions of the real code checked by TLC against Trace_*.tla'},
        ],
        'checks': checks,
        'not_applicable': na,
        'notes': 'One entry point: ./check <ID> --tier quick|thorough. Known findings: /verif/known_findings.json.',
    }
    for e in man['engines']:
        e['serves_properties'] = [c['property_id'] for c in checks]
    (V / 'MANIFEST.json').write_text(json.dumps(man, indent=1) + '\n')
    print(len(checks), 'checks,', len(na), 'not applicable')


main()
