#!/bin/sh
# usage: tools/cov.sh <ID> [tier]  -- which lines of frappy does a check execute?  (blind-spot finder, not a check)
# line coverage of /repo/frappy under the check's quick tier, combined over all worker processes, reported for the
# files the property is anchored in; lines never executed are places where a change cannot be noticed by this check.
ID=$1; TIER=${2:-quick}; OUT=/tmp/cov/$ID
rm -rf $OUT; mkdir -p $OUT
cd /verif
export PYTHONDONTWRITEBYTECODE=1 PYTHONHASHSEED=0 FRAPPY_VERIF=1 VERIF_EVIDENCE_DIR=$OUT/evidence
export COVERAGE_FILE=$OUT/.coverage COVERAGE_RCFILE=/verif/tools/coveragerc
(/venv/bin/python -m coverage run --rcfile=/verif/tools/coveragerc -m harness.cli $ID --tier $TIER) 2>&1 | tail -n 2
/venv/bin/python -m coverage combine --rcfile=/verif/tools/coveragerc -q $OUT >/dev/null 2>&1
FILES=$(python3 -c "
import json
for l in open('/verif/properties.jsonl'):
    d=json.loads(l)
    if d['id']=='$ID': print(','.join('/repo/'+f for f in d['anchors']['files']))")
/venv/bin/python -m coverage report --rcfile=/verif/tools/coveragerc --include="$FILES" -m > $OUT/report.txt 2>&1
cat $OUT/report.txt
