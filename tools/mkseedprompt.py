#!/usr/bin/env python3
"""tools/mkseedprompt.py <ID> <n>: prepare a seeding task for a fresh sub-agent.
creates the scratch worktree /tmp/seed/<ID>-<n> (detached at /repo HEAD), the property file and the prompt
(template /verif/tools/seed_prompt.txt + property text + the ideas already used for this property);
prints the prompt path.  The agent sees only the prompt: nothing from /verif."""
import json
import subprocess
import sys
from pathlib import Path

pid, n = sys.argv[1], sys.argv[2]
seed = Path('/tmp/seed')
seed.mkdir(exist_ok=True)
wt = seed / f'{pid}-{n}'
subprocess.run(['git', '-C', '/repo', 'worktree', 'remove', '--force', str(wt)], capture_output=True)
subprocess.run(['git', '-C', '/repo', 'worktree', 'add', '--detach', str(wt), 'HEAD'], check=True, capture_output=True)
prop = next(json.loads(l) for l in open('/verif/properties.jsonl') if json.loads(l)['id'] == pid)
files = (prop.get('anchors') or {}).get('files', [])
ptxt = (f"{pid}: {prop['title']}\n\n{prop['statement']}\n\nQuantified over: {prop['quantifier']['text']}\n\n"
        f"Anchored in files: {', '.join(files)}\n")
pfile = seed / f'{pid}-{n}.property.txt'
pfile.write_text(ptxt)
prev = []
for d in sorted(Path('/verif/seeded').glob(f'{pid}-*')):
    prev.append(json.loads((d / 'meta.json').read_text())['breaks'])
tmpl = Path('/verif/tools/seed_prompt.txt').read_text()
text = tmpl.replace('WORKTREE', str(wt)).replace('PROPFILE', str(pfile)) + ptxt
if prev:
    text += ('\nIMPORTANT: previous engineers already tried these ideas:\n' + ''.join(f' - {p}\n' for p in prev) +
             'Do something DIFFERENT: another clause of the property, another code site, another mechanism. The property '
             'has several clauses - pick one none of the above touches. Prefer changes whose effect is only visible after '
             'a multi-step history, under a particular thread interleaving, or for an unusual but legal input class.\n')
out = seed / f'{pid}-{n}.prompt.txt'
out.write_text(text)
print(out)
