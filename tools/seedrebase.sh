#!/bin/sh
# usage: tools/seedrebase.sh <ID> <n>  -- re-apply seed /tmp/seed/<ID>-<n> on current /repo HEAD and test it
ID=$1; N=$2; SRC=/tmp/seed/$ID-$N; WT=/tmp/seed/$ID-$N-r
git -C /repo worktree remove --force $WT 2>/dev/null
git -C /repo worktree add --detach $WT HEAD >/dev/null 2>&1 || exit 2
cd $WT && git apply $SRC/seed.patch || { echo "PATCH DOES NOT APPLY"; exit 3; }
cp $SRC/demo_seed.py $WT/
cd /verif && tools/seedtest.sh $ID $WT
