#!/usr/bin/env python3
"""tools/keep_seed.py <seed-id> <property> <worktree> <caught:yes|no|after-strengthening> "<needs>" "<what>"
copies patch + demo into /verif/seeded/<seed-id>/ and writes meta.json"""
import json, shutil, subprocess, sys
from pathlib import Path
sid, prop, wt, caught, needs, what = sys.argv[1:7]
d = Path('/verif/seeded') / sid
d.mkdir(parents=True, exist_ok=True)
patch = subprocess.run(['git', '-C', wt, 'diff', '--', 'frappy'], capture_output=True, text=True).stdout
(d / 'patch.diff').write_text(patch)
shutil.copy(Path(wt) / 'demo_seed.py', d / 'demo_seed.py')
base = subprocess.run(['git', '-C', wt, 'rev-parse', 'HEAD'], capture_output=True, text=True).stdout.strip()
meta = {'seed': sid, 'property': prop, 'base_commit': base, 'breaks': what, 'needs_to_manifest': needs,
        'verified': ['demo_seed.py exits 1 with the change and 0 without it (run in a scratch worktree)',
                     'repository test suite unchanged with the change: 7 failed, 301 passed, 1 error (the pinned always-fail set)',
                     f'FRAPPY_REPO=<worktree> ./check {prop} --tier quick'],
        'caught_by_quick_check': caught}
(d / 'meta.json').write_text(json.dumps(meta, indent=1) + '\n')
print('kept', d, len(patch.splitlines()), 'patch lines')
