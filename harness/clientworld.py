"""real SecopClient on a scripted fake connection under the deterministic scheduler (C11)."""
import json

from . import detsched as ds
from .env import LoggerStub, boot

DESCR = {
    'equipment_id': 'fake', 'description': 'fake node', 'firmware': 'x',
    'modules': {'m': {'description': 'mod', 'interface_classes': ['Readable'], 'features': [],
                      'accessibles': {
                          'value': {'description': 'v', 'datainfo': {'type': 'double'}, 'readonly': True},
                          'p1': {'description': 'p', 'datainfo': {'type': 'double'}, 'readonly': False},
                          'p2': {'description': 'p', 'datainfo': {'type': 'double'}, 'readonly': False},
                      }}}}


class Peer:
    """scripted SECoP node at the other end of the fake connection.

    c2p: lines written by the client, not yet seen by the peer
    p2c: lines the peer has sent, not yet read by the client
    The peer's own behaviour (when and what it answers) is executed by a scheduled thread
    running `Peer.serve`, driven by `policy`."""

    def __init__(self, sched, policy):
        self.s = sched
        self.c2p = []
        self.p2c = []
        self.open = True          # connection usable
        self.closed_by = None
        self.policy = policy
        self.received = []        # (gid, action, ident)
        self.gid = 0
        self.refuse = False


class FakeConn:
    """what frappy.client sees as AsynConn(uri)"""
    world = None
    timeout = 1

    def __init__(self, uri, *a, **k):
        w = FakeConn.world
        if not w.peer.open and w.sc.get('reopen') is not None and not w.peer.refuse:
            # the node comes back after `reopen` refused attempts
            w.attempts += 1
            if w.attempts > w.sc['reopen']:
                w.peer.open = True
                w.peer.closed_by = None
                del w.peer.c2p[:]
                del w.peer.p2c[:]
                w.sched.log(ev='peer_reopen')
        if w.peer.refuse or not w.peer.open:
            from frappy.errors import CommunicationFailedError
            w.sched.log(ev='connect_refused')
            raise CommunicationFailedError('can not connect (refused)')
        self.w = w
        self.peer = w.peer
        self.shut = False
        w.conns += 1

    def writeline(self, line):
        self.send(line + b'\n')

    def send(self, data):
        s = self.w.sched
        s.yield_('io.send')
        if not self.peer.open:
            return     # bytes written to a connection the peer has closed are lost silently
        for line in data.split(b'\n'):
            if line:
                self.peer.c2p.append(line.decode())
                parts = line.decode().split(' ', 2)
                s.log(ev='io_send', action=parts[0], data=parts[2] if len(parts) > 2 else None)
        if s.me() is not None and not s.aborting:
            s.yield_('io.sent')     # the peer may answer before the sender executes its next statement

    def readline(self, timeout=None):
        s = self.w.sched
        s.yield_('io.readline')
        p = self.peer
        ok = s.block(lambda: bool(p.p2c) or not p.open or self.shut, timeout or self.timeout, 'readline')
        if p.p2c:
            line = p.p2c.pop(0)
            s.log(ev='io_recv', line=line)
            return line.encode()
        if not p.open or self.shut:
            from frappy.lib.asynconn import ConnectionClosed
            raise ConnectionClosed()
        if timeout:
            raise TimeoutError('timeout in readline')
        s.log(ev='io_silence')
        return None

    def shutdown(self):
        s = self.w.sched
        if s.me() is not None and not s.aborting:
            s.yield_('io.shutdown')
        self.shut = True
        if self.peer.open:
            self.peer.open = False
            self.peer.closed_by = 'client'
            if not s.aborting:
                s.log(ev='io_shutdown')

    def disconnect(self):
        self.shut = True

    def __del__(self):
        pass


class FakeSocket:
    """socket under the real frappy.lib.asynconn.AsynTcp (scenario option tcp=True): the client then runs the
    real recv / readline / shutdown / disconnect code instead of FakeConn"""

    def __init__(self, w, timeout):
        self.w = w
        self.peer = w.peer
        self.timeout = timeout
        self.shut = False
        self.closed = False
        w.conns += 1

    def settimeout(self, t):
        self.timeout = t

    def sendall(self, data):
        s = self.w.sched
        s.yield_('io.send')
        if self.closed:
            raise OSError(9, 'Bad file descriptor')
        if self.shut:
            raise BrokenPipeError(32, 'Broken pipe')
        if not self.peer.open:
            return     # bytes written to a connection the peer has closed are lost silently
        for line in data.split(b'\n'):
            if line:
                self.peer.c2p.append(line.decode())
                parts = line.decode().split(' ', 2)
                s.log(ev='io_send', action=parts[0], data=parts[2] if len(parts) > 2 else None)
        if s.me() is not None and not s.aborting:
            s.yield_('io.sent')

    def recv(self, n):
        import socket
        s = self.w.sched
        p = self.peer
        if self.closed:
            raise OSError(9, 'Bad file descriptor')
        s.yield_('io.readline')
        s.block(lambda: bool(p.p2c) or not p.open or self.shut or self.closed, self.timeout, 'readline')
        if p.p2c and not self.shut:
            line = p.p2c.pop(0)
            s.log(ev='io_recv', line=line)
            return line.encode() + b'\n'
        if self.shut or self.closed:
            return b''
        if not p.open:
            if self.w.sc.get('reset'):
                self.reset = True
                raise ConnectionResetError(104, 'Connection reset by peer')
            return b''      # end of file
        s.log(ev='io_silence')
        raise socket.timeout('timed out')

    reset = False

    def shutdown(self, how):
        s = self.w.sched
        if s.me() is not None and not s.aborting:
            s.yield_('io.shutdown')
        if self.shut or self.reset or self.closed:
            # already shut down / reset by the peer: the kernel reports ENOTCONN (a plain OSError)
            raise OSError(107, 'Transport endpoint is not connected')
        self.shut = True
        if self.peer.open:
            self.peer.open = False
            self.peer.closed_by = 'client'
            if not s.aborting:
                s.log(ev='io_shutdown')

    def close(self):
        self.closed = True
        self.shut = True


class FakeSocketModule:
    import socket as _real
    timeout = _real.timeout
    gaierror = _real.gaierror
    error = _real.error
    SHUT_RDWR = _real.SHUT_RDWR

    def __init__(self, w):
        self.w = w

    def create_connection(self, addr, timeout=None):
        w = self.w
        if not w.peer.open and w.sc.get('reopen') is not None and not w.peer.refuse:
            w.attempts += 1
            if w.attempts > w.sc['reopen']:
                w.peer.open = True
                w.peer.closed_by = None
                del w.peer.c2p[:]
                del w.peer.p2c[:]
                w.sched.log(ev='peer_reopen')
        if w.peer.refuse or not w.peer.open:
            w.sched.log(ev='connect_refused')
            raise ConnectionRefusedError(111, 'Connection refused')
        return FakeSocket(w, timeout)


class FakeSelectModule:
    @staticmethod
    def select(r, w, x, timeout=None):
        return [c for c in r if c.peer.p2c or not c.peer.open], [], []


class World:
    def __init__(self, strategy, line_level=False, max_steps=20000, sc=None):
        boot()
        import frappy.client as fc
        self.fc = fc
        self.sc = sc or {}
        self.attempts = 0
        self.sched = ds.Scheduler(strategy, max_steps=max_steps,
                                  trace_files=('frappy/client/__init__.py',) if line_level else ())
        self.peer = Peer(self.sched, None)
        self.conns = 0
        FakeConn.world = self
        if self.sc.get('tcp'):
            import frappy.lib.asynconn as fa
            self.patch = ds.Patch(fc, fa, extra={'frappy.lib.asynconn': {'socket': FakeSocketModule(self),
                                                                         'select': FakeSelectModule}})
        else:
            self.patch = ds.Patch(fc, extra={'frappy.client': {'AsynConn': FakeConn}})
        self.client = None
        self.results = {}

    def make_client(self):
        fc = self.fc

        class Client(fc.SecopClient):
            activate = bool(self.sc.get('activate'))

            def __del__(self):   # finalizers must not touch primitives of later runs
                pass

        self.client = Client('tcp://node:10767' if self.sc.get('tcp') else 'fake://x', LoggerStub('client'))
        return self.client


def line(action, ident=None, data=None):
    parts = [action]
    if ident is not None or data is not None:
        parts.append(ident or '.')
    if data is not None:
        parts.append(json.dumps(data))
    return ' '.join(parts)


def run_scenario(sc, strategy, line_level=False, max_steps=6000):
    """sc: dict(callers=[(action, ident)], updates=n, streaming=bool, drop=bool, user=bool,
                ignore=[request indices the peer never answers])
    returns dict(events, results, flags)"""
    w = World(strategy, line_level, max_steps, sc)
    ds.HINT_PREFIX = 'c'
    s = w.sched
    peer = w.peer
    ready = ds.DEvent()
    passed = {'n': 0}
    passed_by = set()
    caller_names = {f'c{k}' for k in range(1, len(sc['callers']) + 1)}
    ncall = len(sc['callers'])
    state = {'reqno': 0}

    def peer_thread():
        while True:
            s.block(lambda: bool(peer.c2p), None, 'peer.wait')
            ln = peer.c2p.pop(0)
            parts = ln.split(' ', 2)
            action = parts[0]
            ident = parts[1] if len(parts) > 1 else None
            if action == '*IDN?':
                peer.p2c.append('ISSE,SECoP,V2019-09-16,v1.0')
                continue
            if action == 'describe':
                peer.p2c.append('describing . ' + json.dumps(DESCR))
                continue
            if action == 'activate':
                peer.p2c.append('active')
                continue
            gid = None
            if action != 'ping':
                gid = int(parts[2]) if len(parts) > 2 else 0     # the caller index travels as data
            s.log(ev='peer_recv', gid=gid, action=action, ident=ident)
            if gid is not None and gid in sc.get('ignore', ()):
                continue
            s.yield_('peer.answer')
            if gid is not None and gid in sc.get('late', {}):
                s.sleep(sc['late'][gid])       # the node answers this request late (after the caller's time-out)
            if not peer.open:
                if sc.get('reopen') is not None:
                    continue
                return
            if action == 'ping':
                peer.p2c.append(f'pong {ident} [null, {{"t": 1}}]')
                s.log(ev='peer_send', kind='pong', ident=ident)
            elif gid in sc.get('errors', ()) and action in ('read', 'change'):
                # the node answers this request with an error reply
                peer.p2c.append(f'error_{action} {ident} ["HardwareError", "x{gid}", {{}}]')
                s.log(ev='peer_send', kind='error', ident=ident, gid=gid)
            elif action == 'read':
                peer.p2c.append(f'reply {ident} [{gid}, {{"t": 1}}]')
                s.log(ev='peer_send', kind='reply', ident=ident, gid=gid)
            elif action == 'change':
                peer.p2c.append(f'changed {ident} [{gid}, {{"t": 1}}]')
                s.log(ev='peer_send', kind='changed', ident=ident, gid=gid)
            elif sc.get('xreply'):     # an experimental request answered by an experimental (unknown, non-error) reply
                if sc.get('errupd_before_reply'):
                    # the node announces an error state of a parameter first (an asynchronous message)
                    peer.p2c.append('error_update m:value ["HardwareError", "sensor broken", {"t": 1}]')
                    peer.p2c.append('error_update m:p2 ["HardwareError", "sensor broken", {"t": 1}]')
                peer.p2c.append(f'x{action} {ident} [{gid}, {{}}]')
                s.log(ev='peer_send', kind='xreply', ident=ident, gid=gid)
            else:
                peer.p2c.append(f'error_{action} {ident} ["ProtocolError", "x{gid}", {{}}]')
                s.log(ev='peer_send', kind='error', ident=ident, gid=gid)

    def updater():
        ready.wait()
        if sc.get('streaming'):
            while peer.open:
                s.sleep(0.5)
                if peer.open:
                    peer.p2c.append('update m:value [0, {"t": 1}]')
        else:
            for k in range(sc.get('updates', 0)):
                s.yield_('upd')
                if peer.open:
                    peer.p2c.append('update m:value [%d, {"t": 1}]' % k)
                    s.log(ev='peer_update')

    def dropper():
        if not sc.get('anytime'):
            s.block(lambda: passed['n'] >= ncall, None, 'drop.wait')
        else:
            ready.wait()
        s.yield_('drop')
        if peer.open:
            peer.open = False
            peer.closed_by = 'peer'
            s.log(ev='peer_drop')

    def user():
        if sc.get('user_at') is not None:       # the user shuts the client down at a given time, whatever the callers do
            ready.wait()
            s.sleep(sc['user_at'])
        else:
            s.block(lambda: passed['n'] >= ncall, None, 'user.wait')
        if sc.get('user_after'):
            s.sleep(sc['user_after'])
        s.yield_('user')
        s.log(ev='disc_call', who='user')
        try:
            w.client.disconnect(True)
            s.log(ev='disc_ret', who='user', exc=None)
        except ds.SchedAbort:
            raise
        except BaseException as e:  # noqa
            s.log(ev='disc_ret', who='user', exc=type(e).__name__)

    def caller(i, action, ident, after=0):
        ready.wait()
        if after:
            s.sleep(after)
        c = w.client
        s.log(ev='call', i=i, action=action, ident=ident)
        t0 = s.now
        try:
            entry = None
            entry = c.queue_request(action, ident, i)
            rep = c.get_reply(entry)
            gid = rep[2][0] if isinstance(rep[2], list) else None
            s.log(ev='ret', i=i, kind='reply', gid=gid, raction=rep[0], rident=rep[1], dt=s.now - t0)
        except ds.SchedAbort:
            raise
        except BaseException as e:  # noqa
            from frappy.errors import SECoPError
            kind = 'timeout' if isinstance(e, TimeoutError) else \
                'connerr' if isinstance(e, ConnectionError) else \
                'secop' if isinstance(e, SECoPError) else 'other:' + type(e).__name__
            gid = None
            if kind == 'secop':
                import re
                m = re.search(r'x(\d+)', str(e))
                gid = int(m.group(1)) if m else None
            if entry is None:
                passed_by.add(ds.current_thread().name if False else f'c{i}')
                passed['n'] = len(passed_by)
            s.log(ev='ret', i=i, kind=kind, gid=gid, dt=s.now - t0, msg=str(e)[:80])

    def main():
        c = w.make_client()
        c.register_callback(None, nodeStateChange=lambda online, state: s.log(ev='state', online=bool(online), state=state))
        if not sc.get('lazy'):
            c.connect()
            c.txq.name = 'txq'
            c.pending.name = 'pending'
        # (lazy: nobody connects beforehand - the first requests do, possibly several at the same time)
        orig = c.connect

        def connect(*a, **k):
            # queue_request calls self.connect() first: note which callers went through it
            r = orig(*a, **k)
            if sc.get('lazy'):
                for q, n in ((c.txq, 'txq'), (c.pending, 'pending')):
                    if not getattr(q, 'name', None):
                        q.name = n
            me = s.me()
            if me is not None and me.name in caller_names:
                passed_by.add(me.name)
                passed['n'] = len(passed_by)
            return r
        c.connect = connect
        s.setup_phase = False
        ready.set()

    with w.patch:
        s.setup_phase = True
        s.spawn('peer', peer_thread)
        s.spawn('main', main)
        names = []
        for i, (a, idn, *after) in enumerate(sc['callers'], 1):
            s.spawn(f'c{i}', caller, i, a, idn, *after)
            names.append(f'c{i}')
        if sc.get('updates') or sc.get('streaming'):
            s.spawn('upd', updater)
        if sc.get('drop'):
            s.spawn('drop', dropper)
            names.append('drop')
        if sc.get('user'):
            s.spawn('user', user)
            names.append('user')
        expect_down = sc.get('drop') or sc.get('user')

        def client_threads():
            return [t for n, t in s.threads.items() if n.split('#')[0] in ('rxthread', 'txthread', 'reconnect')]

        def done():
            if not all(s.threads[n].finished for n in names):
                return False
            if expect_down:
                return all(t.finished for t in client_threads())
            return True
        s.stop_when = done
        s.run()
        left = sorted(n for n, t in s.threads.items()
                      if not t.finished and n.split('#')[0] in ('rxthread', 'txthread', 'reconnect'))
    res = {'events': s.events, 'deadlock': s.deadlock, 'livelock': s.livelock,
           'left': left,
           'choices': [c for _, c in s.choices], 'raw_choices': list(s.choices), 'steps': s.steps,
           'stopped': s.stopped,
           'thread_exc': {n: repr(t.exc) for n, t in s.threads.items() if t.exc is not None}}
    return res
