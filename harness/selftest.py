"""setup_cmd: verify the offline tool chain (nothing is downloaded or installed)."""
import shutil
import subprocess
import sys

from .core import SPEC, run_tlc, sany


def main():
    ok = True
    for tool in ('java', 'tlc', 'pcal'):
        if not shutil.which(tool):
            print('missing tool', tool)
            ok = False
    try:
        sany('Logging')
        r = run_tlc('LogRotation', 'MC_LogRotation.cfg', timeout=120)
        if not r.ok:
            print('TLC smoke test failed', r.error or r.violated)
            ok = False
    except Exception as e:  # noqa
        print('tool chain broken:', e)
        ok = False
    p = subprocess.run(['/venv/bin/python', '-c', 'import sys; sys.path.insert(0, "/repo"); import frappy.datatypes, mlzlog'],
                       stdout=subprocess.PIPE, stderr=subprocess.STDOUT, text=True)
    if p.returncode:
        print('cannot import frappy from /repo:', p.stdout[-500:])
        ok = False
    print('selftest', 'ok' if ok else 'FAILED')
    return 0 if ok else 1
