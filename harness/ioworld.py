"""a real communicator module WITH its real poll thread and real HasIO modules polled through it, over the
scripted transport of commworld, under the deterministic scheduler in virtual time (C16 x C13: the connection
heals by polling is_connected, and polling of the attached modules resumes right after a reconnect)."""
from . import detsched as ds
from .commworld import T0, World, make_device
from .env import LoggerStub


def run_scenario(sc, strategy, max_steps=60000):
    """sc: dict(sensors=[interval...] (seconds), pollinterval=reconnect interval, close_at=t, refuse=k,
               callbacks=n, users=[[('sleep', d) | ('comm', gid)...]], horizon=seconds, tcp=bool)"""
    sc = dict(sc, eps=2.0 ** -16)
    w = World(sc, strategy, max_steps)
    s = w.sched
    dev = w.dev
    dev.refuse = 0          # sc['refuse'] counts from the outage on (see fault)
    counter = {'gid': 100}
    device = make_device(w, sc)
    with w.patch:
        from frappy.datatypes import FloatRange
        from frappy.io import HasIO
        from frappy.modules import Readable
        from frappy.params import Parameter
        io = w.make_io()
        for k in range(sc.get('oneshot', 0)):       # one-shot callbacks (return False: cleared after their first run),
            #                                        registered BEFORE the permanent ones
            io.registerReconnectCallback(f'once{k}', (lambda k=k: (s.log(ev='callback', name=f'once{k}'), False)[1]))
        for k in range(sc.get('callbacks', 0)):
            io.registerReconnectCallback(f'cb{k}', (lambda k=k: (s.log(ev='callback', name=f'cb{k}'), True)[1]))
        sensors = []

        def make_sensor(i, interval):
            def read_value(self):
                counter['gid'] += 1
                gid = counter['gid']
                s.log(ev='call', i=i, kind='comm', gids=[gid], delays=[0], exp=[True], sensor=True)
                try:
                    reply = self.communicate(f'C{gid}')
                    got = int(reply[1:]) if reply[1:].isdigit() else -1
                    s.log(ev='ret', i=i, ok=True, got=[got])
                    return float(got)
                except ds.SchedAbort:
                    raise
                except BaseException as e:  # noqa
                    from frappy.errors import SECoPError
                    s.log(ev='ret', i=i, ok=False, got=[], exc='comm' if isinstance(e, SECoPError) else type(e).__name__,
                          msg=str(e)[:60])
                    raise

            cls = type(f'Sensor{i}', (HasIO, Readable), {
                'value': Parameter('v', FloatRange(), default=0),
                'read_value': read_value,
                'read_status': lambda self: (100, ''),
            })
            m = cls(f's{i}', LoggerStub(f's{i}'), {'description': '', 'pollinterval': {'value': interval},
                                                  'io': 'io'}, io_srv)
            return m

        io_srv = w.srv
        io_srv.secnode.get_module = lambda name: {'io': io}.get(name)
        for i, interval in enumerate(sc.get('sensors', []), 1):
            sensors.append(make_sensor(i, interval))
        for m in sensors:
            m.earlyInit()
        for m in sensors:
            m.initModule()

        class Starter:
            def get_trigger(self, timeout=None):
                return lambda: s.log(ev='started')

        def boot_thread():
            io.startModule(Starter())

        def fault():
            # one outage, or several (close_at = [t1, t2 ...]: the connection has to heal - and polling to resume -
            # after every one of them, not only after the first)
            times = sc['close_at'] if isinstance(sc['close_at'], (list, tuple)) else [sc['close_at']]
            t0 = s.now
            for t in times:
                s.sleep(max(0.0, t0 + t - s.now))
                if dev.open:
                    dev.refuse = dev.attempts + sc.get('refuse', 0)     # the next k attempts are refused
                    dev.open = False
                    s.log(ev='dev_close')

        def user(i, txns):
            for txn in txns:
                if txn[0] == 'sleep':
                    s.sleep(txn[1])
                    continue
                gid = txn[1]
                s.log(ev='call', i=i, kind='comm', gids=[gid], delays=[0], exp=[True])
                try:
                    reply = io.communicate(f'C{gid}')
                    s.log(ev='ret', i=i, ok=True, got=[int(reply[1:]) if reply[1:].isdigit() else -1])
                except ds.SchedAbort:
                    raise
                except BaseException as e:  # noqa
                    from frappy.errors import SECoPError
                    s.log(ev='ret', i=i, ok=False, got=[], exc='comm' if isinstance(e, SECoPError) else type(e).__name__,
                          msg=str(e)[:60])

        s.setup_phase = True
        s.spawn('dev', device)

        def starter():
            s.setup_phase = False
        s.spawn('starter', starter)
        s.spawn('boot', boot_thread)
        if 'close_at' in sc:
            s.spawn('fault', fault)
        for k, txns in enumerate(sc.get('users', []), 1):
            s.spawn(f'u{k}', user, len(sensors) + k, txns)
        horizon = T0 + sc.get('horizon', 40)
        s.stop_when = lambda: s.now > horizon
        snap = {}
        orig_teardown = s.teardown

        def teardown():
            snap['alive'] = [n for n, t in s.threads.items() if not t.finished and 'pollThread' in n]
            orig_teardown()
        s.teardown = teardown
        s.run()
        w.dead = True
        final_state = bool(io.is_connected)
    ev = s.events
    ev.append({'ev': 'end', 'connected': final_state, 'unfinished': [], 'seq': len(ev), 'th': 'ctl', 'vt': s.now,
               'poller_alive': bool(snap.get('alive'))})
    return {'events': ev, 'deadlock': s.deadlock, 'livelock': s.livelock,
            'choices': [c for _, c in s.choices], 'raw_choices': list(s.choices),
            'thread_exc': {n: repr(t.exc) for n, t in s.threads.items() if t.exc is not None}}
