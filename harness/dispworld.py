"""real Dispatcher + real Modules + fake connections under the deterministic scheduler (C08)."""
from . import detsched as ds
from .env import LoggerStub, boot

T0 = 1000000.0


class SConn:
    """fake connection: every send_reply is a yield point (the gap between building a message
    and sending it) and an observable event"""

    def __init__(self, name, world):
        self.name = name
        self.w = world
        self.msgs = []

    def send_reply(self, msg):
        s = self.w.sched
        if s.me() is not None and not s.aborting:
            s.yield_('send')
        self.msgs.append(msg)
        me = s.me()
        by = 'snap' if me is not None and me.name.startswith('r_') else 'bcast'
        if msg[0] in ('update', 'error_update'):
            p = msg[1]
            s.log(ev='deliver', c=self.name, p=p, pm=p.split(':')[0], v=int(msg[2][0]) if msg[0] == 'update' else -1,
                  by=by)
        else:
            s.log(ev='other', c=self.name, action=msg[0], spec=msg[1])

    def __repr__(self):
        return self.name


class World:
    count = 0

    def __init__(self, strategy, line_level=False, max_steps=20000):
        boot()
        import frappy.modulebase as mb
        import frappy.protocol.dispatcher as dp
        from frappy.datatypes import FloatRange
        from frappy.modules import Module
        from frappy.params import Parameter
        self.sched = ds.Scheduler(strategy, max_steps=max_steps,
                                  trace_files=('frappy/protocol/dispatcher.py', 'frappy/modulebase.py')
                                  if line_level else ())
        self.patch = ds.Patch(mb, dp)
        self.mb, self.dp = mb, dp
        self.Module, self.Parameter, self.FloatRange = Module, Parameter, FloatRange

    def build(self, conns):
        """called inside the patch (locks of the created objects are scheduler locks)"""
        Module, Parameter, FloatRange = self.Module, self.Parameter, self.FloatRange
        w = self

        class SecNode:
            def __init__(self):
                self.modules = {}
                self.export = []
                self.name = 'n'

            def get_module(self, n):
                return self.modules.get(n)

        class Srv:
            restart = shutdown = None

        srv = Srv()
        srv.secnode = SecNode()
        self.dispatcher = srv.dispatcher = self.dp.Dispatcher('d', LoggerStub(), {}, srv)
        orig = self.dispatcher.announce_update

        def announce_update(moduleobj, pobj):
            # called inside the module's updateLock right after the store: the linearisation point
            w.sched.log(ev='store', p=f'{moduleobj.name}:{pobj.export}', pm=moduleobj.name, v=int(pobj.value))
            orig(moduleobj, pobj)
        self.dispatcher.announce_update = announce_update

        class Mod(Module):
            p1 = Parameter('p1', FloatRange(), default=0, readonly=False)
            p2 = Parameter('p2', FloatRange(), default=0, readonly=False)
            hidden = Parameter('hidden', FloatRange(), default=0, export=False)

            def earlyInit(self):
                pass

        import mlzlog
        from frappy.logging import RemoteLogHandler
        World.count += 1
        import os
        root = mlzlog.MLZLogger('c08_%d_%d' % (os.getpid(), World.count))
        root.handlers[:] = []
        root.propagate = False
        root.addHandler(RemoteLogHandler())
        self.mods = {}
        for m in ('m1', 'm2'):
            o = Mod(m, root.getChild(m), {'description': ''}, srv)
            o.updateCallback = announce_update
            srv.secnode.modules[m] = o
            srv.secnode.export.append(m)
            self.mods[m] = o
        self.conns = {c: SConn(c, self) for c in conns}
        for c in self.conns.values():
            self.dispatcher.add_connection(c)
        self.params = [f'{m}:{p}' for m in self.mods for p in ('_p1', '_p2')]


def scope_params(scope):
    if scope in (None, '.'):
        return ['m1:_p1', 'm1:_p2', 'm2:_p1', 'm2:_p2']
    if ':' in scope:
        return [scope]
    return [f'{scope}:_p1', f'{scope}:_p2']


def run_scenario(sc, strategy, line_level=False, max_steps=8000):
    """sc: dict(scripts={conn: [(kind, scope)...]}, updaters=[[(mod, param)...], ...])"""
    w = World(strategy, line_level, max_steps)
    s = w.sched
    counter = {'v': 0}
    with w.patch:
        w.build(sorted(sc['scripts']))
        # seed: the cache holds version 0 of everything
        for p in w.params:
            s.log(ev='seed', p=p, v=0)

        def requester(cname, script):
            conn = w.conns[cname]
            for kind, scope in script:
                s.log(ev='req', c=cname, kind=kind, scope=scope or '.', sm=(scope or '.').split(':')[0])
                if kind == 'disconnect':
                    w.dispatcher.remove_connection(conn)
                    s.log(ev='reply', c=cname, kind='ident', scope='.', sm='.', params=[])
                    continue
                msg = {'activate': ('activate', scope, None), 'deactivate': ('deactivate', scope, None),
                       'ident': ('*IDN?', None, None)}[kind]
                try:
                    reply = w.dispatcher.handle_request(conn, msg)
                except ds.SchedAbort:
                    raise
                except Exception as e:  # the interface would send an error reply
                    reply = ('error_' + msg[0], scope, [type(e).__name__, str(e), {}])
                conn.send_reply(reply)      # the interface sends the reply after the dispatcher lock is released
                s.log(ev='reply', c=cname, kind=kind, scope=scope or '.', sm=(scope or '.').split(':')[0],
                      params=scope_params(scope) if kind != 'ident' else [], action=reply[0])

        def updater(todo):
            for m, p in todo:
                counter['v'] += 1
                w.mods[m].announceUpdate(p, float(counter['v']))

        names = []
        for c, script in sorted(sc['scripts'].items()):
            s.spawn('r_' + c, requester, c, script)
        for k, todo in enumerate(sc.get('updaters', [])):
            s.spawn(f'u{k + 1}', updater, todo)
        s.run()
        cache = {p: int(getattr(w.mods[p.split(':')[0]], p.split(':')[1].lstrip('_'))) for p in w.params}
    ev = s.events
    ev.append({'ev': 'quiet', 'params': [{'p': p, 'pm': p.split(':')[0]} for p in w.params], 'cache': cache,
               'seq': len(ev), 'th': 'ctl', 'vt': s.now})
    return {'events': ev, 'deadlock': s.deadlock, 'livelock': s.livelock,
            'choices': [c for _, c in s.choices], 'raw_choices': list(s.choices),
            'thread_exc': {n: repr(t.exc) for n, t in s.threads.items() if t.exc is not None}}
