"""real Dispatcher + real Modules + fake connections under the deterministic scheduler (C08)."""
from . import detsched as ds
from .env import LoggerStub, boot

T0 = 1000000.0


class SConn:
    """fake connection: every send_reply is a yield point (the gap between building a message
    and sending it) and an observable event"""

    def __init__(self, name, world):
        self.name = name
        self.w = world
        self.msgs = []

    def send_reply(self, msg):
        s = self.w.sched
        if s.me() is not None and not s.aborting:
            s.yield_('send')
        self.msgs.append(msg)
        me = s.me()
        by = 'snap' if me is not None and me.name.startswith('r_') else 'bcast'
        if msg[0] in ('update', 'error_update'):
            p = msg[1]
            # an error update carries the version number as its error text
            s.log(ev='deliver', c=self.name, p=p, pm=p.split(':')[0],
                  v=int(msg[2][0]) if msg[0] == 'update' else int(float(msg[2][1])), by=by)
        else:
            s.log(ev='other', c=self.name, action=msg[0], spec=msg[1])
        if s.me() is not None and not s.aborting:
            s.yield_('sent')

    def __repr__(self):
        return self.name


class World:
    count = 0

    def __init__(self, strategy, line_level=False, max_steps=20000):
        boot()
        import frappy.modulebase as mb
        import frappy.protocol.dispatcher as dp
        from frappy.datatypes import FloatRange
        from frappy.modules import Module
        from frappy.params import Parameter
        self.sched = ds.Scheduler(strategy, max_steps=max_steps,
                                  trace_files=('frappy/protocol/dispatcher.py', 'frappy/modulebase.py')
                                  if line_level else ())
        self.patch = ds.Patch(mb, dp)
        self.mb, self.dp = mb, dp
        self.Module, self.Parameter, self.FloatRange = Module, Parameter, FloatRange

    def build(self, conns, modnames=('m1', 'm2')):
        """called inside the patch (locks of the created objects are scheduler locks)"""
        Module, Parameter, FloatRange = self.Module, self.Parameter, self.FloatRange
        w = self

        class SecNode:
            def __init__(self):
                self.modules = {}
                self.export = []
                self.name = 'n'

            def get_module(self, n):
                return self.modules.get(n)

        class Srv:
            restart = shutdown = None

        srv = Srv()
        srv.secnode = SecNode()
        self.dispatcher = srv.dispatcher = self.dp.Dispatcher('d', LoggerStub(), {}, srv)
        orig = self.dispatcher.announce_update

        def announce_update(moduleobj, pobj):
            # called inside the module's updateLock right after the store: the linearisation point
            w.sched.log(ev='store', p=f'{moduleobj.name}:{pobj.export}', pm=moduleobj.name,
                        v=int(float(str(pobj.readerror))) if pobj.readerror else int(pobj.value))
            orig(moduleobj, pobj)
        self.dispatcher.announce_update = announce_update

        class Mod(Module):
            p1 = Parameter('p1', FloatRange(), default=0, readonly=False)
            p2 = Parameter('p2', FloatRange(), default=0, readonly=False)
            hidden = Parameter('hidden', FloatRange(), default=0, export=False)

            def earlyInit(self):
                pass

        import mlzlog
        from frappy.logging import RemoteLogHandler
        World.count += 1
        import os
        root = mlzlog.MLZLogger('c08_%d_%d' % (os.getpid(), World.count))
        root.handlers[:] = []
        root.propagate = False
        root.addHandler(RemoteLogHandler())
        self.mods = {}
        self.modnames = tuple(modnames)
        for m in self.modnames:
            o = Mod(m, root.getChild(m), {'description': ''}, srv)
            o.updateCallback = announce_update
            srv.secnode.modules[m] = o
            srv.secnode.export.append(m)
            self.mods[m] = o
        self.conns = {c: SConn(c, self) for c in conns}
        for c in self.conns.values():
            self.dispatcher.add_connection(c)
        self.params = [f'{m}:{p}' for m in self.mods for p in ('_p1', '_p2')]


def scope_params(scope, modnames=('m1', 'm2')):
    if scope in (None, '.'):
        return [f'{m}:{p}' for m in modnames for p in ('_p1', '_p2')]
    if ':' in scope:
        return [scope]
    return [f'{scope}:_p1', f'{scope}:_p2']


def run_scenario(sc, strategy, line_level=False, max_steps=8000):
    """sc: dict(scripts={conn: [(kind, scope)...]}, updaters=[[(mod, param)...], ...])"""
    w = World(strategy, line_level, max_steps)
    s = w.sched
    counter = {'v': 0}
    with w.patch:
        w.build(sorted(sc['scripts']), sc.get('mods', ('m1', 'm2')))
        # seed: the cache holds version 0 of everything
        for p in w.params:
            s.log(ev='seed', p=p, v=0)

        def requester(cname, script):
            conn = w.conns[cname]
            for kind, scope in script:
                s.log(ev='req', c=cname, kind=kind, scope=scope or '.', sm=(scope or '.').split(':')[0])
                if kind == 'disconnect':
                    w.dispatcher.remove_connection(conn)
                    s.log(ev='reply', c=cname, kind='ident', scope='.', sm='.', params=[], ok=True, valid=True)
                    continue
                msg = {'activate': ('activate', scope, None), 'deactivate': ('deactivate', scope, None),
                       'ident': ('*IDN?', None, None)}[kind]
                try:
                    reply = w.dispatcher.handle_request(conn, msg)
                except ds.SchedAbort:
                    raise
                except Exception as e:  # the interface would send an error reply
                    reply = ('error_' + msg[0], scope, [type(e).__name__, str(e), {}])
                conn.send_reply(reply)      # the interface sends the reply after the dispatcher lock is released
                valid = scope in (None, '.') or scope in w.modnames or scope in w.params
                s.log(ev='reply', c=cname, kind=kind, scope=scope or '.', sm=(scope or '.').split(':')[0],
                      params=scope_params(scope, w.modnames) if kind != 'ident' and valid else [], action=reply[0],
                      ok=not reply[0].startswith('error_'), valid=valid)

        def updater(todo):
            from frappy.errors import HardwareError
            for m, p, *how in todo:
                counter['v'] += 1
                if how:      # the parameter goes into an error state (the error text is the version number)
                    w.mods[m].announceUpdate(p, None, HardwareError(str(counter['v'])))
                else:
                    w.mods[m].announceUpdate(p, float(counter['v']))

        names = []
        for c, script in sorted(sc['scripts'].items()):
            s.spawn('r_' + c, requester, c, script)
        for k, todo in enumerate(sc.get('updaters', [])):
            s.spawn(f'u{k + 1}', updater, todo)
        s.run()
        def version(p):
            pobj = w.mods[p.split(':')[0]].parameters[p.split(':')[1].lstrip('_')]
            return int(float(str(pobj.readerror))) if pobj.readerror else int(pobj.value)
        cache = {p: version(p) for p in w.params}
    ev = s.events
    ev.append({'ev': 'quiet', 'params': [{'p': p, 'pm': p.split(':')[0]} for p in w.params], 'cache': cache,
               'seq': len(ev), 'th': 'ctl', 'vt': s.now})
    return {'events': ev, 'deadlock': s.deadlock, 'livelock': s.livelock,
            'choices': [c for _, c in s.choices], 'raw_choices': list(s.choices),
            'thread_exc': {n: repr(t.exc) for n, t in s.threads.items() if t.exc is not None}}


def run_cache_scenario(sc, strategy, line_level=False, max_steps=8000):
    """C05, concurrent part: worker threads act on one module's parameters (driver reads that succeed / raise,
    writes, attribute assignments, explicit error announcements) while 1-2 connections are activated.
    sc: dict(workers=[[(op, param, arg)...], ...], omit=seconds)
    Every update message is mapped back to the cache state (version) it carries; a message that carries a
    state the cache never held gets version -2."""
    w = World(strategy, line_level, max_steps)
    from frappy.errors import HardwareError, RangeError
    s = w.sched
    versions = {}           # (p, content) -> latest version number
    counter = {'v': 0}
    with w.patch:
        w.build(['c1', 'c2'])
        disp = w.dispatcher
        m = w.mods['m1']
        for pname in ('p1', 'p2'):
            m.parameters[pname].omit_unchanged_within = sc.get('omit', 0)
        script = {}

        def content(pobj):
            if pobj.readerror:
                return ('E', type(pobj.readerror).__name__, str(pobj.readerror), pobj.timestamp or None)
            return ('V', pobj.export_value(), pobj.timestamp or None)

        def announce_update(moduleobj, pobj):
            counter['v'] += 1
            p = f'{moduleobj.name}:{pobj.export}'
            versions[p, content(pobj)] = counter['v']
            s.log(ev='store', p=p, pm=moduleobj.name, v=counter['v'])
            disp.broadcast_event(w.dp.make_update(moduleobj.name, pobj))
        for mod in w.mods.values():
            mod.updateCallback = announce_update

        class VConn(SConn):
            def send_reply(self, msg):
                if s.me() is not None and not s.aborting:
                    s.yield_('send')
                self.msgs.append(msg)
                if msg[0] in ('update', 'error_update'):
                    p = msg[1]
                    if msg[0] == 'update':
                        c = ('V', msg[2][0], msg[2][1].get('t'))
                    else:
                        c = ('E', msg[2][0], msg[2][1], msg[2][2].get('t'))
                        # error class name on the wire vs python class name
                        for (pp, cc), vv in list(versions.items()):
                            if pp == p and cc[0] == 'E' and cc[2] == c[2] and cc[3] == c[3]:
                                c = cc
                    v = versions.get((p, c), -2)
                    me = s.me()
                    s.log(ev='deliver', c=self.name, p=p, pm=p.split(':')[0], v=v,
                          by='snap' if me is not None and me.name.startswith('r_') else 'bcast')

        conns = {c: VConn(c, w) for c in ('c1', 'c2', 'c3')}
        for c in conns.values():
            disp.add_connection(c)
        # initial state = version 0 of everything; both connections activate before the workers start
        for p in w.params:
            mod = w.mods[p.split(':')[0]]
            pobj = mod.parameters[p.split(':')[1].lstrip('_')]
            versions[p, content(pobj)] = 0
            s.log(ev='seed', p=p, v=0)

        def driver_read(pname):
            kind, val = script.get((s.me().name, pname), ('ok', 0.0))
            if kind == 'raise':
                raise HardwareError(val)
            return val

        ready = ds.DEvent()

        def activator():
            for cname, conn in conns.items():
                if cname == 'c3':
                    continue        # c3 is reserved for requests racing with the updates
                s.log(ev='req', c=cname, kind='activate', scope='.', sm='.')
                rep = disp.handle_request(conn, ('activate', None, None))
                conn.send_reply(rep)
                s.log(ev='reply', c=cname, kind='activate', scope='.', sm='.', params=scope_params(None), ok=True, valid=True)
            s.setup_phase = False
            ready.set()

        def worker(ops):
            ready.wait()
            for op, pname, arg in ops:
                try:
                    if op == 'assign':
                        setattr(m, pname, arg)
                    elif op == 'announce_err':
                        m.announceUpdate(pname, None, RangeError(arg))
                    elif op == 'announce':
                        m.announceUpdate(pname, arg)
                    elif op == 'write':
                        getattr(m, 'write_' + pname)(arg)
                    elif op == 'read_err':
                        m.announceUpdate(pname, None, HardwareError(arg))
                    elif op == 'tick':
                        s.sleep(arg)
                except ds.SchedAbort:
                    raise
                except Exception:
                    pass

        def requester(cname, script):
            ready.wait()
            conn = conns[cname]
            for kind, scope in script:
                s.log(ev='req', c=cname, kind=kind, scope=scope or '.', sm=(scope or '.').split(':')[0])
                msg = {'activate': ('activate', scope, None), 'deactivate': ('deactivate', scope, None),
                       'ident': ('*IDN?', None, None)}[kind]
                try:
                    rep = disp.handle_request(conn, msg)
                except ds.SchedAbort:
                    raise
                except Exception as e:
                    rep = ('error_' + msg[0], scope, [type(e).__name__, str(e), {}])
                conn.send_reply(rep)
                s.log(ev='reply', c=cname, kind=kind, scope=scope or '.', sm=(scope or '.').split(':')[0],
                      params=scope_params(scope) if kind != 'ident' else [], ok=not rep[0].startswith('error_'), valid=True)

        s.setup_phase = True
        s.spawn('r_act', activator)
        for k, ops in enumerate(sc['workers']):
            s.spawn(f'u{k + 1}', worker, ops)
        for cname, script in sorted(sc.get('requests', {}).items()):
            s.spawn('r_' + cname, requester, cname, script)
        s.run()
    ev = s.events
    ev.append({'ev': 'quiet', 'params': [{'p': p, 'pm': p.split(':')[0]} for p in w.params],
               'seq': len(ev), 'th': 'ctl', 'vt': s.now})
    return {'events': ev, 'deadlock': s.deadlock, 'livelock': s.livelock,
            'choices': [c for _, c in s.choices], 'raw_choices': list(s.choices),
            'thread_exc': {n: repr(t.exc) for n, t in s.threads.items() if t.exc is not None}}
