"""the real poll thread body (Module._Module__pollThread) under the deterministic scheduler in
virtual time, with scripted durations / failures of the read and poll functions (C13)."""
from . import detsched as ds
from .env import LoggerStub, boot

T0 = 1000000.0
TICK = 0.125          # 1 tick = 1/8 s: all model times are exact binary floats
EPS = 2.0 ** -16      # cost of reading the clock (a loop that only re-reads the clock must advance)


def tk(s):
    """virtual time -> ticks, rounded down (an event at tick d+eps belongs to tick d)"""
    return int((s.now - T0) / TICK + 1e-9)


def run_scenario(sc, strategy=None, race=False):
    """sc: dict(modules=[dict(interval=ticks, slow=ticks, dopoll=[(dur, outcome)...],
                              reads={'a': [(dur, outcome)...], 'b': [...]}, nopoll=['c'], writes={'w': value})],
               env=[(at_tick, action, module_index, arg)], horizon=ticks, startup_fail=bool)
       outcomes: ok | secop | silent | other | comm"""
    boot()
    import frappy.modulebase as mb
    from frappy.datatypes import FloatRange
    from frappy.errors import CommunicationFailedError, HardwareError, SilentCommunicationFailedError as SilentError
    from frappy.modules import Module, Readable
    from frappy.params import Parameter
    from frappy.rwhandler import nopoll

    s = ds.Scheduler(strategy or ds.GuidedStrategy([]), max_steps=400000, eps=EPS, wait_eps=EPS, yield_on_time=race)
    log = []
    counters = {}
    done = {}

    def act(mi, fn, script):
        k = counters.get((mi, fn), 0)
        counters[(mi, fn)] = k + 1
        dur, outcome = script[k % len(script)] if script else (0, 'ok')
        me = s.me()
        who = me.name if me is not None else 'ctl'
        log.append({'ev': 'call', 't': tk(s), 'm': mi, 'fn': fn, 'out': outcome, 'dur': dur, 'th': who})
        if dur:
            s.sleep(dur * TICK)
        done[(mi, fn)] = done.get((mi, fn), 0) + 1     # lets the environment act right after the k-th call ended
        if outcome == 'secop':
            raise HardwareError('scripted')
        if outcome == 'silent':
            raise SilentError('scripted')
        if outcome == 'other':
            raise ValueError('scripted')
        if outcome == 'comm':
            raise CommunicationFailedError('scripted')
        return float(k)

    class Srv:
        class dispatcher:
            @staticmethod
            def announce_update(m, p):
                pass
        secnode = None

    mods = []
    started = []

    def make(mi, spec):
        base = Readable if spec.get('readable', mi == 0) else Module
        body = {}
        if base is Module:
            body['value'] = Parameter('v', FloatRange(), default=0)

        def doPoll(self, mi=mi, spec=spec):
            act(mi, 'doPoll', spec.get('dopoll'))
        body['doPoll'] = doPoll
        for pname, script in spec.get('reads', {}).items():
            body[pname] = Parameter(pname, FloatRange(), default=0)
            body['read_' + pname] = (lambda self, mi=mi, pname=pname, script=script: act(mi, 'read_' + pname, script))
        for pname in spec.get('nopoll', ()):
            body[pname] = Parameter(pname, FloatRange(), default=0)
            body['read_' + pname] = nopoll(lambda self, mi=mi, pname=pname: act(mi, 'read_' + pname, [(0, 'ok')]))
        # a poll interval kept in the hardware: read_pollinterval is polled like any other parameter and may fail -
        # a failed read leaves the interval in use as it was
        if spec.get('pi_read'):
            def read_pollinterval(self, mi=mi, script=spec['pi_read']):
                act(mi, 'read_pollinterval', script)
                return self.pollinterval
            body['read_pollinterval'] = read_pollinterval
        # constants (given in the class or in the configuration) that have a read function all the same: a constant
        # is never read from the hardware, whatever its value (0 and other falsy constants included)
        for pname, (cv, where) in spec.get('consts', {}).items():
            body[pname] = Parameter(pname, FloatRange(), default=1, **({'constant': cv} if where == 'class' else {}))
            body['read_' + pname] = (lambda self, mi=mi, pname=pname: act(mi, 'read_' + pname, [(0, 'ok')]))
        # read handlers (frappy/rwhandler.py): ReadHandler polls every key, CommonReadHandler only its first key
        from frappy.rwhandler import CommonReadHandler, ReadHandler
        rh = spec.get('rh')
        if rh:
            for pname in rh['keys']:
                body[pname] = Parameter(pname, FloatRange(), default=0)

            def rhfunc(self, pname, mi=mi, script=rh.get('script')):
                return act(mi, 'read_' + pname, script)
            rhfunc.__qualname__ = f'PM{mi}.rhfunc'
            body['rhfunc'] = ReadHandler(rh['keys'])(rhfunc)
        crh = spec.get('crh')
        if crh:
            for pname in crh['keys']:
                body[pname] = Parameter(pname, FloatRange(), default=0)

            def crhfunc(self, mi=mi, keys=tuple(crh['keys']), script=crh.get('script')):
                v = act(mi, 'read_' + keys[0], script)
                for k in keys:
                    setattr(self, k, v)
            crhfunc.__qualname__ = f'PM{mi}.crhfunc'
            body['crhfunc'] = CommonReadHandler(crh['keys'])(crhfunc)
        for pname, wv in spec.get('writes', {}).items():
            # a configured value, or (value, outcome): the write of the configured value fails in that way
            wout = wv[1] if isinstance(wv, (tuple, list)) else 'ok'
            body[pname] = Parameter(pname, FloatRange(), default=0, readonly=False)
            body['write_' + pname] = (lambda self, value, mi=mi, pname=pname, wout=wout:
                                      (act(mi, 'write_' + pname, [(0, wout)]), value)[1])
        if base is Readable:
            body['read_value'] = nopoll(lambda self: 0.0)
            body['read_status'] = nopoll(lambda self: (100, ''))
        cls = type(f'PM{mi}', (base,), body)
        cfg = {'description': ''}
        if base is Readable:
            cfg['pollinterval'] = {'value': max(0.1, spec['interval'] * TICK)}
        else:
            cfg['pollinterval'] = max(0.1, spec['interval'] * TICK)
        cfg['slowinterval'] = max(0.1, spec['slow'] * TICK)
        for pname, v in spec.get('writes', {}).items():
            cfg[pname] = {'value': v[0] if isinstance(v, (tuple, list)) else v}
        for pname, (cv, where) in spec.get('consts', {}).items():
            if where == 'cfg':
                cfg[pname] = {'constant': cv}
        return cls(f'm{mi}', LoggerStub(f'm{mi}'), cfg, Srv())

    class Starter:
        def get_trigger(self, timeout=None):
            def trigger():
                log.append({'ev': 'started', 't': tk(s)})
                started.append(tk(s))
            return trigger

    with ds.Patch(mb):
        for mi, spec in enumerate(sc['modules']):
            mods.append(make(mi, spec))
        if sc.get('bus'):
            # the thread belongs to a communicator-like module that is not polled itself (enablePoll = False)
            bus_cls = type('Bus', (Module,), {'enablePoll': False})
            main = bus_cls('bus', LoggerStub('bus'), {'description': ''}, Srv())
            for m in mods:
                m.io = main
            mods_all = [main] + mods
        else:
            main = mods[0]
            for m in mods[1:]:
                m.io = main           # modules share the poll thread of their io module
            mods_all = mods
        for m in mods_all:
            m.earlyInit()
        for m in mods_all:
            m.initModule()

        def boot_thread():
            main.startModule(Starter())

        def env():
            entries = [(tuple(e[0]) if isinstance(e[0], list) else e[0], e[1], e[2], e[3]) for e in sc.get('env', [])]
            for at, action, mi, arg in sorted(entries, key=lambda e: (isinstance(e[0], tuple), e[0] if not isinstance(e[0], tuple) else e[0][1])):
                if isinstance(at, tuple):       # ('after', k): right after the k-th doPoll of module mi returned
                    k = at[1]
                    s.block(lambda: done.get((mi, 'doPoll'), 0) >= k, None, 'env.after')
                else:
                    delay = at * TICK - (s.now - T0)
                    if delay > 0:
                        s.sleep(delay)
                m = mods[mi]
                if action == 'racepair':
                    # two run-time changes issued by two threads at the same instant, interleaved at every line of
                    # frappy/modulebase.py (only these two threads are traced line by line)
                    s.trace_files = ('frappy/modulebase.py',)
                    racers = [s.spawn('race%d' % k, perform, m, mi, a, g) for k, (a, g) in enumerate(arg)]
                    s.block(lambda: all(r.finished for r in racers), None, 'env.racers')
                    s.trace_files = ()
                    continue
                perform(m, mi, action, arg)

        def perform(m, mi, action, arg):
                log.append({'ev': 'env', 't': tk(s), 'action': action, 'm': mi, 'arg': arg})
                if action == 'fast':
                    m.setFastPoll(bool(arg[0]), arg[1] * TICK)
                elif action == 'interval':
                    m.pollinterval = arg * TICK      # Readable: parameter with callback -> update_interval
                elif action == 'pierr':
                    # the driver reports a failed read of the pollinterval parameter itself (a poll interval kept in the
                    # hardware): an error state of that parameter - the interval in use stays, nothing else happens
                    from frappy.errors import HardwareError as HE
                    m.announceUpdate('pollinterval', None, HE('scripted') if arg else ValueError('scripted'))
                elif action == 'trigger':
                    if m.pollInfo:
                        m.pollInfo.trigger(bool(arg))

        s.spawn('boot', boot_thread)
        if sc.get('env'):
            s.spawn('env', env)
        horizon = T0 + sc['horizon'] * TICK
        s.stop_when = lambda: s.now > horizon
        snap = {}
        orig_teardown = s.teardown

        def teardown():
            snap['alive'] = [n for n, t in s.threads.items() if not t.finished and 'pollThread' in n]
            snap['exc'] = {n: repr(t.exc) for n, t in s.threads.items() if t.exc is not None}
            orig_teardown()
        s.teardown = teardown
        s.run()
    log.append({'ev': 'end', 't': sc['horizon'], 'alive': bool(snap.get('alive')), 'exc': sorted(snap.get('exc', {}).values())})
    return {'log': log, 'livelock': s.livelock, 'deadlock': s.deadlock, 'steps': s.steps,
            'choices': [c for _, c in s.choices], 'raw_choices': list(s.choices)}
