"""Shared gamma / alpha glue for C04 and C06 (spec/Dispatch.tla, spec/Describe.tla).

gamma: abstract shape (TLC record) -> real frappy Module subclasses with a recording driver,
       a real Dispatcher over a stub secnode, requests wrapped like RequestHandler.handle.
alpha: replies / driver log / parameter cache / updates -> the tagged abstract values of the spec.
Nothing here decides what is correct.
"""
import json

from .core import MachineryError, run_tlc
from .env import Conn, LoggerStub, boot

NULL = {'k': 'null'}
STRINGS = {'ab': 'ab', 'xyz': 'xyz', 'toolong': 'toolong', 'nonascii': 'né',
           # base64 texts of n bytes (Dispatch.tla SB(n))
           'b64_0': '', 'b64_1': 'AQ==', 'b64_2': 'AQI=', 'b64_3': 'AQID', 'b64_4': 'AQIDBA=='}
SCALE = 0.5             # gamma of datainfo "scaled": ScaledInteger(SCALE, ..); abstract values are the transported integers
RSTRINGS = {v: k for k, v in STRINGS.items()}
EPS = 1 + 5e-8          # inside FloatRange's default relative tolerance of 1.2e-7


# ------------------------------------------------------------------ gamma: values

def conc(p):
    """abstract payload / value -> JSON-able python value"""
    k = p['k']
    if k == 'num':
        return p['n']
    if k == 'big':
        return BIG[p['n']]
    if k == 'eps':
        return p['n'] * EPS
    if k == 'frac':
        return p['n'] + 0.5
    if k == 'str':
        s = p['s']
        return bytes.fromhex(s[2:]).decode() if s.startswith('u:') else STRINGS.get(s, s)
    if k == 'bool':
        return p['b']
    if k == 'special':      # what json.loads makes of the tokens NaN / Infinity / -Infinity / 1e999
        return json.loads(SPECIAL_TOKENS[p['s']])
    if k in ('null', 'jnull'):
        return None
    if k == 'fzero':
        return 0.0
    if k == 'list':
        return [conc(x) for x in p['xs']]
    if k == 'obj':
        return {e['key']: conc(e['val']) for e in p['kv']}
    raise MachineryError(f'unknown abstract value {p!r}')


# Dispatch.tla Big(i): integers around 2^53 / 2^55, where a detour through a float loses the last bits
BIG = [0, 1, 5, 2 ** 53 - 1, 2 ** 53, 2 ** 53 + 1, 2 ** 53 + 3, 2 ** 55 - 1, 2 ** 55, 2 ** 55 + 1, 2 ** 55 + 3, 2 ** 56, 2 ** 56 + 1]
SPECIAL_TOKENS = {'nan': 'NaN', 'pinf': 'Infinity', 'ninf': '-Infinity', 'huge': '1e999'}


def wire_text(p):
    """abstract payload -> the JSON text a client would put on the wire (non-finite numbers as the tokens
    Python's json module - which frappy's decode_msg uses - accepts)"""
    k = p['k']
    if k == 'special':
        return SPECIAL_TOKENS[p['s']]
    if k == 'fzero':
        return '0.0'
    if k == 'list':
        return '[' + ', '.join(wire_text(x) for x in p['xs']) + ']'
    if k == 'obj':
        return '{' + ', '.join(json.dumps(e['key']) + ': ' + wire_text(e['val']) for e in p['kv']) + '}'
    return json.dumps(conc(p))


def abs_special(x):
    """nan / +-inf -> the abstract non-finite number, None for anything else"""
    if isinstance(x, float):
        if x != x:
            return {'k': 'special', 's': 'nan'}
        if x in (float('inf'), float('-inf')):
            return {'k': 'special', 's': 'pinf' if x > 0 else 'ninf'}
    return None


def internal(dt, p):
    """abstract value -> the value a driver / a class definition holds for datainfo dt"""
    t = dt['t']
    if p['k'] == 'null':
        return None
    if t == 'scaled':
        return conc(p) * SCALE
    if t == 'blob':
        import base64
        return base64.b64decode(conc(p))
    if t == 'array':
        return [internal(dt['el'], x) for x in p['xs']]
    if t == 'tuple':
        return [internal(e, x) for e, x in zip(dt['els'], p['xs'])]
    if t == 'limits':
        return [internal(dt['el'], x) for x in p['xs']]
    if t == 'struct':
        mem = {m['name']: m['dt'] for m in dt['mem']}
        return {e['key']: internal(mem[e['key']], e['val']) for e in p['kv']}
    return conc(p)


def build_dt(dt):
    """abstract datainfo -> frappy datatype"""
    from frappy import datatypes as D
    t = dt['t']
    if t == 'double':
        return D.FloatRange(dt['lo'], dt['hi'])
    if t == 'int':
        return D.IntRange(BIG[dt['lo']], BIG[dt['hi']]) if dt.get('big') else D.IntRange(dt['lo'], dt['hi'])
    if t == 'enum':
        return D.EnumType('e', **{m['name']: m['val'] for m in dt['mem']})
    if t == 'string':
        return D.StringType(dt['minc'], dt['maxc'], isUTF8=dt['utf8'])
    if t == 'bool':
        return D.BoolType()
    if t == 'scaled':
        return D.ScaledInteger(SCALE * (2 if dt.get('scale2') else 1), dt['lo'] * SCALE, dt['hi'] * SCALE)
    if t == 'blob':
        return D.BLOBType(dt['minb'], dt['maxb'])
    if t == 'limits':
        return D.LimitsType(build_dt(dt['el']))
    if t == 'array':
        return D.ArrayOf(build_dt(dt['el']), dt['minlen'], dt['maxlen'])
    if t == 'tuple':
        return D.TupleOf(*[build_dt(e) for e in dt['els']])
    if t == 'struct':
        return D.StructOf(optional=list(dt['opt']), **{m['name']: build_dt(m['dt']) for m in dt['mem']})
    raise MachineryError(f'unknown abstract datainfo {dt!r}')


# ------------------------------------------------------------------ alpha: values

def odd(x):
    return {'k': 'odd', 'r': repr(x)[:80]}


def abs_number(x):
    if isinstance(x, bool):
        return odd(x)
    if isinstance(x, int):
        return {'k': 'num', 'n': x} if abs(x) < 2 ** 30 else odd(x)
    if isinstance(x, float):
        if x != x or abs(x) >= 2 ** 30:
            return odd(x)
        n = int(round(x))
        if x == n:
            return {'k': 'num', 'n': n}
        if x == n * EPS:
            return {'k': 'eps', 'n': n}
        if x == int(x // 1) + 0.5:
            return {'k': 'frac', 'n': int(x // 1)}
    return odd(x)


def abs_str(s):
    sid = RSTRINGS.get(s) or (s if s.isascii() and not s.startswith('u:') and '\\' not in s and '"' not in s
                              else 'u:' + s.encode().hex())
    try:
        import base64
        b64 = len(base64.b64decode(s, validate=True))
    except Exception:
        b64 = -1
    return {'k': 'str', 's': sid, 'len': len(s), 'ascii': s.isascii(), 'b64': b64}


def abs_value(dt, v, wire=False):
    """internal value (wire=False) or transported JSON value (wire=True) of datainfo dt -> abstract value.
    Python types are part of the observation: an int parameter holding 3.0 is 'odd'."""
    t = dt['t']
    try:
        if v is None:
            return NULL
        if t == 'double':
            return abs_number(v) if isinstance(v, float) or (wire and isinstance(v, int)) else odd(v)
        if t == 'int':
            if dt.get('big'):
                return {'k': 'big', 'n': BIG.index(v)} if isinstance(v, int) and not isinstance(v, bool) and v in BIG else odd(v)
            return abs_number(v) if isinstance(v, int) else odd(v)
        if t == 'enum':
            if wire:
                return abs_number(v) if isinstance(v, int) else odd(v)
            return {'k': 'num', 'n': int(v.value)} if hasattr(v, 'value') and hasattr(v, 'name') else odd(v)
        if t == 'string':
            return abs_str(v) if isinstance(v, str) else odd(v)
        if t == 'bool':
            return {'k': 'bool', 'b': v} if isinstance(v, bool) else odd(v)
        if t == 'scaled':
            if wire:
                return abs_number(v) if isinstance(v, int) else odd(v)
            k = v / SCALE
            return abs_number(int(k)) if isinstance(v, float) and k == int(k) else odd(v)
        if t == 'blob':
            if wire:
                return abs_str(v) if isinstance(v, str) else odd(v)
            import base64
            return abs_str(base64.b64encode(v).decode()) if isinstance(v, bytes) else odd(v)
        if t == 'limits':
            if not isinstance(v, list if wire else tuple) or len(v) != 2:
                return odd(v)
            return {'k': 'list', 'xs': [abs_value(dt['el'], x, wire) for x in v]}
        if t == 'array':
            if not isinstance(v, list if wire else tuple):
                return odd(v)
            return {'k': 'list', 'xs': [abs_value(dt['el'], x, wire) for x in v]}
        if t == 'tuple':
            if not isinstance(v, list if wire else tuple) or len(v) != len(dt['els']):
                return odd(v)
            return {'k': 'list', 'xs': [abs_value(e, x, wire) for e, x in zip(dt['els'], v)]}
        if t == 'struct':
            if not isinstance(v, dict):
                return odd(v)
            names = [m['name'] for m in dt['mem']]
            if set(v) - set(names):
                return odd(v)
            return {'k': 'obj', 'kv': [{'key': m['name'], 'val': abs_value(m['dt'], v[m['name']], wire)}
                                       for m in dt['mem'] if m['name'] in v]}
    except Exception as e:  # a value alpha cannot read is an observation, not a crash
        return odd((v, e))
    return odd(v)


# ------------------------------------------------------------------ gamma: module classes

def _mk_write(attr, acc):
    drv, ret = acc['drv'], acc['ret']

    def write(self, value):
        self.vlog.append(('write', attr, value))
        if drv == 'same':
            return value
        if drv == 'fixed':
            return internal(acc['dt'], ret)
        if drv == 'raise':
            from frappy.errors import HardwareError
            raise HardwareError('scripted hardware failure')
        return None
    write.__name__ = 'write_' + attr
    return write


def _mk_read(attr, acc):
    def read(self):
        self.vlog.append(('read', attr, None))
        return internal(acc['dt'], acc['rret'])
    read.__name__ = 'read_' + attr
    return read


def _mk_check(attr, acc, hook, own_limits=False):
    """own_limits: the hook sits in the class that defines the limit parameters; frappy installs no automatic
    limit check there, the hook calls checkLimits itself (as documented at Module.checkLimits)"""
    dt = acc['dt']
    raises = [json.dumps(v, sort_keys=True) for v in hook['raise']]
    stops = [json.dumps(v, sort_keys=True) for v in hook['stop']]

    def check(self, value):
        from frappy.errors import RangeError
        self.vlog.append(('hook', attr, value))
        key = json.dumps(abs_value(dt, value), sort_keys=True)
        if key in raises:
            raise RangeError('scripted refusal')
        if key in stops:
            return True
        if own_limits:
            self.checkLimits(value, attr)
        return False
    check.__name__ = 'check_' + attr
    return check


def _mk_cmd(attr, acc):
    """-> (Command accessible for the base class, plain function overriding it in the derived class or None)"""
    from frappy.modules import Command
    ret = conc(acc['ret'])
    arg = acc['arg']
    override = bool(acc.get('override'))       # a method of the same name, without decorator, in the derived class

    def make(tag):
        if arg['t'] == 'none':
            def func(self):
                self.vlog.append(('cmd', tag, None))
                return ret
        elif arg['t'] == 'struct':
            names = [m['name'] for m in arg['mem']]
            sig = ', '.join(n + ('=None' if n in arg['opt'] else '') for n in names)
            ns = {}
            exec(f'def func(self, *, {sig}):\n'  # Command() compares the signature with the struct members
                 f'    self.vlog.append(("cmd", {tag!r}, {{k: v for k, v in dict({", ".join(n + "=" + n for n in names)}).items()'
                 f' if v is not None}}))\n    return RET', {'RET': ret}, ns)
            func = ns['func']
        elif arg['t'] == 'tuple':
            def func(self, *args):
                self.vlog.append(('cmd', tag, tuple(args)))
                return ret
        else:
            def func(self, value):
                self.vlog.append(('cmd', tag, value))
                return ret
        func.__name__ = attr
        func.__doc__ = 'c'
        return func

    export = _export(attr, acc)
    base_func = make(attr + '@base' if override else attr)
    over = make(attr) if override else None
    if over:
        over.__doc__ = None          # (a docstring of the overriding method would replace the description)
    if arg['t'] == 'none' and acc['ret'] == NULL and export is True and not override and not acc.get('props'):
        return Command(base_func), None                # the bare decorator: @Command
    pr = acc.get('props') or {}
    kw = {'description': pr.get('description', 'c'), 'export': export}
    kw.update({k: pr[k] for k in ('group', 'visibility') if k in pr})
    if acc['ret'] != NULL:
        from frappy.datatypes import IntRange
        kw['result'] = IntRange()
    if arg['t'] == 'none':
        return Command(**kw)(base_func), over
    if arg['t'] == 'tuple' and len(arg['els']) == 2:    # "goodie": a tuple / list of datatypes is a TupleOf
        return Command(tuple(build_dt(e) for e in arg['els']), **kw)(base_func), over
    return Command(build_dt(arg), **kw)(base_func), over


def class_level(acc):
    """the accessible as the class defines it: acc['cls'] holds what differs from the final accessible
    (wire, ro, lo / hi of a numeric datainfo); acc['via'] says who changes it ('cfg' | 'subclass')"""
    c = acc.get('cls')
    if not c:
        return acc
    res = dict(acc)
    for k in ('wire', 'ro'):
        if k in c:
            res[k] = c[k]
    dtkeys = [k for k in ('lo', 'hi', 'maxc', 'maxlen', 'maxb', 'scale2') if k in c]
    if dtkeys:       # (scale2: the class has twice the scale of the final datatype)
        res['dt'] = dict(acc['dt'], **{k: c[k] for k in dtkeys})
    return res


def _final_props(attr, acc):
    """property settings (for the configuration or for a re-declaration) that turn the class-level accessible
    into the final one"""
    c = acc.get('cls') or {}
    res = {}
    if 'wire' in c:
        res['export'] = _export(attr, dict(acc, cls=None))
    if 'ro' in c:
        res['readonly'] = acc['ro']
    scale = SCALE if acc['dt']['t'] == 'scaled' else 1
    if 'lo' in c:
        res['min'] = acc['dt']['lo'] * scale
    if 'hi' in c:
        res['max'] = acc['dt']['hi'] * scale
    for k, prop in (('maxc', 'maxchars'), ('maxlen', 'maxlen'), ('maxb', 'maxbytes')):
        if k in c:
            res[prop] = acc['dt'][k]
    if 'scale2' in c:
        res['scale'] = SCALE
    return res


def module_cfg(accs):
    """the configuration entries of a module instance for this shape"""
    cfg = {}
    for attr, acc in accs.items():
        if acc['kind'] != 'param':
            continue
        entry = {}
        if acc.get('constvia') == 'cfg':
            entry['constant'] = internal(acc['dt'], acc['const'])      # <attr> = Param(constant=..)
        elif acc.get('cls') and acc.get('via', 'cfg') == 'cfg':
            entry.update(_final_props(attr, acc))
        if acc.get('initvia') == 'cfgvalue':
            entry['value'] = internal(acc['dt'], acc['init'])
        elif acc.get('initvia') == 'cfgdefault':
            entry['default'] = internal(acc['dt'], acc['init'])
        if entry:
            cfg[attr] = entry
    return cfg


def _export(attr, acc):
    w = (acc.get('cls') or {}).get('wire', acc['wire'])      # the class-level name
    if w == '':
        return False
    boot()
    from frappy.params import PREDEFINED_ACCESSIBLES
    if w == attr and attr in PREDEFINED_ACCESSIBLES or w == '_' + attr:
        return True
    if acc.get('islimit') and w == attr:
        return True
    return w            # custom name, used verbatim


_classes = {}
_count = [0]


def _feature(name):
    """a Feature mixin: the real frappy.features.HasOffset, or a fresh generated class VFeatA / VFeatB
    (Feature as a direct base, one parameter: fa / fb as in Describe.tla's FeatAccs)"""
    import frappy.modules as M
    from frappy.datatypes import IntRange, StringType
    from frappy.modulebase import Feature
    if name == 'HasOffset':
        from frappy.features import HasOffset
        return HasOffset
    body = {'VFeatA': {'fa': M.Parameter('p', IntRange(0, 8), readonly=False, default=3)},
            'VFeatB': {'fb': M.Parameter('p', StringType(0, 3), readonly=False, default='ab')}}[name]
    return type(name, (Feature,), body)


FEATURE_ACCS = {       # the accessibles a feature brings along, in the vocabulary of the shapes (= Describe.tla FeatAccs)
    'VFeatA': ('fa', {'t': 'int', 'lo': 0, 'hi': 8}, {'k': 'num', 'n': 3}),
    'VFeatB': ('fb', {'t': 'string', 'minc': 0, 'maxc': 3, 'utf8': False}, {'k': 'str', 's': 'ab', 'len': 2, 'ascii': True, 'b64': -1}),
    'HasOffset': ('offset', {'t': 'double', 'lo': -10 ** 6, 'hi': 10 ** 6}, {'k': 'num', 'n': 0}),
}


def with_features(accs, feats):
    for f in feats:
        attr, dt, init = FEATURE_ACCS[f['name']]
        accs[attr] = {'kind': 'param', 'wire': '_' + attr, 'dt': dt, 'ro': False, 'const': NULL, 'init': init,
                      'lim': {'kind': 'none'}, 'hooks': [], 'drv': 'absent', 'ret': NULL, 'islimit': False,
                      'level': 'X', 'feature': f['name']}
        if f['name'] == 'HasOffset':
            accs[attr]['unit'] = '$'      # FloatRange(unit='$') in frappy/features.py
    return accs


def features_of(feats):
    """names a node built with this plan has to describe: MRO order = direct, then one, then two classes up"""
    return [f['name'] for how in ('direct', 'mid', 'base') for f in feats if f['how'] == how]


def build_class(accs, base='Module', feats=()):
    """accs: {attr: accessible record} -> Module subclass  VMod(VLim, VMid(VBase(<base>))); hooks and limit
    parameters are placed in the class their 'at' / 'level' names"""
    key = json.dumps([accs, base, list(feats)], sort_keys=True)
    if key in _classes:
        return _classes[key]
    boot()
    import frappy.modules as M
    from frappy.params import Limit
    bases = {'Module': M.Module, 'Readable': M.Readable, 'Writable': M.Writable, 'Drivable': M.Drivable}
    body = {'B': {}, 'M': {}, 'X': {}, 'D': {}}     # MRO: D(erived), X (plain mixin), M(iddle), B(ase)
    for attr, acc in accs.items():
        if acc['kind'] == 'cmd':
            body['B'][attr], over = _mk_cmd(attr, acc)
            if over:
                body['D'][attr] = over
            continue
        if acc.get('islimit') or acc.get('feature'):
            continue                    # limit parameters below; feature parameters come with their mixin
        cl = class_level(acc)
        dt = acc['dt']
        kw = {'readonly': cl['ro'], 'export': _export(attr, acc)}
        via = acc.get('initvia', 'none' if acc['const'] != NULL else 'default')
        if acc['const'] != NULL and acc.get('constvia', 'class') == 'class':
            kw['constant'] = internal(dt, acc['const'])      # (else: pinned in the configuration)
        if via == 'none':
            pass                                              # a constant without default
        elif via == 'value':
            kw['value'] = internal(dt, acc['init'])           # Parameter(.., value=..)
        elif via == 'default':
            kw['default'] = internal(dt, acc['init'])
        else:                                                 # the start value comes from elsewhere
            kw['default'] = internal(dt, acc['ret'])
            if via == 'bare':
                body['D'][attr] = internal(dt, acc['init'])   # a bare value assigned in the derived class
        if acc.get('unit'):
            kw['unit'] = acc['unit']          # '$' stands for the unit of the module's value
        pr = acc.get('props') or {}
        kw.update({k: pr[k] for k in ('group', 'visibility') if k in pr})
        dtobj = build_dt(cl['dt'])
        if cl['dt']['t'] == 'bool':
            dtobj = type(dtobj)               # "goodie": the datatype class instead of an instance
        body['B'][attr] = M.Parameter(pr.get('description', 'p'), dtobj, **kw)
        if acc.get('cls') and acc.get('via') == 'subclass':
            fp = _final_props(attr, acc)
            if acc.get('redecl') == 'datatype' and ('min' in fp or 'max' in fp):
                fp.pop('min', None)           # re-declared with a new datatype instead of min= / max=
                fp.pop('max', None)
                fp['datatype'] = build_dt(acc['dt'])
                if acc.get('unit'):
                    fp['unit'] = acc['unit']      # (a new datatype starts without unit)
            body['D'][attr] = M.Parameter(**fp)                          # re-declared in the derived class
        if acc['drv'] != 'absent':
            body['B']['write_' + attr] = _mk_write(attr, acc)
        if acc.get('rd', 'absent') != 'absent':
            body['B']['read_' + attr] = _mk_read(attr, acc)
        for h in acc['hooks']:
            if h['at'] != 'LIMIT':
                body[h['at']]['check_' + attr] = _mk_check(attr, acc, h, own_limits=(
                    acc['lim']['kind'] != 'none' and h['at'] == acc.get('level', 'X')))
    # accessibles that must NOT exist: optional ones nobody implements, and one a derived class removes
    from frappy.datatypes import IntRange
    if not set(accs) & {'popt', 'copt', 'prem'}:
        body['B']['popt'] = M.Parameter('o', IntRange(0, 8), optional=True)
        body['B']['copt'] = M.Command(optional=True, description='o')
        body['B']['prem'] = M.Parameter('r', IntRange(0, 8), default=1, readonly=False)
        body['D']['prem'] = None
    for attr, acc in accs.items():                  # limit parameters after the parameters they limit
        if acc['kind'] == 'param' and acc.get('islimit'):
            ex = _export(attr, acc)     # Limit(export=True) is not Limit(): frappy re-derives the name
            body[acc.get('level', 'X')][attr] = Limit() if ex is True else Limit(export=ex)
    _count[0] += 1
    n = _count[0]
    mix = {how: tuple(_feature(f['name']) for f in feats if f['how'] == how) for how in ('direct', 'mid', 'base')}
    top = type(f'VBase{n}', mix['base'] + (bases[base],), body['B'])
    if body['M'] or mix['mid'] or mix['base']:      # 'base' features are inherited through two classes
        top = type(f'VMid{n}', mix['mid'] + (top,), body['M'])
    seq = (type(f'VLim{n}', (), body['X']), top) if body['X'] else (top,)
    cls = type(f'VMod{n}', mix['direct'] + seq, body['D'])
    _classes[key] = cls
    return cls


# ------------------------------------------------------------------ node

def make_secnode(log, srv):
    """the REAL frappy.secnode.SecNode (whatever attributes and caches it has on the tree under test), filled by the
    harness with ready-made module objects; only the lazy creation from a configuration is switched off"""
    from frappy.secnode import SecNode

    class VSecNode(SecNode):
        def get_module(self, modname):
            if modname not in self.modules:
                return None                     # (no configuration to create it from)
            return super().get_module(modname)

    sn = VSecNode('node', log, {'equipment_id': 'verif_node'}, srv)
    # node properties: only the description and those with a leading underscore belong into the report
    for k, v in (('description', 'generated node'), ('_custom', 'c1'), ('internal', 'x')):
        sn.add_secnode_property(k, v)
    return sn


class ServerStub:
    restart = shutdown = None
    module_cfg = {}

    def __init__(self):
        boot()
        from frappy.protocol.dispatcher import Dispatcher
        self.log = LoggerStub('srv')
        self.secnode = make_secnode(self.log.getChild('secnode'), self)
        self.dispatcher = Dispatcher('disp', self.log.getChild('dispatcher'), {}, self)


def handle(dispatcher, conn, msg):
    """Dispatcher.handle_request wrapped exactly like RequestHandler.handle maps exceptions
    (frappy/protocol/interface/handler.py:137-170)"""
    from frappy.errors import SECoPError
    try:
        return dispatcher.handle_request(conn, msg)
    except SECoPError as err:
        return ('error_' + msg[0], msg[1], [err.name, str(err), {}])
    except Exception as err:  # pylint: disable=broad-except
        return ('error_' + msg[0], msg[1], ['InternalError', repr(err), {}])


def refusable(shape):
    """the configuration asks for something frappy may refuse as a whole: readonly=False for a parameter whose
    class has no write function (today it is accepted and a change ends in InternalError)"""
    return any(x['kind'] == 'param' and x.get('via') == 'cfg' and (x.get('cls') or {}).get('ro') is True
               and not x['ro'] and x['drv'] == 'absent' for accs in shape.values() for x in accs.values())


def wire_of(req):
    """Dispatch.tla WireOf: a bare module specifier addresses target (change) / value (read)"""
    return req['name'] or ('target' if req['act'] == 'change' else 'value' if req['act'] == 'read' else '')


class World:
    """real modules for the exported modules of `shape` plus an unexported module 'h'
    of the same class, a real dispatcher, one activated connection"""

    def __init__(self, shape, bases=None, feats=None, modprops=None):
        self.shape = shape
        self.srv = ServerStub()
        self.mods = {}
        first = None
        for mname, accs in shape.items():
            cls = build_class(accs, (bases or {}).get(mname, 'Module'), (feats or {}).get(mname, ()))
            first = first or cls
            self.mods[mname] = self._add(cls, mname, dict(module_cfg(accs), **(modprops or {}).get(mname, {})))
        self.hidden = self._add(first, 'h', {'export': False})
        self.conn = Conn('c1', self.srv.dispatcher)
        handle(self.srv.dispatcher, self.conn, ('activate', None, None))
        del self.conn.msgs[:]

    def _add(self, cls, name, cfg):
        obj = cls(name, LoggerStub(name), dict({'description': 'd'}, **cfg), self.srv)
        obj.vlog = []
        self.srv.secnode.add_module(obj, name)
        return obj

    def acc_by_wire(self, mod, name):
        for a, acc in self.shape.get(mod, {}).items():
            if acc['wire'] == name and name:
                return a, acc
        return None, None

    def cache(self):
        res = {}
        for mname, accs in self.shape.items():
            res[mname] = {}
            for a, acc in accs.items():
                if acc['kind'] == 'param':        # (the cache of a constant holds the constant)
                    pobj = self.mods[mname].parameters[a]
                    res[mname][a] = abs_value(acc['dt'], pobj.value)
        return res

    def rerr(self):
        """which parameters are in the read-error state"""
        return {mname: {a: self.mods[mname].parameters[a].readerror is not None
                        for a, acc in accs.items() if acc['kind'] == 'param'} for mname, accs in self.shape.items()}

    def force_cache(self, cache, rerr=None):
        """test set-up: put the parameters into a given state by internal assignment"""
        from frappy.errors import RangeError
        cur, cure = self.cache(), self.rerr()
        for mname, vals in cache.items():
            for a, v in vals.items():
                want = (rerr or cure)[mname][a]
                if cur[mname][a] != v or (cure[mname][a] and not want):
                    self.mods[mname].announceUpdate(a, internal(self.shape[mname][a]['dt'], v))
                if want and not self.mods[mname].parameters[a].readerror:
                    self.mods[mname].announceUpdate(a, err=RangeError('set-up'))
        del self.conn.msgs[:]
        return self.cache() == cache and (rerr is None or self.rerr() == rerr)

    def request(self, req):
        """execute one abstract request -> observation in the spec's vocabulary"""
        for m in list(self.mods.values()) + [self.hidden]:
            del m.vlog[:]
        del self.conn.msgs[:]
        spec = f"{req['mod']}:{req['name']}" if req['name'] else req['mod']      # bare module: target / value
        # through the real decoder of the request line (json.loads: NaN, Infinity, 1e999 arrive as floats)
        from frappy.protocol.interface import decode_msg
        line = f"{req['act']} {spec}" + ('' if req['payload'] == NULL else ' ' + wire_text(req['payload']))
        msg = decode_msg(line.encode('utf-8'))
        rep = handle(self.srv.dispatcher, self.conn, msg)
        a, acc = self.acc_by_wire(req['mod'], wire_of(req))
        obs = {'value': NULL}
        if rep[0].startswith('error_'):
            obs['cls'] = rep[2][0]
            obs['text'] = str(rep[2][1])[:120]
        else:
            obs['cls'] = 'ok'
            val = rep[2][0] if isinstance(rep[2], list) and rep[2] else rep[2]
            if req['act'] == 'activate':
                obs['value'] = NULL if val is None else odd(val)
            elif acc and acc['kind'] == 'param':
                obs['value'] = abs_value(acc['dt'], val, wire=True)
            elif acc:
                obs['value'] = NULL if val is None else abs_number(val)
            else:
                obs['value'] = odd(val)
        calls, hooks = [], []
        for mname, m in list(self.mods.items()) + [('h', self.hidden)]:
            for kind, attr, arg in m.vlog:
                sacc = self.shape.get(mname, {}).get(attr)
                if sacc is None:          # invoked on the hidden module, or the overridden base version of a command
                    calls.append({'op': kind, 'fn': mname + '.' + attr, 'arg': odd(arg)})
                    continue
                dt = sacc['dt'] if sacc['kind'] == 'param' else sacc['arg']
                av = NULL if dt['t'] == 'none' or kind == 'read' else abs_value(dt, arg)
                if kind == 'hook':
                    hooks.append(av)
                else:
                    calls.append({'op': kind, 'fn': attr, 'arg': av})
        obs['calls'] = calls
        obs['hookargs'] = hooks
        upd = []
        for msg in self.conn.msgs:
            mod, _, name = msg[1].partition(':')
            ua, uacc = self.acc_by_wire(mod, name)
            if msg[0] == 'update' and uacc:
                upd.append({'mod': mod, 'name': name, 'v': abs_value(uacc['dt'], msg[2][0], wire=True)})
            elif msg[0] == 'error_update' and uacc:
                upd.append({'mod': mod, 'name': name, 'v': {'k': 'err'}})       # an error instead of a value
            else:
                upd.append({'mod': mod, 'name': name, 'v': odd(msg)})
        obs['upd'] = upd
        obs['cache'] = self.cache()
        obs['rerr'] = self.rerr()
        return obs


# ------------------------------------------------------------------ comparison with what TLC printed

def clauses(exp, obs):
    """names of the clauses of the expected outcome (printed by TLC) the observation breaks"""
    bad = []
    rep = exp['reply']
    if rep['ok']:
        if obs['cls'] != 'ok':
            bad.append('reply.class')
        elif obs['value'] != rep['v']:
            bad.append('reply.value')
    elif obs['cls'] not in rep['cls']:
        bad.append('reply.class')
    if obs['calls'] != exp['calls']:
        bad.append('driver.calls')
    if any(h != exp['hookarg'] for h in obs['hookargs']):
        bad.append('hook.arg')
    if obs['cache'] != exp['cache']:
        bad.append('cache')
    if obs['rerr'] != exp['rerr']:
        bad.append('readerror')
    def key(u):
        return json.dumps(u, sort_keys=True)
    if exp.get('hassnap'):           # activate: exactly the snapshot updates (as a set)
        if sorted(map(key, obs['upd'])) != sorted(map(key, exp['snap'])):
            bad.append('snapshot')
    elif exp['upd'] == NULL:
        if obs['upd']:
            bad.append('updates')
    elif any(u != exp['upd'] for u in obs['upd']):
        bad.append('updates')
    return bad


def _has_eps(p):
    if p['k'] == 'eps':
        return True
    if p['k'] == 'list':
        return any(_has_eps(x) for x in p['xs'])
    if p['k'] == 'obj':
        return any(_has_eps(e['val']) for e in p['kv'])
    return False


def payload_class(p, cur=None, dt='none'):
    """coarse class of a payload for signatures (stable, specific)"""
    k = p['k']
    if k == 'list':
        c = len(cur['xs']) if cur is not None and cur.get('k') == 'list' else 0
        return 'list:longer' if len(p['xs']) > c > 0 else 'list'
    if k == 'obj':
        return 'obj:' + '+'.join(e['key'] for e in p['kv']) if dt == 'struct' else 'obj'
    if k == 'special':
        return 'special:' + p['s']
    return k


def signature(world_shape, req, bad, obs, cur_cache, module='Dispatch'):
    acc = None
    for a, x in world_shape.get(req['mod'], {}).items():
        if x['wire'] == wire_of(req) and x['wire']:
            acc = (a, x)
    dt = 'none'
    cur = None
    flags = 'unknown-name'
    if any((x.get('cls') or {}).get('wire') == req['name'] != x['wire'] for x in world_shape.get(req['mod'], {}).values()):
        flags = 'cfg-hidden'      # the name the class gave, renamed or hidden by configuration / subclass
    if acc:
        a, x = acc
        dt = (x['dt'] if x['kind'] == 'param' else x['arg'])['t']
        cur = cur_cache.get(req['mod'], {}).get(a)
        flags = x['kind'] + (':const' if x.get('const', NULL) != NULL else ':ro' if x.get('ro') else '')
        c = x.get('cls') or {}
        if x.get('via') == 'cfg' and 'wire' in c and _export(a, dict(x, cls=None)) is True:
            flags = 'cfg-export-true'         # the configuration says export=True where the class says otherwise
        elif x.get('via') == 'cfg' and c.get('ro') is True and not x['ro'] and x['drv'] == 'absent':
            flags = 'cfg-writable-nodriver'   # the configuration says readonly=False, the class has no write function
    return {'module': module, 'clause': bad[0], 'act': req['act'], 'target': flags, 'dt': dt,
            'payload': payload_class(req['payload'], cur, dt), 'clamped': _has_eps(req['payload']),
            'obs': obs['cls']}


# ------------------------------------------------------------------ trace validation with per-event verdicts

def validate_events(module, traces, cfg, timeout=900, chunk=3000, extra_env=None):
    """like core.validate_traces, but the trace specification judges EVERY event, names the broken
    clause and resynchronises on the observed state:  <<"DEV", t, l, "clause">> lines.
    returns (list of (trace index, event index (1-based), clause), accepted trace count, states, transitions)"""
    import shutil
    import tempfile
    from pathlib import Path
    devs = []
    done = states = trans = 0
    for base in range(0, len(traces), chunk):
        part = traces[base:base + chunk]
        d = tempfile.mkdtemp(prefix='trace-')
        try:
            f = Path(d) / 'traces.json'
            f.write_text(json.dumps(part))
            env = {'TRACE_FILE': str(f)}
            env.update(extra_env or {})
            r = run_tlc(module, cfg, workers=1, env=env, timeout=timeout, deadlock=False)
            if r.violated or not r.ok:
                raise MachineryError(f'trace validation {module} failed: {r.violated or r.error}\n{r.out[-3000:]}')
            states += r.distinct
            trans += r.generated
            for t, l, clause in r.printed_tuples('DEV'):
                devs.append((base + t - 1, l, clause))
            ends = {x[0]: x[1] for x in r.printed_tuples('END')}
            for i, tr in enumerate(part):
                if ends.get(i + 1) != len(tr):
                    raise MachineryError(f'trace {base + i} not consumed by {module}: {ends.get(i + 1)} of {len(tr)}')
                done += 1
        finally:
            shutil.rmtree(d, ignore_errors=True)
    return devs, done, states, trans


# ------------------------------------------------------------------ random shapes and requests (code -> spec)

def num(n):
    return {'k': 'num', 'n': n}


def sval(s):
    return abs_str(STRINGS.get(s, s))


def _blob(n):
    import base64
    return abs_str(base64.b64encode(bytes(range(1, n + 1))).decode())


def rand_dt(rnd, depth=1, kinds=('double', 'int', 'enum', 'string', 'struct', 'array', 'bool', 'scaled', 'blob')):
    t = rnd.choice(kinds)
    if t in ('double', 'int', 'scaled'):
        return {'t': t, 'lo': rnd.randint(-3, 2), 'hi': rnd.randint(4, 9)}
    if t == 'bool':
        return {'t': 'bool'}
    if t == 'blob':
        lo = rnd.randint(0, 2)
        return {'t': 'blob', 'minb': lo, 'maxb': rnd.randint(lo + 1, 5)}
    if t == 'enum':
        names = rnd.sample(['a', 'b', 'c', 'd'], rnd.randint(1, 4))
        vals = rnd.sample(range(0, 7), len(names))
        return {'t': 'enum', 'mem': [{'name': n, 'val': v} for n, v in zip(names, vals)]}
    if t == 'string':
        lo = rnd.randint(0, 2)
        return {'t': 'string', 'minc': lo, 'maxc': rnd.randint(max(lo, 2), 7), 'utf8': rnd.random() < 0.3}
    leaf = ('double', 'int', 'enum', 'string', 'bool', 'scaled')
    if t == 'array':
        lo = rnd.randint(0, 1)
        return {'t': 'array', 'el': rand_dt(rnd, 0, leaf), 'minlen': lo, 'maxlen': rnd.randint(lo + 1, 4)}
    names = rnd.sample(['x', 'y', 'z'], rnd.randint(2, 3))
    return {'t': 'struct', 'mem': [{'name': n, 'dt': rand_dt(rnd, 0, leaf)} for n in sorted(names)],
            'opt': sorted(rnd.sample(names, rnd.randint(0, len(names))))}


def rand_valid(rnd, dt, full=True):
    """a member of the value set of dt (abstract)"""
    t = dt['t']
    if t in ('int', 'scaled'):
        return num(rnd.randint(dt['lo'], dt['hi']))
    if t == 'bool':
        return {'k': 'bool', 'b': rnd.random() < 0.5}
    if t == 'blob':
        return _blob(rnd.randint(dt['minb'], dt['maxb']))
    if t == 'limits':
        xs = sorted((rand_valid(rnd, dt['el']) for _ in range(2)), key=lambda x: 4 * x['n'] + {'num': 0, 'eps': 1, 'frac': 2}[x['k']])
        return {'k': 'list', 'xs': xs}
    if t == 'double':
        n = rnd.randint(dt['lo'], dt['hi'])
        r = rnd.random()
        if r < 0.15 and n < dt['hi']:
            return {'k': 'frac', 'n': n}
        if r < 0.25 and 1 <= n < dt['hi']:
            return {'k': 'eps', 'n': n}
        return num(n)
    if t == 'enum':
        return num(rnd.choice(dt['mem'])['val'])
    if t == 'string':
        n = rnd.randint(dt['minc'], dt['maxc'])
        s = ''.join(rnd.choice('abcxyz' + ('éü' if dt['utf8'] else '')) for _ in range(n))
        return abs_str(s)
    if t == 'array':
        return {'k': 'list', 'xs': [rand_valid(rnd, dt['el']) for _ in range(rnd.randint(dt['minlen'], dt['maxlen']))]}
    if t == 'tuple':
        return {'k': 'list', 'xs': [rand_valid(rnd, e) for e in dt['els']]}
    if t == 'struct':
        return {'k': 'obj', 'kv': [{'key': m['name'], 'val': rand_valid(rnd, m['dt'])} for m in dt['mem']
                                   if full or m['name'] not in dt['opt'] or rnd.random() < 0.5]}
    raise MachineryError(dt)


WRONG = [num(1), {'k': 'frac', 'n': 2}, sval('ab'), NULL, {'k': 'list', 'xs': [num(7)]}, {'k': 'list', 'xs': []},
         {'k': 'obj', 'kv': [{'key': 'x', 'val': num(7)}]}, sval('toolong!'), sval('nonascii')]


def falsy_of(dt):
    """the falsy member of the value set of dt, if it has one"""
    t = dt['t']
    if t in ('int', 'double', 'scaled'):
        return num(0) if dt['lo'] <= 0 <= dt['hi'] else None
    if t == 'bool':
        return {'k': 'bool', 'b': False}
    if t == 'string':
        return abs_str('') if dt['minc'] == 0 else None
    if t == 'blob':
        return abs_str('') if dt['minb'] == 0 else None
    if t == 'array':
        return {'k': 'list', 'xs': []} if dt['minlen'] == 0 else None
    if t == 'enum':
        return num(0) if any(m['val'] == 0 for m in dt['mem']) else None
    return None


def has_kind(dt, kinds):
    return dt['t'] in kinds or any(has_kind(x, kinds) for x in
                                   [dt[k] for k in ('el',) if k in dt] + list(dt.get('els', ())) +
                                   [m['dt'] for m in dt.get('mem', ()) if 'dt' in m])


def rand_payload(rnd, dt):
    """payload aimed at datainfo dt: valid, boundary, outside, wrong kind, partial, ..."""
    t = dt['t']
    r = rnd.random()
    if t == 'bool':        # (0 and 1 are documented to be accepted as booleans: not in the alphabet)
        return rand_valid(rnd, dt) if r > 0.3 else rnd.choice([w for w in WRONG if w != num(1)] + [num(3)])
    if r < 0.15:
        return rnd.choice(WRONG)
    if t == 'blob':
        if r < 0.5:
            return _blob(max(0, rnd.choice([dt['minb'] - 1, dt['minb'], dt['maxb'], dt['maxb'] + 1])))
        return rand_valid(rnd, dt) if r < 0.9 else sval(rnd.choice(['AQ=', 'A!ID', 'toolong!']))
    if t == 'limits':
        xs = [rand_payload(rnd, dt['el']) if rnd.random() < 0.15 else rand_valid(rnd, dt['el']) for _ in range(2)]
        if r < 0.3:
            xs = xs[:-1] if rnd.random() < 0.5 else xs + [num(1)]
        elif r < 0.75 and all(x['k'] in ('num', 'eps', 'frac') for x in xs):
            xs.sort(key=lambda x: 4 * x['n'] + {'num': 0, 'eps': 1, 'frac': 2}[x['k']])     # else: maybe inverted
        return {'k': 'list', 'xs': xs}
    if t in ('int', 'double', 'scaled') and r > 0.93:      # NaN, Infinity, -Infinity, 1e999
        if t == 'double' and max(abs(dt['lo']), abs(dt['hi'])) >= 10 ** 6:
            return {'k': 'special', 's': 'nan'}            # (an unlimited double clamps +-inf: documented)
        return {'k': 'special', 's': rnd.choice(['nan', 'nan', 'pinf', 'ninf', 'huge'])}
    if t == 'scaled':
        t = 'int'
    if t in ('int', 'double'):
        if r < 0.3:
            return num(rnd.choice([dt['lo'] - 1, dt['lo'], dt['hi'], dt['hi'] + 1, dt['hi'] + 2]))
        if r < 0.36 and t == 'double':
            return {'k': 'eps', 'n': dt['hi']}
        if r < 0.42:
            return {'k': 'frac', 'n': rnd.randint(dt['lo'] - 1, dt['hi'])}
        return rand_valid(rnd, dt)
    if t == 'enum':
        if r < 0.3:
            return sval(rnd.choice([m['name'] for m in dt['mem']] + ['zz']))
        if r < 0.4:
            return num(rnd.randint(-1, 7))
        return rand_valid(rnd, dt)
    if t == 'string':
        if r < 0.4:
            n = rnd.choice([dt['minc'] - 1, dt['minc'], dt['maxc'], dt['maxc'] + 1])
            return abs_str('q' * max(n, 0)) if rnd.random() < 0.8 else sval('nonascii')
        return rand_valid(rnd, dt)
    if t == 'array':
        n = rnd.choice([dt['minlen'] - 1, dt['minlen'], dt['maxlen'], dt['maxlen'] + 1, rnd.randint(0, dt['maxlen'])])
        return {'k': 'list', 'xs': [rand_payload(rnd, dt['el']) if rnd.random() < 0.15 else rand_valid(rnd, dt['el'])
                                    for _ in range(max(n, 0))]}
    if t == 'tuple':
        xs = [rand_payload(rnd, e) if rnd.random() < 0.15 else rand_valid(rnd, e) for e in dt['els']]
        if r < 0.25:
            xs = xs[:-1] if rnd.random() < 0.5 else xs + [num(1)]
        return {'k': 'list', 'xs': xs}
    if t == 'struct':
        kv = []
        for m in dt['mem']:
            q = rnd.random()
            if q < 0.25:
                continue
            kv.append({'key': m['name'], 'val': rand_payload(rnd, m['dt']) if q < 0.35 else rand_valid(rnd, m['dt'])})
        if rnd.random() < 0.1:
            kv.append({'key': 'w', 'val': num(1)})
        return {'k': 'obj', 'kv': kv}
    return rnd.choice(WRONG)


def rand_shape(rnd):
    """a random node shape in the vocabulary of Dispatch.tla: {module: {attr: accessible}}"""
    shape = {}
    for mname in ['m', 'n'][:rnd.randint(1, 2)]:
        accs = {}
        attrs = rnd.sample(['target', 'value', 'pa', 'pb', 'ramp', 'pq'], rnd.randint(2, 4))
        for attr in attrs:
            dt = rand_dt(rnd)
            numeric = dt['t'] in ('double', 'int', 'scaled')
            r = rnd.random()
            from frappy.params import PREDEFINED_ACCESSIBLES
            auto = attr if attr in PREDEFINED_ACCESSIBLES else '_' + attr
            wire = auto if r < 0.7 else ('' if r < 0.85 else 'x_' + attr)
            q = rnd.random()
            ro, const = q < 0.15, (rand_valid(rnd, dt) if 0.15 <= q < 0.3 else NULL)
            if const != NULL:
                ro = True
                if rnd.random() < 0.5:        # falsy constants: 0, 0.0, false, '', [], b'', the enum member with code 0
                    const = falsy_of(dt) or const
            lim = {'kind': 'none'}
            level = rnd.choice(['X', 'M', 'D', 'B'])      # class of the hierarchy that defines the limit parameters
            if numeric and const == NULL and rnd.random() < 0.6:
                k = rnd.choice(['minmax', 'limits', 'min', 'max'])
                pre = attr if attr in PREDEFINED_ACCESSIBLES else '_' + attr
                if k == 'limits':
                    lim = {'kind': 'limits', 'both': attr + '_limits'}
                    accs[attr + '_limits'] = _limpar(pre + '_limits', {'t': 'limits', 'el': dt},
                                                    {'k': 'list', 'xs': [num(dt['lo']), num(dt['hi'])]}, level)
                else:
                    lim = {'kind': 'minmax', 'lo': '', 'hi': ''}
                    if k in ('minmax', 'min'):
                        lim['lo'] = attr + '_min'
                        accs[attr + '_min'] = _limpar(pre + '_min', dt, num(dt['lo']), level)
                    if k in ('minmax', 'max'):
                        lim['hi'] = attr + '_max'
                        accs[attr + '_max'] = _limpar(pre + '_max', dt, num(dt['hi']), level)
            hooks = []
            hooked = [lv for lv, pr in (('D', 0.35), ('M', 0.3), ('B', 0.3)) if const == NULL and rnd.random() < pr]
            for lv in ('D', 'X', 'M', 'B'):               # MRO order; the limit check at the class of the limits
                if lv in hooked:
                    hooks.append({'at': lv, 'raise': [rand_valid(rnd, dt) for _ in range(rnd.randint(0, 3))],
                                  'stop': [rand_valid(rnd, dt) for _ in range(rnd.randint(0, 3))]})
                if lim['kind'] != 'none' and lv == level:
                    hooks.append({'at': 'LIMIT'})
            accs[attr] = {'kind': 'param', 'wire': wire, 'dt': dt, 'ro': ro, 'const': const,
                          'init': rand_valid(rnd, dt), 'lim': lim, 'hooks': hooks,
                          'drv': rnd.choice(['absent', 'none', 'none', 'same', 'fixed', 'fixed', 'raise']),
                          'ret': rand_valid(rnd, dt), 'rd': 'fixed' if const == NULL and rnd.random() < 0.25 else 'absent',
                          'rret': rand_valid(rnd, dt), 'islimit': False, 'level': level}
            acc = accs[attr]
            for lname in [x for x in (lim.get('lo'), lim.get('hi'), lim.get('both')) if x]:
                if rnd.random() < 0.3:        # the limit is given in the configuration
                    accs[lname]['initvia'] = 'cfgvalue'
                    accs[lname]['init'] = rand_valid(rnd, accs[lname]['dt'])
            # where the final accessible comes from: the class alone, a re-declaration in a subclass, the configuration
            if const == NULL:
                acc['initvia'] = rnd.choice(['default', 'default', 'value', 'bare', 'cfgvalue', 'cfgdefault'])
            else:
                # a constant: with or without a (different) default / value, defined by the class or pinned in the
                # configuration of a parameter that may have read and write functions
                acc['initvia'] = rnd.choice(['none', 'default', 'value'])
                acc['constvia'] = rnd.choice(['class', 'cfg'])
                acc['rd'] = rnd.choice(['absent', 'fixed'])
                if acc['constvia'] == 'cfg':
                    acc['cls'] = {'ro': rnd.random() < 0.5}
                    if acc['initvia'] == 'none':
                        acc['initvia'] = 'default'
                else:
                    acc['drv'] = rnd.choice(['absent', 'none'])
            if const == NULL and rnd.random() < 0.3:
                dk = {'string': 'maxc', 'array': 'maxlen', 'blob': 'maxb'}.get(dt['t'])
                what = rnd.choice(['ro', 'wire'] + (['hi'] if numeric else []) + ([dk, dk] if dk else []))
                acc['via'] = rnd.choice(['cfg', 'subclass'])
                if what == 'ro' and const == NULL:
                    acc['cls'] = {'ro': not ro}
                elif what == 'wire':
                    acc['cls'] = {'wire': rnd.choice([w for w in (auto, '', 'z_' + attr) if w != wire])}
                elif what == 'hi':
                    acc['cls'] = {'hi': dt['hi'] + rnd.randint(1, 2)}
                    acc['redecl'] = rnd.choice(['props', 'datatype'])
                elif what in ('maxc', 'maxlen', 'maxb'):
                    # the class datatype is wider than the configured one; the hardware may deliver a value that
                    # only fits the class datatype (a read error, never an emitted value)
                    acc['cls'] = {what: dt[what] + rnd.randint(1, 3)}
                    if rnd.random() < 0.7:
                        acc['rd'] = 'fixed'
                        acc['rret'] = rand_valid(rnd, dict(dt, **acc['cls']))
                if acc.get('cls') and acc['via'] == 'subclass' and acc.get('initvia') == 'bare':
                    acc['initvia'] = 'value'      # one assignment per class body
        for attr in rnd.sample(['go', 'stop', 'ca', 'cb'], rnd.randint(1, 2)):
            r = rnd.random()
            auto = attr if attr in ('go', 'stop') else '_' + attr
            q = rnd.random()
            leaf = ('double', 'int', 'enum', 'string', 'bool', 'scaled')
            accs[attr] = {'kind': 'cmd', 'wire': auto if r < 0.75 else ('' if r < 0.9 else 'y_' + attr),
                          'arg': {'t': 'none'} if q < 0.3 else
                                 {'t': 'tuple', 'els': [rand_dt(rnd, 0, leaf) for _ in range(rnd.randint(2, 3))]} if q < 0.45
                                 else rand_dt(rnd),
                          'ret': num(rnd.randint(0, 5)) if rnd.random() < 0.5 else NULL,
                          'override': rnd.random() < 0.2}
        first = next(a for a, x in accs.items() if x['kind'] == 'param' and not x.get('islimit'))
        if not accs[first]['wire']:           # every module exports at least one parameter
            accs[first]['wire'] = first if first in PREDEFINED_ACCESSIBLES else '_' + first
            if (accs[first].get('cls') or {}).get('wire') == accs[first]['wire']:
                del accs[first]['cls']
        if not accs[first]['wire']:
            raise MachineryError('rand_shape')
        shape[mname] = accs
    return shape


def _limpar(wire, dt, init, level='X'):
    return {'kind': 'param', 'wire': wire, 'dt': dt, 'ro': False, 'const': NULL, 'init': init,
            'lim': {'kind': 'none'}, 'hooks': [], 'drv': 'absent', 'ret': NULL, 'rd': 'absent', 'rret': NULL,
            'islimit': True, 'level': level}


# what may be offered to a command without argument besides nothing: null, falsy and truthy JSON values
NO_ARG = [{'k': 'jnull'}, num(0), {'k': 'fzero'}, {'k': 'bool', 'b': False}, abs_str(''), {'k': 'list', 'xs': []},
          {'k': 'obj', 'kv': []}, num(1), sval('ab'), {'k': 'list', 'xs': [num(1)]}, {'k': 'obj', 'kv': [{'key': 'a', 'val': num(1)}]}]


def rand_request(rnd, shape, cache):
    r = rnd.random()
    mods = list(shape)
    if r < 0.06:
        act = rnd.choice(['change', 'read', 'do', 'activate'])
        return {'act': act, 'mod': rnd.choice(['zz', 'h']), 'name': rnd.choice(['target', '_pa', 'go']),
                'payload': NULL if act in ('read', 'activate') else rnd.choice([NULL, num(1)])}
    m = rnd.choice(mods)
    if r < 0.12:       # the bare module specifier, and accessibles that must not exist
        act = rnd.choice(['change', 'read'])
        if rnd.random() < 0.5:
            tg = next((x for x in shape[m].values() if x['wire'] == ('target' if act == 'change' else 'value')), None)
            return {'act': act, 'mod': m, 'name': '', 'payload': NULL if act == 'read' else
                    rand_payload(rnd, tg['dt']) if tg and tg['kind'] == 'param' else num(1)}
        act = rnd.choice(['change', 'read', 'do', 'activate'])
        if act == 'activate' and rnd.random() < 0.5:
            return {'act': act, 'mod': m, 'name': '', 'payload': NULL}        # the whole module
        return {'act': act, 'mod': m, 'name': rnd.choice(['_popt', 'popt', '_copt', '_prem', 'prem']),
                'payload': num(1) if act == 'change' else NULL}
    a = rnd.choice(list(shape[m]))
    acc = shape[m][a]
    name = acc['wire'] if acc['wire'] and rnd.random() < 0.93 else rnd.choice([a, 'nope', (acc.get('cls') or {}).get('wire') or a])
    q = rnd.random()
    if acc['kind'] == 'param':
        act = 'read' if q < 0.12 else 'do' if q < 0.16 else 'activate' if q < 0.22 else 'change'
        if acc['const'] != NULL and q >= 0.5:
            act = rnd.choice(['read', 'activate', 'change'])
        payload = NULL if act != 'change' else rand_payload(rnd, acc['dt'])
    else:
        act = 'change' if q < 0.05 else 'read' if q < 0.1 else 'do'
        payload = NULL if act == 'read' else num(1) if act == 'change' else \
            (NULL if rnd.random() < 0.55 else rnd.choice(NO_ARG)) if acc['arg']['t'] == 'none' else rand_payload(rnd, acc['arg'])
    return {'act': act, 'mod': m, 'name': name, 'payload': payload}
