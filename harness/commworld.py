"""real StringIO / BytesIO communicators over a scripted fake transport under the deterministic
scheduler in virtual time (C16).  The real framing code of frappy.lib.asynconn (readline /
readbytes) runs on top of FakeDev.recv / send / flush_recv."""
from . import detsched as ds
from .env import LoggerStub, boot

T0 = 1000000.0
_world = None


def tick(s):
    return int(round((s.now - T0) * 10))


class Device:
    """state of the simulated instrument"""

    def __init__(self, sc):
        self.inbuf = b''          # host -> device, not yet treated
        self.out = b''            # device -> host, arrived, not yet read
        self.open = False
        self.refuse = sc.get('refuse', 0)     # number of connect attempts to refuse
        self.behaviour = sc.get('behaviour', {})   # gid -> tuple
        self.attempts = 0
        self.bad_ident = sc.get('bad_ident', 0)


def make_transport():
    boot()
    from frappy.lib.asynconn import AsynConn, ConnectionClosed
    from frappy.errors import CommunicationFailedError

    if 'fakedev' in AsynConn.SCHEME_MAP:
        return AsynConn.SCHEME_MAP['fakedev']

    class FakeDev(AsynConn):
        scheme = 'fakedev'

        def __init__(self, uri, *a, **k):
            super().__init__(uri, *a, **k)
            w = _world
            self.w = w
            s = w.sched
            dev = w.dev
            dev.attempts += 1
            ok = dev.attempts > dev.refuse and not w.dead
            s.log(ev='connect_attempt', ok=ok)
            if not ok:
                raise CommunicationFailedError('can not connect to fakedev')
            dev.open = True
            dev.inbuf = b''
            dev.out = b''
            self.closed = False

        def disconnect(self):
            if getattr(self, 'closed', True):
                return
            self.closed = True
            self.w.dev.open = False
            self.w.sched.log(ev='host_close')

        def __del__(self):
            pass

        def send(self, data):
            s = self.w.sched
            if s.me() is not None and not s.aborting:
                s.yield_('dev.send')
            if self.w.dev.open and not self.closed:
                self.w.dev.inbuf += data
            s.log(ev='host_send', data=data.decode('latin-1'))
            if s.me() is not None and not s.aborting:
                s.yield_('dev.sent')

        def recv(self):
            s = self.w.sched
            dev = self.w.dev
            if s.me() is not None and not s.aborting:
                s.yield_('dev.recv')
            s.block(lambda: bool(dev.out) or not dev.open, self.timeout, 'recv')
            if dev.out:
                data, dev.out = dev.out, b''
                return data
            if not dev.open:
                raise ConnectionClosed()
            return b''

        def flush_recv(self):
            dev = self.w.dev
            data = self._rxbuffer + dev.out
            dev.out = b''
            self._rxbuffer = b''
            if data:
                self.w.sched.log(ev='flushed', data=data.decode('latin-1'))
            return data

    return FakeDev


class FakeSocket:
    """what frappy.lib.asynconn.AsynTcp needs from a socket: the real AsynTcp (recv / flush_recv / send /
    disconnect) runs on top of this when a scenario says tcp=True"""

    def __init__(self, w, timeout):
        self.w = w
        self.timeout = timeout
        self.closed = False

    def settimeout(self, t):
        self.timeout = t

    def sendall(self, data):
        s = self.w.sched
        if s.me() is not None and not s.aborting:
            s.yield_('dev.send')
        if self.closed:
            raise OSError(9, 'Bad file descriptor')
        if self.w.dev.open:
            self.w.dev.inbuf += data
        s.log(ev='host_send', data=data.decode('latin-1'))
        if s.me() is not None and not s.aborting:
            s.yield_('dev.sent')

    def readable(self):
        return bool(self.w.dev.out) or not self.w.dev.open

    def recv(self, n):
        import socket
        s = self.w.sched
        dev = self.w.dev
        if self.closed:
            raise OSError(9, 'Bad file descriptor')
        if s.me() is not None and not s.aborting:
            s.yield_('dev.recv')
        s.block(self.readable, self.timeout, 'recv')
        if dev.out:
            data, dev.out = dev.out[:n], dev.out[n:]
            return data
        if not dev.open:
            if self.w.sc.get('reset'):
                raise ConnectionResetError(104, 'Connection reset by peer')
            return b''          # end of file: the peer has closed
        raise socket.timeout('timed out')

    def shutdown(self, how):
        if self.closed:
            raise OSError(107, 'Transport endpoint is not connected')

    def close(self):
        if not self.closed:
            self.closed = True
            self.w.dev.open = False
            self.w.sched.log(ev='host_close')


class FakeSocketModule:
    """stands for the module `socket` inside frappy.lib.asynconn"""
    import socket as _real
    timeout = _real.timeout
    gaierror = _real.gaierror
    error = _real.error
    SHUT_RDWR = _real.SHUT_RDWR

    def __init__(self, w):
        self.w = w

    def create_connection(self, addr, timeout=None):
        w = self.w
        dev = w.dev
        dev.attempts += 1
        ok = dev.attempts > dev.refuse and not w.dead
        w.sched.log(ev='connect_attempt', ok=ok)
        if not ok:
            raise ConnectionRefusedError(111, 'Connection refused')
        dev.open = True
        dev.inbuf = b''
        dev.out = b''
        return FakeSocket(w, timeout)


class FakeSelectModule:
    @staticmethod
    def select(r, w, x, timeout=None):
        return [c for c in r if c.readable()], [], []


class World:
    def __init__(self, sc, strategy, max_steps=20000):
        global _world
        boot()
        import frappy.io as fio
        import frappy.lib.asynconn as fa
        import frappy.modulebase as mb
        self.sc = sc
        # (a real poll thread needs a clock that advances: sc['eps'])
        self.sched = ds.Scheduler(strategy, max_steps=max_steps, eps=sc.get('eps', 0.0), wait_eps=sc.get('eps', 0.0))
        self.dev = Device(sc)
        self.dead = False
        extra = {}
        if sc.get('tcp'):
            extra['frappy.lib.asynconn'] = {'socket': FakeSocketModule(self), 'select': FakeSelectModule}
        self.patch = ds.Patch(fio, fa, mb, extra=extra)
        self.fio = fio
        make_transport()
        _world = self

    def make_io(self):
        fio = self.fio
        sc = self.sc
        w = self

        class SecNode:
            modules = {}
            name = 'n'

        class Disp:
            def announce_update(self, m, p):
                if p.name == 'is_connected':
                    w.sched.log(ev='state', connected=bool(p.value))

        class Srv:
            secnode = SecNode()
            dispatcher = Disp()
            log = LoggerStub()

        base = fio.BytesIO if sc.get('bytes') else fio.StringIO
        if sc.get('varlen'):
            # variable-length replies: a header of two bytes announces how many bytes follow; the documented
            # recipe is to fetch them in getFullReply, which runs inside the transaction
            class VarLenIO(fio.BytesIO):
                def getFullReply(self, request, replyheader):
                    return replyheader + self.readBytes(replyheader[1])
            base = VarLenIO
        cfg = {'description': '', 'uri': 'tcp://dev:4711' if sc.get('tcp') else 'fakedev://x', 'timeout': {'value': sc.get('timeout', 2)},
               'pollinterval': {'value': sc.get('pollinterval', 3)}}
        if sc.get('wait_before'):
            cfg['wait_before'] = {'value': sc['wait_before']}
        if sc.get('eol'):       # a terminator of several bytes (line-oriented variant): may be cut by the chunking
            cfg['end_of_line'] = sc['eol']
        if sc.get('ident'):     # identification exchange on every connect: command 90, reply must be that of 90
            cfg['identification'] = [('C 9 0', 'R 9 0 !')] if sc.get('bytes') else [('C90', 'R90$')]
            if 'retry_first_idn' in sc and not sc.get('bytes'):
                cfg['retry_first_idn'] = sc['retry_first_idn']
        self.srv = Srv()
        io = base('io', LoggerStub('io'), cfg, self.srv)
        orig_ident = io.checkHWIdent

        def checkHWIdent():
            try:
                orig_ident()
            except ds.SchedAbort:
                raise
            except BaseException:
                w.sched.log(ev='ident_failed')
                raise
        io.checkHWIdent = checkHWIdent
        io.earlyInit()
        io.initModule()
        self.io = io
        return io


def cmd_text(gid):
    return f'C{gid}'


def make_device(w, sc):
    """the simulated instrument (thread body): parses commands, answers according to sc['behaviour']"""
    s = w.sched
    dev = w.dev
    is_bytes = bool(sc.get('bytes'))
    varlen = bool(sc.get('varlen'))
    eol = sc.get('eol', '\n').encode('latin-1')

    def reply_bytes(gid):
        if varlen:
            return b'R\x04%02d!!' % gid
        return (b'R%02d!' % gid) if is_bytes else (b'R%d' % gid) + eol

    def device():
        while True:
            if is_bytes:
                s.block(lambda: len(dev.inbuf) >= 3 or w.dead, None, 'dev.wait')
                if w.dead:
                    return
                raw, dev.inbuf = dev.inbuf[:3], dev.inbuf[3:]
                gid = int(raw[1:3])
            else:
                s.block(lambda: eol in dev.inbuf or w.dead, None, 'dev.wait')
                if w.dead:
                    return
                raw, dev.inbuf = dev.inbuf.split(eol, 1)
                try:
                    gid = int(raw[1:])
                except ValueError:
                    gid = 0
            s.log(ev='dev_recv', gid=gid)
            beh = dev.behaviour.get(gid, ('normal', 1))
            kind = beh[0]
            rep = reply_bytes(gid)
            if gid == 90 and dev.bad_ident > 0:      # the identification is answered wrongly the first k times
                dev.bad_ident -= 1
                rep = reply_bytes(91)
            if kind == 'normal':
                n = beh[1]
                size = max(1, len(rep) // n)
                parts = [rep[k:k + size] for k in range(0, len(rep), size)]
                for k, part in enumerate(parts):
                    if k:
                        s.sleep(0.1)
                    if dev.open:
                        dev.out += part
                s.log(ev='dev_send', gid=gid)
            elif kind == 'late':
                s.sleep(beh[1])
                if dev.open:
                    dev.out += rep
                    s.log(ev='unsolicited', gid=gid)
            elif kind == 'garbage_after':      # normal reply, then unsolicited junk after a pause
                if dev.open:
                    dev.out += rep
                s.log(ev='dev_send', gid=gid)
                s.sleep(beh[1])
                if dev.open:
                    dev.out += (b'G00!' if is_bytes else b'junk\n')
                    s.log(ev='unsolicited', gid=0)
            elif kind == 'garbage_with':       # the reply and unsolicited junk in ONE segment (one recv() chunk)
                if dev.open:
                    dev.out += rep + (b'G00!' if is_bytes else b'junk' + eol)
                s.log(ev='dev_send', gid=gid)
                s.log(ev='unsolicited', gid=0)
            elif kind in ('silent', 'noreply'):      # noreply: a command the device legitimately does not answer
                pass
            elif kind == 'trickle':      # a byte every half second, never a complete frame
                for _ in range(int(sc.get('horizon', 40) * 2)):
                    s.sleep(beh[1] if len(beh) > 1 else 0.5)
                    if not dev.open:
                        break
                    dev.out += b'x'
            elif kind == 'close':
                dev.open = False
                s.log(ev='dev_close')

    return device


def run_scenario(sc, strategy, max_steps=20000):
    """sc: dict(bytes=bool, callers=[[txn...]], behaviour={gid: (...)}, poller=bool, drop_at=..., refuse=n,
               callbacks=n, horizon=seconds)
       a txn is ('comm', gid) | ('multi', [(gid, expect_reply, delay), ...]) | ('write', gid)"""
    w = World(sc, strategy, max_steps)
    s = w.sched
    dev = w.dev
    is_bytes = bool(sc.get('bytes'))
    varlen = bool(sc.get('varlen'))
    RL = 2 if varlen else 4      # reply (header) length for the byte-oriented variant

    def reply_bytes(gid):
        if varlen:
            return b'R\x04%02d!!' % gid
        return (b'R%02d!' % gid) if is_bytes else (b'R%d' % gid) + sc.get('eol', '\n').encode('latin-1')

    device = make_device(w, sc)

    def caller(i, txns):
        io = w.io
        for txn in txns:
            kind = txn[0]
            if kind == 'sleep':
                s.sleep(txn[1])
                continue
            if kind == 'disc':       # the user switches the connection off (it reconnects by itself)
                s.log(ev='user_disc')
                try:
                    io.write_is_connected(False)
                except ds.SchedAbort:
                    raise
                except BaseException as e:  # noqa
                    s.log(ev='user_disc_failed', msg=repr(e)[:80])
                continue
            if kind == 'comm':
                gids, delays, exp = [txn[1]], [0], [True]
            elif kind == 'write':
                gids, delays, exp = [txn[1]], [0], [False]
            elif kind == 'multi_str':
                gids, delays, exp = list(txn[1]), [0] * len(txn[1]), [True] * len(txn[1])
            elif kind == 'multi_mix':   # plain strings and (cmd, expect_reply, delay) tuples in ONE transaction:
                #                         a plain string always means (cmd, True, 0), whatever came before it
                gids = [g for g, _, _, _ in txn[1]]
                delays = [0 if as_str else int(round(d * 10)) for _, _, d, as_str in txn[1]]
                exp = [True if as_str else bool(e) for _, e, _, as_str in txn[1]]
            elif kind == 'lines':     # ONE command of several lines: wait_before applies before every line, one reply (the last)
                wb = int(round(float(sc.get('wait_before', 0)) * 10))
                gids = list(txn[1])
                delays = [wb] * (len(gids) - 1) + [0]
                exp = [False] * (len(gids) - 1) + [True]
            else:
                gids = [g for g, _, _ in txn[1]]
                delays = [int(round(d * 10)) for _, _, d in txn[1]]
                exp = [True if is_bytes else bool(e) for _, e, _ in txn[1]]
            s.log(ev='call', i=i, kind=kind, gids=gids, delays=delays, exp=exp)
            try:
                if kind == 'lines':
                    r = [io.communicate('\n'.join(cmd_text(g) for g in txn[1]))]
                elif kind == 'multi_str':
                    r = io.multicomm([cmd_text(g) for g in txn[1]])
                elif kind == 'multi_mix':
                    r = io.multicomm([cmd_text(g) if as_str else (cmd_text(g), e, d) for g, e, d, as_str in txn[1]])
                elif kind == 'comm':
                    r = [io.communicate(b'C%02d' % txn[1], RL)] if is_bytes else [io.communicate(cmd_text(txn[1]))]
                elif kind == 'write':
                    io.writeline(cmd_text(txn[1]))
                    r = []
                elif is_bytes:
                    r = io.multicomm([(b'C%02d' % g, RL, d) for g, _, d in txn[1]])
                else:
                    r = io.multicomm([(cmd_text(g), e, d) for g, e, d in txn[1]])
                got = []
                for x in r:
                    x = x.decode('latin-1') if isinstance(x, bytes) else x
                    try:
                        got.append(int(x[2:4] if varlen else x[1:3] if is_bytes else x[1:]))
                    except ValueError:
                        got.append(-1)
                s.log(ev='ret', i=i, ok=True, got=got)
            except ds.SchedAbort:
                raise
            except BaseException as e:  # noqa
                from frappy.errors import CommunicationFailedError, SECoPError
                s.log(ev='ret', i=i, ok=False, got=[],
                      exc='comm' if isinstance(e, SECoPError) else type(e).__name__, msg=str(e)[:60])

    def poller():
        io = w.io
        while not w.dead:
            s.sleep(float(sc.get('pollinterval', 3)))
            if w.dead:
                return
            try:
                io.doPoll()
            except ds.SchedAbort:
                raise
            except BaseException:  # noqa
                pass

    def fault():
        s.sleep(sc['drop_at'])
        if dev.open:
            dev.open = False
            s.log(ev='dev_close')

    with w.patch:
        io = w.make_io()
        for k in range(sc.get('oneshot', 0)):       # one-shot callbacks (return False: cleared after their first run),
            #                                        registered BEFORE the permanent ones
            io.registerReconnectCallback(f'once{k}', (lambda k=k: (s.log(ev='callback', name=f'once{k}'), False)[1]))
        for k in range(sc.get('callbacks', 0)):
            io.registerReconnectCallback(f'cb{k}', (lambda k=k: (s.log(ev='callback', name=f'cb{k}'), True)[1]))

        def setup():
            try:
                io.read_is_connected()
            except Exception:
                pass
        s.setup_phase = True
        s.spawn('setup', setup)
        s.spawn('dev', device)
        names = []

        def starter():
            s.setup_phase = False
        s.spawn('starter', starter)
        for i, txns in enumerate(sc['callers'], 1):
            s.spawn(f'c{i}', caller, i, txns)
            names.append(f'c{i}')
        if sc.get('poller'):
            s.spawn('poll', poller)
        if 'drop_at' in sc:
            s.spawn('fault', fault)
        horizon = T0 + sc.get('horizon', 40)

        snap = {}

        def done():
            if s.now > horizon:
                snap['unfinished'] = [n for n in names if not s.threads[n].finished]
                return True
            return all(s.threads[n].finished for n in names) and (not sc.get('poller') or s.now > T0 + sc.get('poll_until', 0))
        s.stop_when = done
        s.run()
        w.dead = True
        final_state = bool(io.is_connected)
    ev = s.events
    unfinished = snap.get('unfinished', [])
    ev.append({'ev': 'end', 'connected': final_state, 'unfinished': unfinished, 'seq': len(ev), 'th': 'ctl', 'vt': s.now})
    return {'events': ev, 'deadlock': s.deadlock, 'livelock': s.livelock,
            'choices': [c for _, c in s.choices], 'raw_choices': list(s.choices),
            'thread_exc': {n: repr(t.exc) for n, t in s.threads.items() if t.exc is not None}}
