"""the real SecNode / Server._processCfg / shutdown_modules on generated, instrumented module
classes with attachments, under the deterministic scheduler in virtual time (C15)."""
import inspect
import sys

from . import detsched as ds
from .env import LoggerStub, boot

_DME = None


class Log(LoggerStub):
    """logger stub with a parent chain (SecNode uses self.log.parent.getChild)"""
    propagate = True

    def getChild(self, name, *a):
        c = Log(self.name + '.' + name)
        c.parent = self
        return c


def sched_multievent():
    """frappy.lib.multievent.MultiEvent derives from the real threading.Event at import time;
    re-execute the module's current source with the scheduler's primitives instead"""
    global _DME
    import frappy.lib.multievent as me
    src = inspect.getsource(me)
    src = src.replace('import threading', 'from harness.detsched import FAKE_THREADING as threading')
    src = src.replace('import time', 'from harness.detsched import FAKE_TIME as time')
    ns = {'__name__': 'frappy.lib.multievent_sched'}
    exec(compile(src, me.__file__, 'exec'), ns)     # noqa: S102
    _DME = ns['MultiEvent']
    return _DME


def run_config(cfg, strategy=None, want_choices=False):
    """cfg: dict(order=[names], att={name: [targets]}, wrong=[[u,t]...], fail={name: kind},
                polls=[names], writes=[names], acc={name: 'init'|'start'|'never'}, exported=[names])"""
    boot()
    import frappy.modulebase as mb
    import frappy.secnode as sn
    import frappy.server as srvmod
    from frappy.datatypes import FloatRange
    from frappy.dynamic import Pinata
    from frappy.modules import Attached, Communicator, Module
    from frappy.params import Parameter

    s = ds.Scheduler(strategy or ds.GuidedStrategy([]), max_steps=100000, eps=2.0 ** -16, wait_eps=2.0 ** -16)
    log = []

    def ev(**k):
        k['vt'] = int(round((s.now - 1000000.0) * 10))     # tenths of a (virtual) second
        log.append(k)

    wrong = {tuple(e) for e in cfg.get('wrong', [])}

    class Other(Communicator):        # a base class no generated module derives from
        pass

    def make_class(name):
        targets = cfg['att'].get(name, [])
        acc = cfg.get('acc', {}).get(name, 'init')
        fail = cfg.get('fail', {}).get(name, 'none')
        body = {}
        # cfg['host']: a module served by the poll thread of another one is attached to it under the name `io`
        ioname = cfg.get('host', {}).get(name, name)
        attname = {t: ('io' if t == ioname and ioname != name else f'att{k}') for k, t in enumerate(targets)}
        for k, t in enumerate(targets):
            # cfg['opt']: the attachments are declared optional (mandatory=False) - a configured optional
            # attachment has to be resolved, checked and ordered exactly like a mandatory one
            body[attname[t]] = Attached(Other if (name, t) in wrong else Module, mandatory=not cfg.get('opt'))
        body['spare'] = Attached(mandatory=False)      # an optional attachment nobody configures: stays None

        def look(self):
            if self.spare is not None:
                ev(ev='crash', exc='an optional attachment that was not configured is not None')
            for k, t in enumerate(targets):
                o = getattr(self, attname[t])
                # got: the module the attribute really gives (a mandatory attachment never resolves to nothing)
                ev(ev='attach', u=name, t=t, inited=bool(getattr(o, 'initModuleDone', False)),
                   got=getattr(o, 'name', '') or '')

        def __init__(self, *a, **k):
            if fail == 'create':
                raise RuntimeError('scripted failure in the constructor')
            if fail == 'createcfg':
                from frappy.errors import ConfigError
                raise ConfigError('scripted configuration error in the constructor')
            Module.__init__(self, *a, **k)
            ev(ev='create', m=name)

        def earlyInit(self):
            ev(ev='early', m=name)
            if fail == 'early':
                raise ValueError('scripted failure in earlyInit')
            if fail != 'nosuper_early':
                Module.earlyInit(self)

        def initModule(self):
            if acc == 'init':
                look(self)
            if fail == 'init':
                raise ValueError('scripted failure in initModule')
            if fail != 'nosuper_init':
                Module.initModule(self)
            ev(ev='init', m=name)

        def startModule(self, start_events):
            if acc == 'start':
                look(self)
            orig = start_events.get_trigger

            def get_trigger(*a, **k):
                trg = orig(*a, **k)

                def trigger():
                    ev(ev='started_cb', m=name)
                    trg()
                return trigger
            start_events.get_trigger = get_trigger
            ev(ev='start', m=name)     # logged before the poll thread exists: its events come after this one
            try:
                Module.startModule(self, start_events)
            finally:
                start_events.get_trigger = orig

        def doPoll(self):
            ev(ev='poll', m=name)
            dur = cfg.get('polldur', {}).get(name)
            if dur:     # a poll that takes time: may be in flight when the node is shut down
                ev(ev='poll_long', m=name)
                s.sleep(dur)
                ev(ev='poll_end', m=name)

        def shutdownModule(self):
            ev(ev='shutdown', m=name)

        def stopPollThread(self):
            Module.stopPollThread(self)
            ev(ev='stop_poller', m=name)       # logged when the request has been made (the call returned)

        def joinPollThread(self, timeout):
            Module.joinPollThread(self, timeout)
            ev(ev='join', m=name)

        body.update(__init__=__init__, earlyInit=earlyInit, initModule=initModule, startModule=startModule,
                    doPoll=doPoll, shutdownModule=shutdownModule, stopPollThread=stopPollThread,
                    joinPollThread=joinPollThread)
        body['enablePoll'] = name in cfg.get('polls', [])
        if cfg.get('polldur'):
            body['pollinterval'] = 1.0     # so that a poll starts at the moment the shutdown begins
        if name in cfg.get('writes', []):
            body['w'] = Parameter('w', FloatRange(), default=0, readonly=False)

            def write_w(self, value):
                ev(ev='write', m=name)
                return value
            body['write_w'] = write_w
        if name in cfg.get('polls', []):
            # a polled parameter: its read function is part of the first round of the poll thread - which comes after
            # ALL configured values of the modules served by that thread have been written
            body['pv'] = Parameter('pv', FloatRange(), default=0)

            def read_pv(self):
                ev(ev='read', m=name)
                return 0.0
            body['read_pv'] = read_pv
        rdur = cfg.get('readdur', {}).get(name)
        if rdur:       # a polled parameter whose (first) read hangs: the first round of this poll thread takes long
            body['r'] = Parameter('r', FloatRange(), default=0)

            def read_r(self, rdur=rdur):
                ev(ev='slow_read', m=name)
                s.sleep(rdur)
                return 1.0
            body['read_r'] = read_r
        children = cfg.get('pinata', {}).get(name)
        if children is not None:
            def scanModules(self):
                for ch in children:
                    yield ch, child_cfg(ch)
            body['scanModules'] = scanModules
            return fix_targets(type('L_' + name, (Pinata,), body), name, targets, attname)
        return fix_targets(type('L_' + name, (Module,), body), name, targets, attname)

    def fix_targets(cls, name, targets, attname):
        # cfg['fixed']: the attachments of these modules are not given in the configuration but fixed by a subclass
        # with bare class attributes (`class Sub(Base): io = 'name'`)
        if name in cfg.get('fixed', []) and targets:
            return type(cls.__name__ + '_fixed', (cls,), {attname[t]: t for t in targets})
        return cls

    def attkey(name, k, t):
        h = cfg.get('host', {}).get(name, name)
        return 'io' if (t == h and h != name) else f'att{k}'

    def child_cfg(name):
        c = {'cls': make_class(name), 'description': name}
        if name not in cfg.get('fixed', []):
            for k, t in enumerate(cfg['att'].get(name, [])):
                c[attkey(name, k, t)] = t
        if name in cfg.get('writes', []):
            c['w'] = {'value': 1.0}
        return c

    module_cfg = {}
    dynamic = {ch for chs in cfg.get('pinata', {}).values() for ch in chs}
    for name in cfg['order']:
        if name in dynamic:
            continue        # created by its pinata while the node scans for modules
        c = {'cls': make_class(name), 'description': name}
        if name not in cfg.get('fixed', []):
            for k, t in enumerate(cfg['att'].get(name, [])):
                c[attkey(name, k, t)] = t
        if name in cfg.get('writes', []):
            c['w'] = {'value': 1.0}
        if name not in cfg.get('exported', cfg['order']):
            c['export'] = False
        module_cfg[name] = c

    class Stub:
        restart = shutdown = None
        _testonly = False
        name = 'node'

    stub = Stub()
    stub.log = Log('root').getChild('srv')
    stub.node_cfg = {'cls': 'frappy.protocol.dispatcher.Dispatcher', 'description': 'd', 'equipment_id': 'e'}
    stub.module_cfg = module_cfg
    result = {}

    def server():
        import io
        saved = sys.stderr
        sys.stderr = io.StringIO()
        try:
            srvmod.Server._processCfg(stub)
            ev(ev='ready')
            result['ready'] = True
        except SystemExit:
            ev(ev='config_error', errors=len(getattr(stub.secnode, 'errors', [])))
            result['ready'] = False
        except ds.SchedAbort:
            raise
        except BaseException as e:  # noqa
            ev(ev='crash', exc=type(e).__name__ + ':' + str(e)[:80])
            result['ready'] = False
        finally:
            sys.stderr = saved
        if result.get('ready'):
            s.sleep(1.0)
            ev(ev='begin_stop')
            try:
                stub.secnode.shutdown_modules()
                ev(ev='down')
            except ds.SchedAbort:
                raise
            except BaseException as e:  # noqa
                ev(ev='crash', exc=type(e).__name__ + ':' + str(e)[:80])
        result['done'] = True

    dme = sched_multievent()
    with ds.Patch(mb, sn, srvmod, extra={'frappy.server': {'MultiEvent': dme}}):
        s.spawn('server', server)
        s.stop_when = lambda: result.get('done') or s.now > 1000000.0 + 200
        s.run()
    if not result.get('done'):
        ev(ev='crash', exc='server thread did not finish (deadlock=%s livelock=%s)' % (s.deadlock, s.livelock))
    if want_choices:
        return log, list(s.choices)
    return log
