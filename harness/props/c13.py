"""C13 - Poller: bounded staleness, no starvation, survives failing reads.

spec/Poller.tla     the poll thread body in integer virtual time (design check of the bounds)
spec/PollerObs.tla  the bounds of the property on the observable, time-stamped schedule
Binding: the real Module._Module__pollThread runs as a scheduled thread in virtual time; read_* / doPoll of
generated module classes take scripted durations and raise scripted exceptions; the recorded schedule is
validated by TLC against Trace_PollerObs.
"""
import json
import random

from ..core import model_check, pool_map, sany, validate_traces

META = {
    'text': 'TLC model-checks the poll thread algorithm (start-up round, due-time computation, main polls, one slow poll '
            'per turn, triggers) in integer virtual time over all small configurations of modules x intervals x '
            'durations x failure scripts against the bounds of the property (main poll restarted within interval + one '
            'sweep, every polled parameter refreshed within a bounded multiple of the slow interval, unpolled reads '
            'never called, errors never stop the thread, interval changes effective from the next wake-up). The real '
            'poll thread body is executed in virtual time on generated module classes with scripted durations and '
            'exceptions (catalogue + seeded random configurations, run-time interval / fast-poll changes, start-up '
            'communication failures) and every recorded schedule is validated by TLC against the same bounds.',
    'note': 'Trusted: TLC, harness/detsched.py virtual clock (reading the clock costs 2^-16 s, a timed wait returns that '
            'much after its deadline). Virtual time only; nothing is claimed about OS scheduling latency. Bound '
            'constants: sweep = sum of the longest doPoll of every module + the longest slow read + 1 tick; slow bound '
            '= 2*slowinterval + (number of polled parameters + 2) sweeps.',
    'tech': 'TLA+ spec + TLC model checking of the scheduling algorithm; virtual-time execution of the real poll thread; '
            'TLC trace validation (Trace_PollerObs)',
    'ref': 'DESIGN.md section 5 C13',
}

CATALOGUE = [
    dict(modules=[dict(interval=8, slow=24, dopoll=[(1, 'ok'), (1, 'other')], reads={'a': [(1, 'ok')], 'b': [(2, 'secop'), (0, 'ok')]},
                       nopoll=['c'], writes={'w': 3.0}),
                  dict(interval=16, slow=40, dopoll=[(3, 'ok')], reads={'a': [(0, 'ok')]})],
         env=[(60, 'fast', 0, (True, 2)), (100, 'fast', 0, (False, 0)), (120, 'interval', 0, 4)], horizon=200),
    dict(modules=[dict(interval=2, slow=8, dopoll=[(5, 'ok')], reads={'a': [(3, 'ok')]})], horizon=150),   # poll longer than interval
    dict(modules=[dict(interval=4, slow=8, dopoll=[(1, 'comm'), (1, 'silent'), (1, 'secop'), (1, 'other')],
                       reads={'a': [(1, 'comm')], 'b': [(1, 'other')]}, nopoll=['c'])], horizon=150),   # everything fails
    dict(modules=[dict(interval=8, slow=16, dopoll=[(0, 'ok')], reads={}),
                  dict(interval=1, slow=4, dopoll=[(2, 'ok')], reads={'a': [(1, 'ok')], 'b': [(1, 'ok')]}, readable=False),
                  dict(interval=8, slow=16, dopoll=[(1, 'other')], reads={'a': [(4, 'silent')]}),
                  dict(interval=4, slow=8, dopoll=[(1, 'ok')], reads={'a': [(0, 'ok')]}, nopoll=['c'])], horizon=250),
    # read handlers: ReadHandler polls each key, CommonReadHandler only the first one, nopoll still wins
    dict(modules=[dict(interval=8, slow=16, dopoll=[(1, 'ok')], reads={'a': [(1, 'ok')]},
                       rh=dict(keys=['e', 'f'], script=[(1, 'ok'), (1, 'secop')]),
                       crh=dict(keys=['g', 'h'], script=[(2, 'ok'), (1, 'other')]), nopoll=['c']),
                  dict(interval=4, slow=8, dopoll=[(0, 'ok')], reads={}, crh=dict(keys=['g', 'h', 'k'], script=[(1, 'ok')]))],
         horizon=200),
    dict(modules=[dict(interval=8, slow=24, dopoll=[(1, 'ok')], reads={'a': [(1, 'ok')]})],
         env=[(30, 'fast', 0, (True, 0)), (50, 'fast', 0, (False, 0)), (80, 'trigger', 0, True), (81, 'trigger', 0, False)], horizon=160),
    dict(modules=[dict(interval=16, slow=40, dopoll=[(1, 'ok')], reads={'a': [(1, 'ok')]}),
                  dict(interval=8, slow=24, dopoll=[(1, 'ok')], reads={'a': [(1, 'ok')]}, readable=True)],
         env=[(20, 'interval', 0, 2), (60, 'interval', 0, 32), (100, 'interval', 1, 1)], horizon=260),
    # the pollinterval parameter itself goes into an error state (its value is kept in the hardware and the read failed):
    # the interval in use stays, every module of the thread goes on being polled
    dict(modules=[dict(interval=4, slow=8, dopoll=[(1, 'ok')], reads={'a': [(0, 'ok')]}, readable=True),
                  dict(interval=8, slow=16, dopoll=[(0, 'ok')], reads={'b': [(1, 'ok')]}, readable=True)],
         env=[(30, 'pierr', 0, True), (60, 'pierr', 1, False), (90, 'pierr', 0, False)], horizon=160),
    # the poll thread belongs to a module that is not polled itself (a communicator with enablePoll = False)
    dict(bus=True, modules=[dict(interval=4, slow=8, dopoll=[(1, 'ok'), (0, 'other')], reads={'a': [(0, 'ok'), (1, 'secop')]}, readable=True),
                            dict(interval=8, slow=16, dopoll=[(0, 'comm')], reads={'b': [(1, 'ok')]}, readable=True)], horizon=160),
    # constants with read functions are never polled, whatever their value and wherever they are declared
    dict(modules=[dict(interval=4, slow=8, dopoll=[(1, 'ok')], reads={'a': [(0, 'ok')]},
                       consts={'k0': (0.0, 'class'), 'k5': (5.0, 'class'), 'c0': (0.0, 'cfg'), 'c3': (3.0, 'cfg')}),
                  dict(interval=8, slow=16, dopoll=[(0, 'ok')], reads={}, consts={'k0': (0.0, 'cfg')}, readable=True)], horizon=120),
    # very different slow intervals on one thread, the long one last (and first)
    dict(modules=[dict(interval=4, slow=4, dopoll=[(0, 'ok')], reads={'a': [(0, 'ok')], 'b': [(1, 'ok')]}),
                  dict(interval=8, slow=80, dopoll=[(1, 'ok')], reads={'a': [(0, 'ok')]})], horizon=260),
    dict(modules=[dict(interval=8, slow=80, dopoll=[(1, 'ok')], reads={'a': [(0, 'ok')]}),
                  dict(interval=4, slow=4, dopoll=[(0, 'ok')], reads={'a': [(0, 'ok')]}, readable=True),
                  dict(interval=2, slow=8, dopoll=[(0, 'ok')], reads={'b': [(1, 'ok')]})], horizon=260),
    # a pollinterval change while fast polling is on is ignored until fast polling is switched off
    dict(modules=[dict(interval=8, slow=24, dopoll=[(1, 'ok')], reads={'a': [(1, 'ok')]}, readable=True)],
         env=[(20, 'fast', 0, (True, 1)), (40, 'interval', 0, 16), (80, 'fast', 0, (False, 0)), (150, 'interval', 0, 2)], horizon=200),
    # configured writes that fail in every way at start-up: the thread goes on polling
    dict(modules=[dict(interval=4, slow=8, dopoll=[(1, 'ok')], reads={'a': [(1, 'ok')]},
                       writes={'w': (1.0, 'other'), 'x': (2.0, 'secop'), 'y': (3.0, 'silent'), 'z': 4.0}),
                  dict(interval=8, slow=16, dopoll=[(1, 'ok')], reads={'a': [(0, 'ok')]}, writes={'w': (1.0, 'comm')})],
         horizon=120),
    # the fast interval changes while fast polling is already on; switching off twice
    dict(modules=[dict(interval=16, slow=40, dopoll=[(1, 'ok')], reads={'a': [(1, 'ok')]})],
         env=[(20, 'fast', 0, (True, 8)), (60, 'fast', 0, (True, 2)), (100, 'fast', 0, (True, 1)), (130, 'fast', 0, (False, 0)),
              (150, 'interval', 0, 4), (170, 'fast', 0, (False, 0))], horizon=220),
]


def random_scenario(rnd):
    mods = []
    for mi in range(rnd.randint(1, 4)):
        interval = rnd.choice([1, 2, 4, 8, 16])
        outs = ['ok'] * 4 + ['secop', 'silent', 'other', 'comm']
        durs = [0, 0, 1, 1, 3, 10]
        m = dict(interval=interval, slow=rnd.choice([4, 8, 24, 40]),
                 dopoll=[(rnd.choice(durs), rnd.choice(outs)) for _ in range(rnd.randint(1, 3))],
                 reads={p: [(rnd.choice(durs[:5]), rnd.choice(outs)) for _ in range(rnd.randint(1, 3))]
                        for p in rnd.sample(['a', 'b', 'd'], rnd.randint(0, 2))},
                 nopoll=['c'] if rnd.random() < 0.4 else [], readable=rnd.random() < 0.5 or mi == 0)
        if rnd.random() < 0.25:
            m['consts'] = {'k': (rnd.choice([0.0, 0.0, 2.0]), rnd.choice(['class', 'cfg']))}
        if rnd.random() < 0.3:
            m['writes'] = {'w': 1.0 if rnd.random() < 0.5 else (1.0, rnd.choice(outs[3:]))}
        if rnd.random() < 0.25:
            m['rh'] = dict(keys=['e', 'f'], script=[(rnd.choice(durs[:5]), rnd.choice(outs)) for _ in range(rnd.randint(1, 2))])
        if rnd.random() < 0.25:
            m['crh'] = dict(keys=['g', 'h'], script=[(rnd.choice(durs[:5]), rnd.choice(outs)) for _ in range(rnd.randint(1, 2))])
        mods.append(m)
    env = []
    for _ in range(rnd.randint(0, 3)):
        mi = rnd.randrange(len(mods))
        at = rnd.randint(5, 150)
        kind = rnd.choice(['fast', 'interval', 'trigger'])
        if kind == 'fast':
            flag = rnd.random() < 0.6
            fi = rnd.choice([0, 1, 2])
            if fi == 0 and min(d for d, _ in mods[mi]['dopoll']) == 0:
                fi = 1          # interval 0 with a zero-time poll is a zero-time busy loop by definition
            env.append((at, 'fast', mi, (flag, fi)))
            if flag and rnd.random() < 0.5:      # the same mode again, with another interval
                env.append((at + rnd.randint(3, 40), 'fast', mi, (True, 1 if fi == 2 else 2)))
        elif kind == 'interval' and mods[mi]['readable']:
            env.append((at, 'interval', mi, rnd.choice([1, 2, 4, 8, 32])))
        else:
            env.append((at, 'trigger', mi, rnd.random() < 0.5))
    return dict(modules=mods, env=env, horizon=rnd.randint(150, 300), bus=rnd.random() < 0.2)


def alpha(sc, r):
    mods = []
    for m in sc['modules']:
        polled = ['read_' + p for p in m.get('reads', {})]
        nopoll = ['read_' + p for p in m.get('nopoll', [])] + ['read_' + p for p in m.get('consts', {})]
        durs = [d for sc_ in m.get('reads', {}).values() for d, _ in sc_]
        if m.get('pi_read'):
            polled.append('read_pollinterval')
            durs += [d for d, _ in m['pi_read']]
        if m.get('rh'):
            polled += ['read_' + p for p in m['rh']['keys']]
            durs += [d for d, _ in m['rh'].get('script') or [(0, 'ok')]]
        if m.get('crh'):
            polled.append('read_' + m['crh']['keys'][0])
            nopoll += ['read_' + p for p in m['crh']['keys'][1:]]     # only the first key of a common read handler is polled
            durs += [d for d, _ in m['crh'].get('script') or [(0, 'ok')]]
        mods.append({'interval': m['interval'], 'slow': m['slow'], 'dmax': max(d for d, _ in m['dopoll']),
                     'polled': polled, 'nopoll': nopoll, 'rmax': max(durs or [0])})
    tr = [{'ev': 'cfg', 'modules': mods}]
    base = [m['interval'] for m in sc['modules']]
    for e in r['log']:
        if e['ev'] == 'call':
            if e['th'] != 'pollThread':
                continue
            fn = 'write' if e['fn'].startswith('write_') else e['fn']
            tr.append({'ev': 'call', 't': e['t'], 'm': e['m'] + 1, 'fn': fn, 'out': e['out']})
        elif e['ev'] == 'started':
            tr.append({'ev': 'started', 't': e['t']})
        elif e['ev'] == 'env':
            mi = e['m']
            if e['action'] == 'fast':
                flag, fi = e['arg']
                tr.append({'ev': 'change', 't': e['t'], 'm': mi + 1, 'interval': fi if flag else base[mi],
                           'flag': bool(flag), 'isfast': True})
            elif e['action'] == 'interval':
                base[mi] = e['arg']
                tr.append({'ev': 'change', 't': e['t'], 'm': mi + 1, 'interval': e['arg'], 'flag': False, 'isfast': False})
            elif e['action'] == 'pierr':
                pass        # an error state of the pollinterval parameter changes nothing for the poller
            else:
                tr.append({'ev': 'trigger', 't': e['t'], 'm': mi + 1})
        elif e['ev'] == 'end':
            tr.append({'ev': 'end', 't': e['t'], 'alive': e['alive'] and not r['livelock'] and not r['deadlock'], 'exc': e['exc']})
    return tr


# run-time changes issued by another thread at the very instant the poll thread finishes a poll and computes
# its next wait: every clock read / event operation is a preemption point, schedules are explored
RACES = [
    dict(modules=[dict(interval=8, slow=40, dopoll=[(1, 'ok')], reads={'a': [(1, 'ok')]})],
         env=[(('after', 3), 'interval', 0, 2)], horizon=60),
    dict(modules=[dict(interval=16, slow=40, dopoll=[(2, 'ok')], reads={})],
         env=[(('after', 2), 'fast', 0, (True, 1))], horizon=60),
    dict(modules=[dict(interval=8, slow=24, dopoll=[(1, 'ok')], reads={'a': [(0, 'ok')]}),
                  dict(interval=8, slow=24, dopoll=[(1, 'ok')], reads={}, readable=True)],
         env=[(('after', 2), 'interval', 1, 1), (('after', 4), 'fast', 0, (True, 2))], horizon=70),
    # fast polling switched off by one thread while another one changes the poll interval (line-level interleaving
    # of the two calls): whatever the order, afterwards the interval in use is the new poll interval
    dict(modules=[dict(interval=16, slow=40, dopoll=[(1, 'ok')], reads={}, readable=True)],
         env=[(1, 'fast', 0, (True, 2)), (('after', 3), 'racepair', 0, (('fast', (False, 2)), ('interval', 4)))],
         horizon=90),
    dict(modules=[dict(interval=4, slow=40, dopoll=[(1, 'ok')], reads={}, readable=True)],
         env=[(1, 'fast', 0, (True, 2)), (('after', 3), 'racepair', 0, (('interval', 16), ('fast', (False, 2))))],
         horizon=120),
]


def _race(args):
    ri, mode, seed, nruns = args
    from .. import detsched as ds
    from ..pollworld import run_scenario
    sc = RACES[ri]
    out = []
    if mode in ('dfs', 'dfs1'):
        class Run:
            def __init__(self, r):
                self.choices = r['raw_choices']
                self.res = r

        for s in ds.explore(lambda st: Run(run_scenario(sc, st, race=True)), max_preemptions=1 if mode == 'dfs1' else 2, max_runs=nruns,
                            max_depth=400):
            out.append((s.res['choices'], alpha(sc, s.res)))
    else:
        for k in range(nruns):
            r = run_scenario(sc, ds.RandomStrategy(seed * 7919 + k, stay=0.5 + 0.2 * (k % 3)), race=True)
            out.append((r['choices'], alpha(sc, r)))
    return ri, out


def _run(sc):
    from ..pollworld import run_scenario
    return alpha(sc, run_scenario(sc))


def run(chk):
    quick = chk.tier == 'quick'
    chk.rule = ('executions of the real poll thread body in virtual time on generated module classes: a fixed catalogue '
                'plus seeded random configurations (1-4 modules sharing the thread, intervals 1..16 ticks and 0 via '
                'fast polling, durations incl. longer than the interval, failure scripts of SECoP / silent / arbitrary / '
                'communication errors, run-time changes); distinct = distinct configuration; non-trivial = contains a '
                'failing function, a poll longer than its interval or a run-time change')
    for m in ('Poller', 'PollerObs', 'Trace_PollerObs'):
        sany(m)
    chk.add_tlc(model_check('Poller', 'MC_Poller_quick.cfg' if quick else 'MC_Poller_thorough.cfg', timeout=1500))
    if not quick:
        chk.add_tlc(model_check('Poller', 'MC_Poller_thorough3.cfg', timeout=1500))    # three modules, smaller alphabets
    rnd = random.Random(chk.seed * 1000003 + 17)
    scs = list(CATALOGUE) + [random_scenario(rnd) for _ in range(150 if quick else 3000)]
    traces = pool_map(_run, scs)
    jobs = []
    for ri in range(len(RACES)):
        jobs.append((ri, 'dfs', chk.seed, 120 if quick else 3000))
        jobs.append((ri, 'rnd', chk.seed + 2, 80 if quick else 2000))
        if any(e[1] == 'racepair' for e in RACES[ri]['env']):
            # two callers interleaved line by line: ONE preemption at every line reaches the window between two
            # adjacent assignments, which the 2-preemption search spends its budget before reaching
            jobs.append((ri, 'dfs1', chk.seed, 700 if quick else 4000))
    seen = set()
    for ri, out in pool_map(_race, jobs, chunksize=1):
        for choices, tr in out:
            if (ri, tuple(choices)) in seen:
                continue
            seen.add((ri, tuple(choices)))
            scs.append(dict(RACES[ri], schedule=choices))
            traces.append(tr)
    chk.notes['race_schedules'] = len(seen)
    verdicts, st, trn = validate_traces('Trace_PollerObs', traces, 'Trace_PollerObs.cfg', timeout=1500)
    chk.states += st
    chk.transitions += trn
    for i, v in verdicts.items():
        sc = scs[i]
        chk.impl_traces += 1
        nontriv = bool(sc.get('env')) or any(o != 'ok' or d > m['interval'] for m in sc['modules'] for d, o in m['dopoll'])
        chk.case(json.dumps(sc, sort_keys=True), nontriv)
        if v is not None:
            l = v[0]
            ev = traces[i][l - 1] if 0 < l <= len(traces[i]) else {}
            sig = {'module': 'PollerObs', 'event': ev.get('ev'), 'fn': ev.get('fn', ''),
                   'kind': 'started' if not any(e['ev'] == 'started' for e in traces[i][:l - 1]) else 'running'}
            chk.violation(sig, {'scenario': sc, 'failed_at': l, 'event': ev, 'trace': traces[i][:l + 2]})
    chk.sample({'scenario': scs[0], 'trace_prefix': traces[0][:12]})


def replay(chk, rep):
    from ..pollworld import run_scenario
    from .. import detsched as ds
    sc = rep['detail']['scenario']
    sc['env'] = [tuple(e[:3]) + (tuple(e[3]) if isinstance(e[3], list) else e[3],) for e in sc.get('env', [])]
    sched = sc.pop('schedule', None)
    r = run_scenario(sc, ds.GuidedStrategy(sched), race=True) if sched is not None else run_scenario(sc)
    for e in alpha(sc, r):
        print(e)
    return 0
