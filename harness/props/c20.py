"""C20 - Logging: exact per-connection routing, rotation keeps the newest files.

spec/Logging.tla, spec/LogRotation.tla.  Binding:
  spec -> code : every behaviour of Gen_Logging (exhaustive to depth D) is replayed on a real
                 Dispatcher + Modules + RemoteLogHandler, state compared after every step;
                 every rotation behaviour of Gen_LogRotation is executed on the real
                 LogfileHandler in a temporary directory.
  code -> spec : random long histories / random directories are recorded and validated by
                 Trace_Logging / Trace_LogRotation (TLC).
"""
import json
import os
import random
import shutil
import tempfile
import time as _time

from ..core import emit_behaviours, model_check, pool_map, sany, validate_traces
from ..env import Conn, LoggerStub, boot

META = {
    'text': 'TLC model-checks the routing table design (all interleavings of logging/emit/ident/disconnect on 2-3 '
            'connections) and the rotation rule; every depth-bounded behaviour TLC enumerates is replayed on the real '
            'Dispatcher + RemoteLogHandler with the level table and the set of receivers compared after each step, and '
            'recorded random histories / directory listings of the real LogfileHandler are validated by TLC against '
            'Trace_Logging / Trace_LogRotation. Bounded (depth, 3 connections, 2 modules), exhaustive inside the bound.',
    'note': 'Trusted: TLC; the small alpha/gamma glue in harness/props/c20.py (fake connections, patched clock of '
            'mlzlog); numeric level values and unknown module names in logging requests are outside the alphabet.',
    'tech': 'TLA+ spec (Logging.tla, LogRotation.tla) + TLC model checking; spec->code replay of all TLC behaviours; '
            'code->spec TLC trace validation',
    'ref': 'DESIGN.md section 5 C20',
}

LEVELNO = {'debug': 10, 'comlog': 15, 'info': 20, 'warning': 30, 'error': 40}
MODS = ['m1', 'm2']


# ------------------------------------------------------------------ routing world

class World:
    """real dispatcher, two real modules with a real RemoteLogHandler"""
    count = 0

    def __init__(self, conns):
        boot()
        import mlzlog
        from frappy.logging import RemoteLogHandler
        from frappy.modules import Module
        from frappy.protocol.dispatcher import Dispatcher

        World.count += 1
        root = mlzlog.MLZLogger('verif%d_%d' % (os.getpid(), World.count))
        root.setLevel(10)
        root.handlers[:] = []
        root.propagate = False
        self.handler = RemoteLogHandler()
        root.addHandler(self.handler)

        class SecNode:
            def __init__(self):
                self.modules = {}
                self.export = []
                self.name = ''

            def get_module(self, n):
                return self.modules[n]

        class Srv:
            restart = shutdown = None
            secnode = SecNode()

        srv = Srv()
        srv.secnode = SecNode()
        srv.dispatcher = self.dispatcher = Dispatcher('d', LoggerStub(), {}, srv)

        class Mod(Module):
            def earlyInit(self):
                pass

        self.mods = {}
        for m in MODS:
            # m2 is not exported: log routing (and its reset on off / *IDN? / disconnect) does not depend on that
            o = Mod(m, root.getChild(m), {'description': '', 'export': m != 'm2'}, srv)
            srv.secnode.modules[m] = o
            self.mods[m] = o
        self.conns = {c: Conn(c, self.dispatcher) for c in conns}

    def level_table(self):
        subs = self.handler.subscriptions
        return {m: {c: subs.get(m, {}).get(conn, 99) for c, conn in self.conns.items()} for m in MODS}

    def step(self, a):
        """execute one abstract action, return observation in the spec's vocabulary"""
        for c in self.conns.values():
            del c.msgs[:]
        act = a.get('act') or a.get('ev')
        obs = {}
        if act == 'logging':
            conn = self.conns[a['conn']]
            try:
                rep = self.dispatcher.handle_request(conn, ('logging', a['target'], a.get('wire', a['lvl'])))
                obs['ok'] = rep[0] == 'logging'
            except Exception:  # the request handler turns any exception into an error reply
                obs['ok'] = False
        elif act == 'emit':
            self.mods[a['mod']].log.log(LEVELNO[a['lvl']], 'msg %s', a['lvl'])
            to = []
            for name, c in self.conns.items():
                n = [m for m in c.msgs if m[0] == 'log']
                bad = [m for m in n if m[1] != f"{a['mod']}:{a['lvl']}"]
                if bad:
                    to.append(name + '!wrong:' + bad[0][1])
                elif len(n) == 1:
                    to.append(name)
                elif len(n) > 1:
                    to.append(name + '!dup')
            obs['to'] = sorted(to)
        elif act == 'ident':
            self.dispatcher.handle_request(self.conns[a['conn']], ('*IDN?', None, None))
        elif act == 'disconnect':
            self.dispatcher.remove_connection(self.conns[a['conn']])
        obs['level'] = self.level_table()
        return obs


def _expected(step):
    e = step['exp']
    obs = {'level': e['level']}
    if step['act'] == 'logging':
        obs['ok'] = e['last']['ok']
    elif step['act'] == 'emit':
        obs['to'] = sorted(e['last']['to'])
    return obs


def _replay_routing(beh):
    conns = sorted({s['conn'] for s in beh if 'conn' in s} | {'c1', 'c2'})
    w = World(conns)
    for i, st in enumerate(beh):
        got = w.step(st)
        exp = _expected(st)
        exp['level'] = {m: {c: exp['level'][m][c] for c in conns} for m in MODS}
        if got != exp:
            return {'step': i, 'action': {k: v for k, v in st.items() if k != 'exp'},
                    'expected': exp, 'observed': got}
    return None


def _random_trace(seed_n):
    seed, n = seed_n
    rnd = random.Random(seed)
    conns = ['c1', 'c2', 'c3']
    w = World(conns)
    alive = set(conns)
    tr = []
    for _ in range(n):
        r = rnd.random()
        if r < 0.4 and alive:
            a = {'ev': 'logging', 'conn': rnd.choice(sorted(alive)), 'target': rnd.choice(MODS + ['.']),
                 'lvl': rnd.choice(list(LEVELNO) + ['off', 'off', 'bogus'])}
            spell = rnd.random()      # the same level spelled in upper case or as its number
            if spell < 0.15:
                a['wire'] = a['lvl'].upper()
            elif spell < 0.3:
                from frappy.logging import LOG_LEVELS
                a['wire'] = LOG_LEVELS.get(a['lvl'], 25)
        elif r < 0.85:
            a = {'ev': 'emit', 'mod': rnd.choice(MODS), 'lvl': rnd.choice(list(LEVELNO))}
        elif r < 0.95 and alive:
            a = {'ev': 'ident', 'conn': rnd.choice(sorted(alive))}
        elif alive and len(alive) > 1:
            a = {'ev': 'disconnect', 'conn': rnd.choice(sorted(alive))}
            alive.discard(a['conn'])
        else:
            continue
        a.update(w.step(a))
        a['haslevel'] = True
        tr.append(a)
    return tr


# ------------------------------------------------------------------ concurrent requests / disconnects

CONC = {
    'logging_vs_disconnect': [('c1', 'logging', 'm1', 'info'), ('c2', 'disconnect')],
    'logging_vs_ident': [('c1', 'logging', '.', 'error'), ('c2', 'ident')],
    'two_logging': [('c1', 'logging', 'm1', 'debug'), ('c2', 'logging', 'm1', 'off')],
    'three': [('c1', 'logging', 'm2', 'info'), ('c2', 'disconnect'), ('c3', 'logging', '.', 'warning')],
}


def _conc_run(name, strategy, line_level=True):
    """the requests of different connections run in different threads (interface threads); a disconnect is
    handled outside the dispatcher lock, exactly as RequestHandler.finish does"""
    from .. import detsched as ds
    boot()
    import frappy.protocol.dispatcher as dp
    s = ds.Scheduler(strategy, max_steps=20000,
                     trace_files=('frappy/logging.py', 'frappy/protocol/dispatcher.py') if line_level else ())
    tr = []
    with ds.Patch(dp):
        w = World(['c1', 'c2', 'c3'])
        for c in ('c2', 'c3'):      # sequential prologue: c2 and c3 listen to everything
            a = {'ev': 'logging', 'conn': c, 'target': '.', 'lvl': 'debug'}
            a.update(w.step(a))
            tr.append(a)
        done = []

        def actor(op):
            if op[1] == 'logging':
                a = {'ev': 'logging', 'conn': op[0], 'target': op[2], 'lvl': op[3]}
                try:
                    rep = w.dispatcher.handle_request(w.conns[op[0]], ('logging', op[2], op[3]))
                    a['ok'] = rep[0] == 'logging'
                except ds.SchedAbort:
                    raise
                except Exception:
                    a['ok'] = False
            elif op[1] == 'ident':
                a = {'ev': 'ident', 'conn': op[0]}
                w.dispatcher.handle_request(w.conns[op[0]], ('*IDN?', None, None))
            else:
                a = {'ev': 'disconnect', 'conn': op[0]}
                w.dispatcher.remove_connection(w.conns[op[0]])
            done.append(a)       # completion order = one valid serialisation (the operations commute)
        for k, op in enumerate(CONC[name]):
            s.spawn(f't{k}', actor, op)
        s.run()
        exc = {n: repr(t.exc) for n, t in s.threads.items() if t.exc is not None}
        table = w.level_table()
        for a in done:
            a['level'] = None
            tr.append(a)
        for m in MODS:              # epilogue: what does everybody receive now?
            for lvl in ('debug', 'info', 'error'):
                a = {'ev': 'emit', 'mod': m, 'lvl': lvl}
                a.update(w.step(a))
                tr.append(a)
    # the level table is observed once, after the concurrent phase: attach it to the last concurrent event
    k = 2 + len(done) - 1
    for i, a in enumerate(tr):
        a['haslevel'] = True
        if a.get('level') is None:
            a['level'] = table
            a['haslevel'] = i == k
    return tr, [c for _, c in s.choices], list(s.choices), exc, s.deadlock or s.livelock


def _conc_explore(args):
    name, mode, seed, nruns = args
    from .. import detsched as ds
    out = []
    if mode == 'dfs':
        class Run:
            def __init__(self, r):
                self.tr, self.flat, self.choices, self.exc, self.stuck = r

        for r in ds.explore(lambda st: Run(_conc_run(name, st)), max_preemptions=2, max_runs=nruns, max_depth=400):
            out.append((r.flat, r.tr, r.exc, r.stuck))
    else:
        for k in range(nruns):
            tr, flat, _, exc, stuck = _conc_run(name, ds.RandomStrategy(seed * 7919 + k, stay=0.5 + 0.2 * (k % 3)))
            out.append((flat, tr, exc, stuck))
    return name, out


# ------------------------------------------------------------------ rotation world

DAY0 = 1767225600 + 43200   # 2026-01-01 12:00 UTC


def _fname(root, day):
    return '%s-%s.log' % (root, _time.strftime('%Y-%m-%d', _time.gmtime(DAY0 + (day - 1) * 86400)))


def _run_rotation(case):
    """case: {n, start, days, foreign, steps:[k...]} -> trace of dir listings"""
    boot()
    import mlzlog
    import frappy.logging as fl
    os.environ['TZ'] = 'UTC'
    _time.tzset()
    root = 'node'
    d = tempfile.mkdtemp(prefix='rot-')
    now = [DAY0 + (case['start'] - 1) * 86400]

    class T:
        """clock seen by mlzlog and logging"""
        def __getattr__(self, name):
            return getattr(_time, name)

        def time(self):
            return now[0]

        def localtime(self, t=None):
            return _time.gmtime(now[0] if t is None else t)

        def strftime(self, fmt, t=None):
            return _time.strftime(fmt, _time.gmtime(now[0]) if t is None else t)

    saved = mlzlog.time
    clock = T()
    mlzlog.time = clock
    trace = []
    try:
        sub = os.path.join(d, root)
        os.makedirs(sub)
        for day in case['days']:
            if day != case['start']:
                with open(os.path.join(sub, _fname(root, day)), 'w') as f:
                    f.write('old\n')
        foreign = {'before': '0-before.txt', 'after': 'zz-after.txt', 'ext': _fname(root, 1)[:-4] + '.txt',
                   'prefix': _fname(root + 'x', 1)}
        for pos in case['foreign']:
            with open(os.path.join(sub, foreign[pos]), 'w') as f:
                f.write('x\n')
        h = fl.LogfileHandler(d, root, max_days=case['n'])
        import logging
        rec = lambda: logging.LogRecord('node', 20, __file__, 1, 'line', (), None)

        def listing():
            days, fo, other = [], [], []
            names = {_fname(root, k): k for k in range(1, 40)}
            for nme in sorted(os.listdir(sub)):
                if nme == 'current':
                    continue
                if nme in names:
                    days.append(names[nme])
                elif nme in foreign.values():
                    fo.append([k for k, v in foreign.items() if v == nme][0])
                else:
                    other.append(nme)
            return {'days': days, 'foreign': fo, 'other': other}

        h.emit(rec())   # creates the file of the start day
        trace.append(dict(ev='init', n=case['n'], today=case['start'], **listing()))
        today = case['start']
        for k in case['steps']:
            today += k
            now[0] += k * 86400
            errs = []
            h.handleError = lambda r: errs.append(repr(__import__('sys').exc_info()[1]))
            h.emit(rec())
            e = dict(ev='rollover', k=k, today=today, **listing())
            e['written'] = os.path.exists(os.path.join(sub, _fname(root, today))) and not errs
            if errs:
                e['error'] = errs[0]
            trace.append(e)
        h.close()
    finally:
        mlzlog.time = saved
        shutil.rmtree(d, ignore_errors=True)
    return trace


def run(chk):
    quick = chk.tier == 'quick'
    chk.rule = ('routing: all action sequences of Gen_Logging to the depth bound (2 conns x 2 modules x '
                'levels) replayed on the real dispatcher/handler with state comparison after every step, '
                'plus random histories on 3 connections validated by Trace_Logging; rotation: all initial '
                'directories x retention x foreign files x rollover sequences of LogRotation executed on '
                'the real LogfileHandler and validated by Trace_LogRotation. A case is distinct by its '
                'action sequence / initial directory; non-trivial = contains at least one emit with an '
                'enabled subscription or a rollover that may delete')
    for m in ('Logging', 'LogRotation', 'Gen_Logging', 'Trace_Logging', 'Gen_LogRotation', 'Trace_LogRotation'):
        sany(m)
    import time as _t
    _t0 = _t.time()
    stage = {}
    # 1 design check
    chk.add_tlc(model_check('Logging', 'MC_Logging_quick.cfg' if quick else 'MC_Logging_thorough.cfg', timeout=900))
    if not quick:
        chk.add_tlc(model_check('Logging', 'MC_Logging_levels.cfg', timeout=900))      # all six levels, two connections
    chk.add_tlc(model_check('LogRotation', 'MC_LogRotation.cfg', timeout=300))

    stage['design'] = round(_t.time() - _t0, 1)
    # 2 spec -> code, routing
    r, behs = emit_behaviours('Gen_Logging', 'Gen_Logging_quick.cfg' if quick else 'Gen_Logging_thorough.cfg',
                              maximal_only=False, timeout=900)
    chk.add_tlc(r)
    if quick:
        # the quick tier replays every third behaviour (offset by the seed); thorough replays all, over four levels,
        # plus simulated behaviours of depth 6 (the exhaustive set of depth 4 has 2.3 million members)
        behs = behs[chk.seed % 3::3]
        chk.notes['routing_behaviours_sampled'] = '1 of 3'
    else:
        r2, deep = emit_behaviours('Gen_Logging', 'Gen_Logging_sim.cfg', maximal_only=False, timeout=900,
                                   simulate='num=20000', depth=7, seed=chk.seed + 1, workers=1)
        chk.add_tlc(r2)
        behs = behs + deep
        chk.notes['routing_behaviours_simulated_depth6'] = len(deep)
    res = pool_map(_replay_routing, behs)
    for beh, bad in zip(behs, res):
        chk.impl_traces += 1
        acts = [{k: v for k, v in s.items() if k != 'exp'} for s in beh]
        nontriv = any(s['act'] == 'emit' and s['exp']['last']['to'] for s in beh)
        chk.case(json.dumps(acts, sort_keys=True), nontriv)
        if bad:
            sig = {'module': 'Logging', 'action': bad['action']['act'],
                   'diff': sorted(k for k in bad['expected'] if bad['expected'][k] != bad['observed'].get(k))}
            chk.violation(sig, {'behaviour': acts, **bad})
    if behs:
        chk.sample({'routing_behaviour': behs[len(behs) // 2]})

    stage['replay'] = round(_t.time() - _t0, 1)
    # 3 code -> spec, routing
    n = 300 if quick else 3000
    traces = pool_map(_random_trace, [(chk.seed * 100003 + i, 40) for i in range(n)])
    verdicts, st, tr = validate_traces('Trace_Logging', traces, 'Trace_Logging.cfg')
    chk.states += st
    chk.transitions += tr
    for i, v in verdicts.items():
        chk.impl_traces += 1
        chk.case('rt%d' % i, True)
        if v is not None:
            l = v[0]
            ev = traces[i][l - 1] if 0 < l <= len(traces[i]) else None
            chk.violation({'module': 'Logging', 'trace_event': (ev or {}).get('ev'), 'clause': v[1]},
                          {'trace': traces[i], 'failed_at': l, 'event': ev})
    chk.sample({'routing_trace_prefix': traces[0][:4]})

    stage['random'] = round(_t.time() - _t0, 1)
    # 3b concurrent connections: requests in different threads, disconnect outside the dispatcher lock,
    #    every source line of logging.py / dispatcher.py a possible preemption point
    jobs = []
    for name in CONC:
        jobs.append((name, 'dfs', chk.seed, 120 if quick else 3000))
        jobs.append((name, 'rnd', chk.seed + 1, 60 if quick else 2000))
    ctraces, corigin, seen = [], [], set()
    for name, out in pool_map(_conc_explore, jobs, chunksize=1):
        for flat, tr, exc, stuck in out:
            if (name, tuple(flat)) in seen:
                continue
            seen.add((name, tuple(flat)))
            if exc or stuck:
                chk.violation({'module': 'Logging', 'concurrent': name, 'kind': 'exception' if exc else 'stuck',
                               'exc': sorted(exc.values())[0][:60] if exc else ''},
                              {'conc': name, 'choices': flat, 'exceptions': exc})
                continue
            ctraces.append(tr)
            corigin.append((name, flat))
    verdicts, st, tr_ = validate_traces('Trace_Logging', ctraces, 'Trace_Logging.cfg')
    chk.states += st
    chk.transitions += tr_
    for i, v in verdicts.items():
        chk.impl_traces += 1
        chk.case(('conc',) + (corigin[i][0], tuple(corigin[i][1])), len(set(corigin[i][1])) > 1)
        if v is not None:
            l = v[0]
            ev = ctraces[i][l - 1] if 0 < l <= len(ctraces[i]) else {}
            chk.violation({'module': 'Logging', 'concurrent': corigin[i][0], 'trace_event': ev.get('ev')},
                          {'conc': corigin[i][0], 'choices': corigin[i][1], 'trace': ctraces[i], 'failed_at': l})
    chk.notes['concurrent_schedules'] = len(ctraces)

    stage['conc'] = round(_t.time() - _t0, 1)
    # 4 rotation: spec -> code cases, judged by the trace spec
    r, behs = emit_behaviours('Gen_LogRotation', 'Gen_LogRotation_quick.cfg' if quick else 'Gen_LogRotation_thorough.cfg',
                              maximal_only=False, timeout=600)
    chk.add_tlc(r)
    cases = {}
    for b in behs:
        c = {'n': b['n'], 'start': b['start'], 'days': sorted(b['days']), 'foreign': sorted(b['foreign']),
             'steps': b['steps']}
        cases[json.dumps(c, sort_keys=True)] = c
    # code -> spec additions: random bigger directories
    rnd = random.Random(chk.seed + 7)
    for _ in range(100 if quick else 2000):
        start = rnd.randint(2, 12)
        c = {'n': rnd.randint(0, 6), 'start': start,
             'days': sorted(set(rnd.sample(range(1, start), rnd.randint(0, start - 1))) | {start}),
             'foreign': sorted(rnd.sample(['before', 'after', 'ext', 'prefix'], rnd.randint(0, 4))),
             'steps': [rnd.randint(1, 3) for _ in range(rnd.randint(1, 4))]}
        cases[json.dumps(c, sort_keys=True)] = c
    cases = list(cases.values())
    traces = pool_map(_run_rotation, cases)
    verdicts, st, tr = validate_traces('Trace_LogRotation', traces, 'Trace_LogRotation.cfg')
    chk.states += st
    chk.transitions += tr
    for i, v in verdicts.items():
        chk.impl_traces += 1
        c = cases[i]
        chk.case(json.dumps(c, sort_keys=True), c['n'] > 0 and len(c['days']) >= c['n'])
        if v is not None:
            l = v[0]
            ev = traces[i][l - 1] if 0 < l <= len(traces[i]) else None
            prev = traces[i][l - 2] if l >= 2 else None
            kind = 'unknown'
            if ev and prev:
                before = set(prev['days']) - {ev['today']}
                kept = set(ev['days']) - {ev['today']}
                if ev.get('error'):
                    kind = 'rollover raised'
                elif ev['today'] not in ev['days']:
                    kind = 'current file removed'
                elif any(r > q for r in before - kept for q in kept):
                    kind = 'newer removed while older kept'
                elif c['n'] == 0 and before - kept:
                    kind = 'removed although retention is 0'
                else:
                    kind = 'too few kept'
            chk.violation({'module': 'LogRotation', 'kind': kind,
                           'foreign_after': 'after' in c['foreign']},
                          {'case': c, 'trace': traces[i], 'failed_at': l})
    chk.sample({'rotation_trace': traces[len(traces) // 3]})
    stage['rotation'] = round(_t.time() - _t0, 1)
    chk.notes['wall_until_end_of_stage'] = stage
    chk.exhaustive = False


def replay(chk, rep):
    d = rep['detail']
    if 'behaviour' in d:
        beh = d['behaviour']
        w = World(sorted({s['conn'] for s in beh if 'conn' in s} | {'c1', 'c2'}))
        for s in beh:
            print(s, '->', w.step(s))
        print('expected at step', d['step'], ':', d['expected'])
    elif 'case' in d:
        for e in _run_rotation(d['case']):
            print(e)
    elif 'conc' in d:
        from .. import detsched as ds
        for e in _conc_run(d['conc'], ds.GuidedStrategy(d['choices']))[0]:
            print(e)
    else:
        print(json.dumps(d, indent=1))
    return 0
