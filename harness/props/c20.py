"""C20 - Logging: exact per-connection routing, rotation keeps the newest files.

spec/Logging.tla, spec/LogRotation.tla.  Binding:
  spec -> code : every behaviour of Gen_Logging (exhaustive to depth D) is replayed on a real
                 Dispatcher + Modules + RemoteLogHandler, state compared after every step;
                 the local sinks (console, main / node log file, comlog files) over the configuration
                 alphabet are replayed on a real MainLogger().init in a temporary logdir with the node
                 logger made as Server makes it, a real Communicator (HasComlog) and a patched clock;
                 every rotation behaviour of Gen_LogRotation is executed on the real
                 LogfileHandler in a temporary directory.
  code -> spec : random long histories / random directories are recorded and validated by
                 Trace_Logging / Trace_LogRotation (TLC).
"""
import json
import zlib
import os
import random
import shutil
import tempfile
import time as _time

from ..core import (MachineryError, emit_behaviours, model_check, pool_map, run_parallel, run_tlc, sany,
                    validate_traces)
from ..env import Conn, LoggerStub, boot

META = {
    'text': 'TLC model-checks the routing table design (all interleavings of logging/emit/ident/disconnect on 2-3 '
            'connections) and the rotation rule; every depth-bounded behaviour TLC enumerates is replayed on the real '
            'Dispatcher + RemoteLogHandler with the level table and the set of receivers compared after each step, and '
            'recorded random histories / directory listings of the real LogfileHandler are validated by TLC against '
            'Trace_Logging / Trace_LogRotation. The local sinks of a record (console, log file of the main logger and of '
            'the node, comlog file of a communicator; retention per sink) are specified in the same module over the '
            'configuration alphabet logfile_level / console level / comlog switches / retention days and bound the same '
            'two ways on the real MainLogger, LogfileHandler.getChild, HasComlog and ComLogfileHandler. '
            'Bounded (depth, 3 connections, 2 modules, 4 days), exhaustive inside the bound.',
    'note': 'Trusted: TLC; the small alpha/gamma glue in harness/props/c20.py (fake connections, patched clock of '
            'mlzlog, captured console stream, classification of the files below the temporary logdir); numeric level values '
            'and unknown module names in logging requests are outside the alphabet; an empty logdir together with '
            'comlog (reachable with testinit only) and a second Server of the same name in one process are not explored.',
    'tech': 'TLA+ spec (Logging.tla, LogRotation.tla) + TLC model checking; spec->code replay of all TLC behaviours; '
            'code->spec TLC trace validation',
    'ref': 'DESIGN.md section 5 C20',
}

LEVELNO = {'debug': 10, 'comlog': 15, 'info': 20, 'warning': 30, 'error': 40}
MODS = ['m1', 'm2']
TMPBASE = '/dev/shm' if os.access('/dev/shm', os.W_OK | os.X_OK) else None     # thousands of small directory trees


# ------------------------------------------------------------------ routing world

class World:
    """real dispatcher, two real modules with a real RemoteLogHandler"""
    count = 0

    def __init__(self, conns):
        boot()
        import mlzlog
        from frappy.logging import RemoteLogHandler
        from frappy.modules import Module
        from frappy.protocol.dispatcher import Dispatcher

        World.count += 1
        root = mlzlog.MLZLogger('verif%d_%d' % (os.getpid(), World.count))
        root.setLevel(10)
        root.handlers[:] = []
        root.propagate = False
        self.handler = RemoteLogHandler()
        root.addHandler(self.handler)

        class SecNode:
            def __init__(self):
                self.modules = {}
                self.export = []
                self.name = ''

            def get_module(self, n):
                return self.modules[n]

        class Srv:
            restart = shutdown = None
            secnode = SecNode()

        srv = Srv()
        srv.secnode = SecNode()
        srv.dispatcher = self.dispatcher = Dispatcher('d', LoggerStub(), {}, srv)

        class Mod(Module):
            def earlyInit(self):
                pass

        self.mods = {}
        for m in MODS:
            # m2 is not exported: log routing (and its reset on off / *IDN? / disconnect) does not depend on that
            o = Mod(m, root.getChild(m), {'description': '', 'export': m != 'm2'}, srv)
            srv.secnode.modules[m] = o
            self.mods[m] = o
        self.conns = {c: Conn(c, self.dispatcher) for c in conns}

    def level_table(self):
        subs = self.handler.subscriptions
        return {m: {c: subs.get(m, {}).get(conn, 99) for c, conn in self.conns.items()} for m in MODS}

    def step(self, a):
        """execute one abstract action, return observation in the spec's vocabulary"""
        for c in self.conns.values():
            del c.msgs[:]
        act = a.get('act') or a.get('ev')
        obs = {}
        if act == 'logging':
            conn = self.conns[a['conn']]
            try:
                rep = self.dispatcher.handle_request(conn, ('logging', a['target'], a.get('wire', a['lvl'])))
                obs['ok'] = rep[0] == 'logging'
            except Exception:  # the request handler turns any exception into an error reply
                obs['ok'] = False
        elif act == 'emit':
            self.mods[a['mod']].log.log(LEVELNO[a['lvl']], 'msg %s', a['lvl'])
            to = []
            for name, c in self.conns.items():
                n = [m for m in c.msgs if m[0] == 'log']
                bad = [m for m in n if m[1] != f"{a['mod']}:{a['lvl']}"]
                if bad:
                    to.append(name + '!wrong:' + bad[0][1])
                elif len(n) == 1:
                    to.append(name)
                elif len(n) > 1:
                    to.append(name + '!dup')
            obs['to'] = sorted(to)
        elif act == 'ident':
            self.dispatcher.handle_request(self.conns[a['conn']], ('*IDN?', None, None))
        elif act == 'disconnect':
            self.dispatcher.remove_connection(self.conns[a['conn']])
        obs['level'] = self.level_table()
        return obs


def _expected(step):
    e = step['exp']
    obs = {'level': e['level']}
    if step['act'] == 'logging':
        obs['ok'] = e['last']['ok']
    elif step['act'] == 'emit':
        obs['to'] = sorted(e['last']['to'])
    return obs


def _replay_routing(beh):
    conns = sorted({s['conn'] for s in beh if 'conn' in s} | {'c1', 'c2'})
    w = World(conns)
    for i, st in enumerate(beh):
        got = w.step(st)
        exp = _expected(st)
        exp['level'] = {m: {c: exp['level'][m][c] for c in conns} for m in MODS}
        if got != exp:
            return {'step': i, 'action': {k: v for k, v in st.items() if k != 'exp'},
                    'expected': exp, 'observed': got}
    return None


def _random_trace(seed_n):
    seed, n = seed_n
    rnd = random.Random(seed)
    conns = ['c1', 'c2', 'c3']
    w = World(conns)
    alive = set(conns)
    tr = []
    for _ in range(n):
        r = rnd.random()
        if r < 0.4 and alive:
            a = {'ev': 'logging', 'conn': rnd.choice(sorted(alive)), 'target': rnd.choice(MODS + ['.']),
                 'lvl': rnd.choice(list(LEVELNO) + ['off', 'off', 'bogus'])}
            spell = rnd.random()      # the same level spelled in upper case or as its number
            if spell < 0.15:
                a['wire'] = a['lvl'].upper()
            elif spell < 0.3:
                from frappy.logging import LOG_LEVELS
                a['wire'] = LOG_LEVELS.get(a['lvl'], 25)
        elif r < 0.85:
            a = {'ev': 'emit', 'mod': rnd.choice(MODS), 'lvl': rnd.choice(list(LEVELNO))}
        elif r < 0.95 and alive:
            a = {'ev': 'ident', 'conn': rnd.choice(sorted(alive))}
        elif alive and len(alive) > 1:
            a = {'ev': 'disconnect', 'conn': rnd.choice(sorted(alive))}
            alive.discard(a['conn'])
        else:
            continue
        a.update(w.step(a))
        a['haslevel'] = True
        tr.append(a)
    return tr


# ------------------------------------------------------------------ concurrent requests / disconnects

CONC = {
    'logging_vs_disconnect': [('c1', 'logging', 'm1', 'info'), ('c2', 'disconnect')],
    'logging_vs_ident': [('c1', 'logging', '.', 'error'), ('c2', 'ident')],
    'two_logging': [('c1', 'logging', 'm1', 'debug'), ('c2', 'logging', 'm1', 'off')],
    'three': [('c1', 'logging', 'm2', 'info'), ('c2', 'disconnect'), ('c3', 'logging', '.', 'warning')],
    # the LAST subscriber of a module leaves while another connection subscribes to it
    'last_leaves_vs_logging': [('c2', 'disconnect'), ('c1', 'logging', 'm1', 'debug')],
    'last_ident_vs_logging': [('c2', 'ident'), ('c1', 'logging', '.', 'info'), ('c3', 'logging', 'm2', 'debug')],
    'last_off_vs_logging': [('c2', 'logging', 'm1', 'off'), ('c1', 'logging', 'm1', 'warning')],
}
# who listens to everything before the concurrent phase (default: c2 and c3)
PROLOGUE = {'last_leaves_vs_logging': ('c2',), 'last_ident_vs_logging': ('c2',), 'last_off_vs_logging': ('c2',)}


def _conc_run(name, strategy, line_level=True):
    """the requests of different connections run in different threads (interface threads); a disconnect is
    handled outside the dispatcher lock, exactly as RequestHandler.finish does"""
    from .. import detsched as ds
    boot()
    import frappy.protocol.dispatcher as dp
    s = ds.Scheduler(strategy, max_steps=20000,
                     trace_files=('frappy/logging.py', 'frappy/protocol/dispatcher.py') if line_level else ())
    tr = []
    with ds.Patch(dp):
        w = World(['c1', 'c2', 'c3'])
        for c in PROLOGUE.get(name, ('c2', 'c3')):      # sequential prologue: c2 and c3 listen to everything
            a = {'ev': 'logging', 'conn': c, 'target': '.', 'lvl': 'debug'}
            a.update(w.step(a))
            tr.append(a)
        done = []

        def actor(op):
            if op[1] == 'logging':
                a = {'ev': 'logging', 'conn': op[0], 'target': op[2], 'lvl': op[3]}
                try:
                    rep = w.dispatcher.handle_request(w.conns[op[0]], ('logging', op[2], op[3]))
                    a['ok'] = rep[0] == 'logging'
                except ds.SchedAbort:
                    raise
                except Exception:
                    a['ok'] = False
            elif op[1] == 'ident':
                a = {'ev': 'ident', 'conn': op[0]}
                w.dispatcher.handle_request(w.conns[op[0]], ('*IDN?', None, None))
            else:
                a = {'ev': 'disconnect', 'conn': op[0]}
                w.dispatcher.remove_connection(w.conns[op[0]])
            done.append(a)       # completion order = one valid serialisation (the operations commute)
        for k, op in enumerate(CONC[name]):
            s.spawn(f't{k}', actor, op)
        s.run()
        exc = {n: repr(t.exc) for n, t in s.threads.items() if t.exc is not None}
        table = w.level_table()
        for a in done:
            a['level'] = None
            tr.append(a)
        for m in MODS:              # epilogue: what does everybody receive now?
            for lvl in ('debug', 'info', 'error'):
                a = {'ev': 'emit', 'mod': m, 'lvl': lvl}
                a.update(w.step(a))
                tr.append(a)
    # the level table is observed once, after the concurrent phase: attach it to the last concurrent event
    k = len(PROLOGUE.get(name, ('c2', 'c3'))) + len(done) - 1
    for i, a in enumerate(tr):
        a['haslevel'] = True
        if a.get('level') is None:
            a['level'] = table
            a['haslevel'] = i == k
    return tr, [c for _, c in s.choices], list(s.choices), exc, s.deadlock or s.livelock


def _conc_explore(args):
    name, mode, seed, nruns = args
    from .. import detsched as ds
    out = []
    if mode == 'dfs':
        class Run:
            def __init__(self, r):
                self.tr, self.flat, self.choices, self.exc, self.stuck = r

        for r in ds.explore(lambda st: Run(_conc_run(name, st)), max_preemptions=2, max_runs=nruns, max_depth=400):
            out.append((r.flat, r.tr, r.exc, r.stuck))
    else:
        for k in range(nruns):
            tr, flat, _, exc, stuck = _conc_run(name, ds.RandomStrategy(seed * 7919 + k, stay=0.5 + 0.2 * (k % 3)))
            out.append((flat, tr, exc, stuck))
    return name, out


# ------------------------------------------------------------------ rotation world

DAY0 = 1767225600 + 43200   # 2026-01-01 12:00 UTC


def _fname(root, day):
    return '%s-%s.log' % (root, _time.strftime('%Y-%m-%d', _time.gmtime(DAY0 + (day - 1) * 86400)))


def _run_rotation(case):
    """case: {n, start, days, foreign, steps:[k...]} -> trace of dir listings"""
    boot()
    import mlzlog
    import frappy.logging as fl
    os.environ['TZ'] = 'UTC'
    _time.tzset()
    root = 'node'
    d = tempfile.mkdtemp(prefix='rot-', dir=TMPBASE)
    now = [DAY0 + (case['start'] - 1) * 86400]

    class T:
        """clock seen by mlzlog and logging"""
        def __getattr__(self, name):
            return getattr(_time, name)

        def time(self):
            return now[0]

        def localtime(self, t=None):
            return _time.gmtime(now[0] if t is None else t)

        def strftime(self, fmt, t=None):
            return _time.strftime(fmt, _time.gmtime(now[0]) if t is None else t)

    saved = mlzlog.time
    clock = T()
    mlzlog.time = clock
    trace = []
    try:
        sub = os.path.join(d, root)
        os.makedirs(sub)
        for day in case['days']:
            if day != case['start']:
                with open(os.path.join(sub, _fname(root, day)), 'w') as f:
                    f.write('old\n')
        foreign = {'before': '0-before.txt', 'after': 'zz-after.txt', 'ext': _fname(root, 1)[:-4] + '.txt',
                   'prefix': _fname(root + 'x', 1)}
        for pos in case['foreign']:
            with open(os.path.join(sub, foreign[pos]), 'w') as f:
                f.write('x\n')
        # "newest" means newest by the date in the NAME: the modification times of the files present tell nothing
        # (files restored from a backup, an old file saved again ...): vary them against the name order
        present = sorted(os.listdir(sub))
        mode = zlib.crc32(json.dumps(case, sort_keys=True).encode()) % 3
        if mode:
            order = present if mode == 1 else present[::2] + present[1::2]
            for k, nme in enumerate(order):      # mode 1: the older the name, the newer the time stamp
                ts = 1.7e9 + (len(order) - k) * 86400.0
                os.utime(os.path.join(sub, nme), (ts, ts))
        h = fl.LogfileHandler(d, root, max_days=case['n'])
        import logging
        rec = lambda: logging.LogRecord('node', 20, __file__, 1, 'line', (), None)

        def listing():
            days, fo, other = [], [], []
            names = {_fname(root, k): k for k in range(1, 40)}
            for nme in sorted(os.listdir(sub)):
                if nme == 'current':
                    continue
                if nme in names:
                    days.append(names[nme])
                elif nme in foreign.values():
                    fo.append([k for k, v in foreign.items() if v == nme][0])
                else:
                    other.append(nme)
            return {'days': days, 'foreign': fo, 'other': other}

        h.emit(rec())   # creates the file of the start day
        trace.append(dict(ev='init', n=case['n'], today=case['start'], **listing()))
        today = case['start']
        for k in case['steps']:
            today += k
            now[0] += k * 86400
            errs = []
            h.handleError = lambda r: errs.append(repr(__import__('sys').exc_info()[1]))
            h.emit(rec())
            e = dict(ev='rollover', k=k, today=today, **listing())
            e['written'] = os.path.exists(os.path.join(sub, _fname(root, today))) and not errs
            if errs:
                e['error'] = errs[0]
            trace.append(e)
        h.close()
    finally:
        mlzlog.time = saved
        shutil.rmtree(d, ignore_errors=True)
    return trace


# ------------------------------------------------------------------ local sinks world

LEVELNAME = {'debug': 'DEBUG', 'comlog': 'COMLOG', 'info': 'INFO', 'warning': 'WARNING', 'error': 'ERROR'}
NODE = 'node'
COMMODS = ['m1']


def _root(cfg):
    """the name of the main logger is not part of the specification: two concrete values"""
    return 'secop' if cfg['con'] == 'error' else 'frappy'


def _gen_config(cfg, logdir):
    """gamma: the abstract configuration as generalConfig keys (values as a config file gives them: strings)"""
    gc = {'omit_unchanged_within': 0}
    if _root(cfg) != 'frappy':                                      # 'frappy' is the default
        gc['logger_root'] = _root(cfg)
    if cfg['file'] == 'nodir':
        gc['logdir'] = ''
    else:
        gc['logdir'] = logdir
        if not (cfg['file'] == 'info' and cfg['con'] != 'info'):     # 'info' is also the default
            gc['logfile_level'] = cfg['file']
    if cfg['fdays']:
        gc['logfile_days'] = str(cfg['fdays'])
    elif cfg['cdays'] != 7:
        gc['logfile_days'] = '0'                                    # else: not configured = unlimited
    if cfg['cdays'] != 7:
        gc['comlog_days'] = str(cfg['cdays'])                       # 7 is the default
    # the switch as python value or as the text a config file gives
    if cfg['gcomlog']:
        gc['comlog'] = 'True' if cfg['file'] == 'error' else True
    elif not cfg['mcomlog']:
        gc['comlog'] = False
    elif cfg['file'] in TEXT_OFF:
        gc['comlog'] = TEXT_OFF[cfg['file']]                        # else: not configured = off
    return gc


TEXT_OFF = {'error': 'False', 'debug': '0'}


def _text_off(cfg):
    """is the comlog switch of this configuration off and spelled as text?"""
    return not cfg['gcomlog'] and cfg['mcomlog'] and cfg['file'] in TEXT_OFF


class SinkWorld:
    """a real MainLogger().init on a temporary logdir, the node's logger made as frappy.server.Server makes it
    (own directory, RemoteLogHandler installed by init_remote_logging), a real dispatcher, module loggers as the
    SecNode makes them, communicators using HasComlog; the clock of mlzlog is stepped in days.
    close() restores every piece of global state touched."""

    def __init__(self, cfg, mods, conns):
        boot()
        import io
        import logging
        import sys
        import mlzlog
        import frappy.logging as fl
        from frappy.lib import generalConfig
        from frappy.protocol.dispatcher import Dispatcher

        os.environ['TZ'] = 'UTC'
        _time.tzset()
        self.cfg = cfg
        self.root = _root(cfg)
        self.modnames = list(mods)
        self.fl = fl
        self.dir = tempfile.mkdtemp(prefix='sink-', dir=TMPBASE)
        self.logdir = os.path.join(self.dir, 'log')
        self.cwd = os.path.join(self.dir, 'cwd')          # a relative path would show up here
        os.makedirs(self.cwd)
        self.now = now = [DAY0]
        self.day = 1
        self.stepno = 0
        self.errors = []
        self.cur = None

        class T:
            """clock seen by mlzlog"""
            def __getattr__(self, name):
                return getattr(_time, name)

            def time(self):
                return now[0]

            def localtime(self, t=None):
                return _time.gmtime(now[0] if t is None else t)

            def strftime(self, fmt, t=None):
                return _time.strftime(fmt, _time.gmtime(now[0]) if t is None else t)

        self.saved = dict(mlzlog_time=mlzlog.time, mlzlog_log=mlzlog.log, logger=fl.logger,
                          gc_config=generalConfig._config, gc_defaults=generalConfig.defaults,
                          logger_class=logging.getLoggerClass(), cwd=os.getcwd(),
                          loggers=set(logging.Logger.manager.loggerDict))
        os.chdir(self.cwd)
        mlzlog.time = T()
        gc = _gen_config(cfg, self.logdir)
        if cfg['ginit']:
            generalConfig.testinit(**gc)
        else:       # nothing configured (generalConfig.initialized is False): everything comes from set_default()
            generalConfig.testinit()
            generalConfig.defaults = dict(self.saved['gc_defaults'], **gc)
        self.console = io.StringIO()
        self.main = fl.MainLogger()
        fl.logger = self.main                 # HasComlog takes logdir and root name from this singleton
        so = sys.stdout
        sys.stdout = self.console             # ColoredConsoleHandler binds sys.stdout when it is created
        try:
            self.main.init(cfg['con'])
        finally:
            sys.stdout = so
        self.nodelog = self.main.log.getChild(NODE, True)      # frappy/server.py:102
        fl.init_remote_logging(self.nodelog)                    # frappy/server.py:105
        self.handler = [h for h in self.nodelog.handlers if isinstance(h, fl.RemoteLogHandler)][0]

        class SecNode:
            def __init__(self):
                self.modules = {}
                self.export = []
                self.name = NODE

            def get_module(self, n):
                return self.modules[n]

        class Srv:
            restart = shutdown = None

        self.srv = srv = Srv()
        srv.secnode = SecNode()
        srv.dispatcher = self.dispatcher = Dispatcher('d', LoggerStub(), {}, srv)
        self.generations = []
        self.mods = {}
        self.make_modules()
        self.conns = {c: Conn(c, self.dispatcher) for c in conns}
        self.seen = self.scan()

    def make_modules(self):
        """what SecNode.get_module does for every module (also again after a restart of the node)"""
        from frappy.modules import Communicator, Module

        class Com(Communicator):
            def communicate(self, command):
                self.comLog('> %s', command)
                return ''

        for m in self.modnames:
            cls = Com if m in COMMODS else Module
            opts = {'description': '', 'export': m != 'm2'}
            if m in COMMODS and not (self.cfg['mcomlog'] and self.cfg['gcomlog']):
                opts['comlog'] = self.cfg['mcomlog']         # else: the default of the property (True)
            o = cls(m, self.nodelog.getChild(m), opts, self.srv)     # frappy/secnode.py:167 (log.parent = node logger)
            o.earlyInit()
            self.srv.secnode.modules[m] = o
            self.mods[m] = o
            self.generations.append(o)

    def close(self):
        import logging
        import mlzlog
        from frappy.lib import generalConfig
        hs = list(self.main.log.handlers) + list(self.nodelog.handlers)
        for o in self.generations:
            if getattr(o, '_comLog', None):
                hs += o._comLog.handlers
        for h in hs:
            try:
                h.close()
            except Exception:
                pass
        ld = logging.Logger.manager.loggerDict
        for name in set(ld) - self.saved['loggers']:
            del ld[name]
        mlzlog.time = self.saved['mlzlog_time']
        mlzlog.log = self.saved['mlzlog_log']
        self.fl.logger = self.saved['logger']
        generalConfig._config = self.saved['gc_config']
        generalConfig.defaults = self.saved['gc_defaults']
        logging.setLoggerClass(self.saved['logger_class'])
        os.chdir(self.saved['cwd'])
        shutil.rmtree(self.dir, ignore_errors=True)

    # -- alpha
    def level_table(self):
        subs = self.handler.subscriptions
        return {m: {c: subs.get(m, {}).get(conn, 99) for c, conn in self.conns.items()} for m in self.modnames}

    def scan(self):
        """{(sink, day): lines} for everything below the temporary directory; a file that is not one of the specified
        sinks is reported under its path"""
        names = {_time.strftime('%Y-%m-%d', _time.gmtime(DAY0 + (k - 1) * 86400)): k for k in range(1, 12)}
        where = {os.path.join('log', self.root): 'main', os.path.join('log', self.root, NODE): 'node'}
        prefix = {'main': self.root, 'node': NODE}
        for m in COMMODS:
            where[os.path.join('log', self.root, 'comlog', NODE, m)] = m
            prefix[m] = m
        res = {'console': self.console.getvalue().splitlines()}
        for dp, _, fns in os.walk(self.dir):
            rel = os.path.relpath(dp, self.dir)
            for fn in fns:
                p = os.path.join(dp, fn)
                if os.path.islink(p):
                    continue            # 'current'
                sink = where.get(rel)
                day = None
                if sink and fn.startswith(prefix[sink] + '-') and fn.endswith('.log'):
                    day = names.get(fn[len(prefix[sink]) + 1:-4])
                with open(p, encoding='utf-8', errors='replace') as f:
                    lines = f.read().splitlines()
                res[(sink, day) if day else 'stray:' + os.path.join(rel, fn)] = lines
        return res

    def observe_sinks(self, logname, lvl, msg, comline):
        """which sinks got exactly the expected line since the last look"""
        import re
        cur = self.cur = self.scan()
        sinks = []
        for key, lines in sorted(cur.items(), key=str):
            new = lines[len(self.seen.get(key, ())):]
            if not new:
                continue
            if isinstance(key, str) and key.startswith('stray:'):
                sinks.append(key)
                continue
            name = key if key == 'console' else key[0]
            if name != 'console' and key[1] != self.day:
                name += '!day%d' % key[1]
            if len(new) > 1:
                name += '!dup'
            elif name == 'console':
                if not (logname in new[0] and msg in new[0]):
                    name += '!content:' + new[0]
            elif key[0] in COMMODS:
                if not re.fullmatch(r'\d\d:\d\d:\d\d,\d{3} ' + re.escape(comline or '\0'), new[0]):
                    name += '!content:' + new[0]
            elif not re.fullmatch(r'\d\d:\d\d:\d\d,\d{3} : ' + re.escape('%-7s : %-15s: %s' % (LEVELNAME[lvl], logname, msg)),
                                  new[0]):
                name += '!content:' + new[0]
            sinks.append(name)
        self.seen = cur
        return sorted(sinks)

    def dated(self):
        cur = self.cur or self.scan()
        res = {f: [] for f in ['main', 'node'] + COMMODS}
        for key, lines in cur.items():
            if isinstance(key, tuple):                # also an empty one: a file is made by its first line only
                res[key[0]].append(key[1])
            elif isinstance(key, str) and key.startswith('stray:'):
                res.setdefault('stray', []).append(key[6:])
        return {f: sorted(v) for f, v in res.items()}

    def received(self, mod, lvl):
        to = []
        for name, c in self.conns.items():
            n = [m for m in c.msgs if m[0] == 'log']
            bad = [m for m in n if m[1] != f'{mod}:{lvl}']
            if bad:
                to.append(name + '!wrong:' + bad[0][1])
            elif len(n) == 1:
                to.append(name)
            elif len(n) > 1:
                to.append(name + '!dup')
        return sorted(to)

    def step(self, a):
        """execute one abstract action, return the observation in the spec's vocabulary; what the logging package
        reports about failing handlers on stderr is kept in self.errors (it is not part of the observation)"""
        import io
        import sys
        se = sys.stderr
        sys.stderr = buf = io.StringIO()
        try:
            return self._step(a)
        finally:
            sys.stderr = se
            if buf.getvalue():
                self.errors.append([ln for ln in buf.getvalue().splitlines() if ln[:1].isalpha() and 'Error' in ln][-1:])

    def _step(self, a):
        for c in self.conns.values():
            del c.msgs[:]
        self.stepno += 1
        self.cur = None
        act = a.get('act') or a.get('ev')
        obs = {}
        if act == 'logging':
            try:
                rep = self.dispatcher.handle_request(self.conns[a['conn']], ('logging', a['target'], a.get('wire', a['lvl'])))
                obs['ok'] = rep[0] == 'logging'
            except Exception:
                obs['ok'] = False
        elif act == 'emit':
            msg = 'E%d %s' % (self.stepno, a['lvl'])
            self.mods[a['mod']].log.log(LEVELNO[a['lvl']], 'E%d %s', self.stepno, a['lvl'])
            obs['to'] = self.received(a['mod'], a['lvl'])
            obs['sinks'] = self.observe_sinks('%s.%s.%s' % (self.root, NODE, a['mod']), a['lvl'], msg, None)
        elif act == 'mainemit':
            msg = 'M%d %s' % (self.stepno, a['lvl'])
            self.main.log.log(LEVELNO[a['lvl']], 'M%d %s', self.stepno, a['lvl'])
            obs['sinks'] = self.observe_sinks(self.root, a['lvl'], msg, None)
            got = [n for n, c in self.conns.items() if c.msgs]
            if got:
                obs['sinks'].append('remote!' + ','.join(got))
        elif act == 'comlog':
            cmd = 'x%d' % self.stepno
            self.mods[a['mod']].communicate(cmd)
            obs['to'] = self.received(a['mod'], 'comlog')
            obs['sinks'] = self.observe_sinks('%s.%s.%s' % (self.root, NODE, a['mod']), 'comlog', '> ' + cmd, '> ' + cmd)
        elif act == 'nextday':
            self.now[0] += 86400
            self.day += 1
        elif act == 'reinit':
            self.make_modules()
        elif act == 'ident':
            self.dispatcher.handle_request(self.conns[a['conn']], ('*IDN?', None, None))
        elif act == 'disconnect':
            self.dispatcher.remove_connection(self.conns[a['conn']])
        elif act != 'boot':
            raise ValueError(act)
        obs['level'] = self.level_table()
        obs['day'] = self.day
        obs['dated'] = self.dated()
        return obs

    def install(self, table):
        """bring the subscription table into the given (uniform) initial state through ordinary requests"""
        for m, row in table.items():
            for c, v in row.items():
                if v != 99:
                    self.dispatcher.handle_request(self.conns[c], ('logging', m, v))


def _sink_expected(step):
    e = step['exp']
    obs = {'level': e['level'], 'day': e['day'], 'dated': {f: sorted(v) for f, v in e['dated'].items()}}
    if step['act'] == 'logging':
        obs['ok'] = e['last']['ok']
    elif step['act'] in ('emit', 'comlog'):
        obs['to'] = sorted(e['last']['to'])
    if step['act'] in ('emit', 'comlog', 'mainemit'):
        obs['sinks'] = sorted(e['last']['sinks'])
    return obs


def _virgin_loss(beh, upto):
    """spec-side bookkeeping for the signature only: is step `upto` a record for a file sink whose handler has not
    written since it was created on an earlier day?"""
    born = {}
    day = 1
    for i, st in enumerate(beh[:upto + 1]):
        sinks = st['exp']['last'].get('sinks', [])
        if i == upto:
            return any(born.get(f, 1) and born.get(f, 1) < day for f in sinks if f != 'console')
        if st['act'] == 'nextday':
            day += 1
        elif st['act'] == 'reinit':
            for m in COMMODS:
                born[m] = day
        for f in sinks:
            if not (born.get(f, 1) and born.get(f, 1) < day):
                born[f] = 0
    return False


def _replay_sinks(beh):
    """beh: a behaviour of Gen_Logging (GSpecBoot) as TLC printed it (JSON text: the parent process keeps text only).
    returns the key of the case, whether it is non-trivial, and the first mismatch (None: reproduced)"""
    if isinstance(beh, str):
        beh = json.loads(beh)
    acts = beh[:1] + [{k: v for k, v in s.items() if k != 'exp'} for s in beh[1:]]
    res = {'key': 'sinks' + json.dumps(acts[1:], sort_keys=True) + json.dumps(beh[0], sort_keys=True),
           'nontrivial': any(set(s['exp']['last'].get('sinks', ())) - {'console'} for s in beh), 'bad': None}
    boot_step = beh[0]
    mods = sorted(boot_step['exp']['level'])
    conns = sorted(boot_step['exp']['level'][mods[0]])
    w = SinkWorld(boot_step['cfg'], mods, conns)
    try:
        w.install(boot_step['exp']['level'])
        for i, st in enumerate(beh):
            got = w.step(st)
            exp = _sink_expected(st)
            if got != exp:
                res['bad'] = {'sink_behaviour': acts, 'step': i, 'action': {k: v for k, v in st.items() if k != 'exp'},
                              'expected': exp, 'observed': got, 'first_record_after_midnight': _virgin_loss(beh, i),
                              'comlog_off_as_text': _text_off(boot_step['cfg']),
                              'handler_errors': w.errors[-2:]}
                break
    finally:
        w.close()
    return res


CFG_ALPHABET = {'file': ['nodir', 'debug', 'comlog', 'info', 'info', 'warning', 'error', 'off'],
                'con': ['debug', 'comlog', 'info', 'warning', 'error'],
                'gcomlog': [True, True, False], 'ginit': [True, True, True, False], 'mcomlog': [True, True, False],
                'fdays': [0, 1, 2, 3], 'cdays': [1, 2, 7]}


def _random_sink_trace(seed_n):
    """code -> spec: a random configuration, a random history over all actions; every event carries what was observed"""
    seed, n = seed_n
    rnd = random.Random(seed)
    cfg = {k: rnd.choice(v) for k, v in sorted(CFG_ALPHABET.items())}
    if cfg['file'] == 'nodir':
        cfg['gcomlog'] = False
    conns = ['c1', 'c2', 'c3']
    w = SinkWorld(cfg, MODS, conns)
    alive = set(conns)
    tr = [{'ev': 'boot', 'cfg': cfg, 'haslevel': False, 'comlog_off_as_text': _text_off(cfg)}]
    try:
        for _ in range(n):
            r = rnd.random()
            if r < 0.2 and alive:
                a = {'ev': 'logging', 'conn': rnd.choice(sorted(alive)), 'target': rnd.choice(MODS + ['.']),
                     'lvl': rnd.choice(list(LEVELNO) + ['off', 'bogus'])}
            elif r < 0.45:
                a = {'ev': 'emit', 'mod': rnd.choice(MODS), 'lvl': rnd.choice(list(LEVELNO))}
            elif r < 0.55:
                a = {'ev': 'mainemit', 'lvl': rnd.choice(list(LEVELNO))}
            elif r < 0.75:
                a = {'ev': 'comlog', 'mod': rnd.choice(COMMODS)}
            elif r < 0.85:
                if w.day >= 4:
                    continue
                a = {'ev': 'nextday'}
            elif r < 0.9:
                a = {'ev': 'reinit'}
            elif r < 0.97 and alive:
                a = {'ev': 'ident', 'conn': rnd.choice(sorted(alive))}
            elif len(alive) > 1:
                a = {'ev': 'disconnect', 'conn': rnd.choice(sorted(alive))}
                alive.discard(a['conn'])
            else:
                continue
            a.update(w.step(a))
            a['haslevel'] = True
            tr.append(a)
    finally:
        w.close()
    return tr


def _emit_raw(cfg, **kw):
    """like emit_behaviours, but the behaviours stay JSON text (the thorough tier has some 10^5 of them; as python
    objects in the parent they cost gigabytes, which every forked worker's garbage collector would walk through)"""
    from ..core import _tla_unescape
    kw.setdefault('workers', 1)
    r = run_tlc('Gen_Logging', cfg, **kw)
    if r.violated or not r.ok:
        raise MachineryError(f'behaviour emission Gen_Logging/{cfg} failed: {r.violated or r.error}\n{r.out[-2000:]}')
    pat = '<<"BEH", "'
    behs = [_tla_unescape(line[len(pat):-3]) for line in r.out.splitlines() if line.startswith(pat) and line.endswith('">>')]
    r.out = ''
    return r, behs


def _sig_sinks(bad):
    return {'module': 'Logging', 'world': 'sinks', 'action': bad['action']['act'],
            'diff': sorted(k for k in bad['expected'] if bad['expected'][k] != bad['observed'].get(k)),
            'first_record_after_midnight': bad['first_record_after_midnight'],
            'comlog_off_as_text': bad['comlog_off_as_text']}


def _must_fail(cfg, invariant):
    """no vacuity: a specification whose switch is broken must violate the invariant that speaks about it"""
    r = run_tlc('Logging', cfg, timeout=300, workers=1)
    if r.violated != ('invariant', invariant):
        raise MachineryError(f'{cfg} must violate {invariant}, TLC says {r.violated or r.error or "no violation"}')
    return r


def run(chk):
    quick = chk.tier == 'quick'
    chk.rule = ('routing: all action sequences of Gen_Logging to the depth bound (2 conns x 2 modules x '
                'levels) replayed on the real dispatcher/handler with state comparison after every step, '
                'plus random histories on 3 connections validated by Trace_Logging; local sinks: every '
                'configuration (logfile_level / no logdir, console level, three comlog switches) x uniform '
                'subscription table x record (module, main logger, comLog) of Gen_Logging_sinks, all sequences '
                'of records and midnights of Gen_Logging_days under three retention settings, all sequences '
                'of Gen_Logging_mixed (requests, records, midnight, re-creation of the modules) replayed on a '
                'real MainLogger / node logger / Communicator in a temporary logdir comparing receivers, lines '
                'per file and console, and the dated files after every step, plus random configurations and '
                'histories validated by Trace_Logging; rotation: all initial '
                'directories x retention x foreign files x rollover sequences of LogRotation executed on '
                'the real LogfileHandler and validated by Trace_LogRotation. A case is distinct by its '
                'action sequence / configuration / initial directory; non-trivial = contains at least one emit with an '
                'enabled subscription, a record reaching a file, or a rollover that may delete')
    import time as _t
    _t0 = _t.time()
    stage = {}
    cpu = {}

    def mark(name):
        import resource
        ru = resource.getrusage(resource.RUSAGE_CHILDREN)
        stage[name] = round(_t.time() - _t0, 1)
        cpu[name] = round(ru.ru_utime + ru.ru_stime, 1)
    # 1 everything TLC does without the code, side by side: design checks (the specification's own properties, incl.
    #   a configuration that must fail) and the emission of the behaviours to replay
    tier = 'quick' if quick else 'thorough'
    # the emissions of the quick tier are short single-threaded JVM runs: start-up options that suit them
    short = {'env': {'_JAVA_OPTIONS': '-XX:TieredStopAtLevel=1 -XX:ParallelGCThreads=2 -XX:CICompilerCount=1'}} if quick else {}
    gen = lambda cfg, **kw: (lambda: emit_behaviours('Gen_Logging', cfg, maximal_only=False, timeout=1500,
                                                     **dict(short, **kw)))
    raw = lambda cfg, **kw: (lambda: _emit_raw(cfg, timeout=1500, **dict(short, **kw)))
    nw = 2 if quick else None       # small models side by side: few workers each
    jobs = {
        'mc': lambda: model_check('Logging', f'MC_Logging_{tier}.cfg', timeout=900, workers=nw),
        'mc_rot': lambda: model_check('LogRotation', 'MC_LogRotation.cfg', timeout=300, workers=nw),
        'mc_sinks': lambda: model_check('Logging', f'MC_Logging_sinks_{tier}.cfg', timeout=1500, workers=nw),
        'mc_days': lambda: model_check('Logging', f'MC_Logging_days_{tier}.cfg', timeout=1500, workers=nw),
        'mustfail': lambda: _must_fail('MC_Logging_mustfail_comlog.cfg', 'ComlogNeverInMainFile'),
        'gen': gen(f'Gen_Logging_{tier}.cfg'),
        'gen_sinks': raw(f'Gen_Logging_sinks_{tier}.cfg'),
        'gen_days': raw(f'Gen_Logging_days_{tier}.cfg'),
        'gen_mixed': raw(f'Gen_Logging_mixed_{tier}.cfg'),
        'gen_rot': lambda: emit_behaviours('Gen_LogRotation', f'Gen_LogRotation_{tier}.cfg', maximal_only=False,
                                           timeout=600, **short),
    }
    if not quick:
        jobs['mc_levels'] = lambda: model_check('Logging', 'MC_Logging_levels.cfg', timeout=900)  # six levels, two connections
        jobs['gen_sim'] = gen('Gen_Logging_sim.cfg', simulate='num=20000', depth=7, seed=chk.seed + 1, workers=1)
        jobs['gen_sinks2'] = raw('Gen_Logging_sinks2_thorough.cfg')
        jobs['gen_sinksim'] = raw('Gen_Logging_sinksim.cfg', simulate='num=10000', depth=9, seed=chk.seed + 2)
    sanies = [(lambda m=m: sany(m)) for m in ('Logging', 'LogRotation', 'Gen_Logging', 'Trace_Logging',
                                              'Gen_LogRotation', 'Trace_LogRotation')]
    tlc = dict(zip(jobs, run_parallel(sanies + list(jobs.values()), width=16)[len(sanies):]))
    for k, r in tlc.items():
        r = r[0] if isinstance(r, tuple) else r
        chk.add_tlc(r)
        r.out = ''          # up to some 10^8 characters each
    mark('design+emission')

    # 2 every execution of the real code in one pool: replays (spec -> code) and recorded histories (code -> spec)
    behs = tlc['gen'][1]
    if quick:
        # the quick tier replays every third behaviour (offset by the seed); thorough replays all, over four levels,
        # plus simulated behaviours of depth 6 (the exhaustive set of depth 4 has 2.3 million members)
        behs = behs[chk.seed % 3::3]
        chk.notes['routing_behaviours_sampled'] = '1 of 3'
    else:
        deep = tlc['gen_sim'][1]
        behs = behs + deep
        chk.notes['routing_behaviours_simulated_depth6'] = len(deep)
    sbehs = []
    for k in ('gen_sinks', 'gen_days', 'gen_mixed', 'gen_sinks2', 'gen_sinksim'):
        if k in tlc:
            chk.notes['sink_behaviours_' + k[4:]] = len(tlc[k][1])
            sbehs += tlc[k][1]
    n = 300 if quick else 3000
    ns = 250 if quick else 4000
    # concurrent connections: requests in different threads, disconnect outside the dispatcher lock,
    # every source line of logging.py / dispatcher.py a possible preemption point
    cjobs = []
    for name in CONC:
        cjobs.append((name, 'dfs', chk.seed, 120 if quick else 3000))
        cjobs.append((name, 'rnd', chk.seed + 1, 60 if quick else 2000))
    # rotation: spec -> code cases, judged by the trace spec
    cases = {}
    for b in tlc['gen_rot'][1]:
        c = {'n': b['n'], 'start': b['start'], 'days': sorted(b['days']), 'foreign': sorted(b['foreign']),
             'steps': b['steps']}
        cases[json.dumps(c, sort_keys=True)] = c
    # code -> spec additions: random bigger directories
    rnd = random.Random(chk.seed + 7)
    for _ in range(100 if quick else 2000):
        start = rnd.randint(2, 12)
        c = {'n': rnd.randint(0, 6), 'start': start,
             'days': sorted(set(rnd.sample(range(1, start), rnd.randint(0, start - 1))) | {start}),
             'foreign': sorted(rnd.sample(['before', 'after', 'ext', 'prefix'], rnd.randint(0, 4))),
             'steps': [rnd.randint(1, 3) for _ in range(rnd.randint(1, 4))]}
        cases[json.dumps(c, sort_keys=True)] = c
    cases = list(cases.values())
    items = ([('routing', x) for x in behs] + [('sinks', x) for x in sbehs] +
             [('rtrace', (chk.seed * 100003 + i, 40)) for i in range(n)] +
             [('strace', (chk.seed * 100019 + i, 30 if quick else 45)) for i in range(ns)] +
             [('rot', c) for c in cases])
    chunk = 24
    for j, job in enumerate(cjobs):         # the long jobs first, one per chunk
        items.insert(j * chunk, ('conc', job))
    out = {}
    import gc
    gc.collect()
    gc.freeze()       # the workers are forked: keep their collector away from everything that exists already
    try:
        for (kind, _), r in zip(items, pool_map(_work, items, chunksize=chunk)):
            out.setdefault(kind, []).append(r)
    finally:
        gc.unfreeze()
    mark('executions')

    # 3 verdicts on the recorded executions: three batches of traces validated side by side
    traces = out['rtrace'] + out['strace']
    straces = out['strace']
    # no vacuity: TLC's own behaviour written as a trace is accepted, the same trace with one sink wrong is refused
    # (built from the specification's output, not from the code, so that it says nothing about the code)
    canned = _canned(sbehs)
    forged = [canned]
    for k, wrong in enumerate((lambda x: x + ['node'],                    # communication in the log file
                               lambda x: [y for y in x if y != 'm1'],     # comlog line missing
                               lambda x: sorted(set(x) ^ {'console'}))):  # console threshold ignored
        f = json.loads(json.dumps(canned))
        f[-1]['sinks'] = sorted(wrong(f[-1]['sinks']))
        forged.append(f)
    ctraces, corigin, seen = [], [], set()
    for name, runs in out['conc']:
        for flat, tr, exc, stuck in runs:
            if (name, tuple(flat)) in seen:
                continue
            seen.add((name, tuple(flat)))
            if exc or stuck:
                chk.violation({'module': 'Logging', 'concurrent': name, 'kind': 'exception' if exc else 'stuck',
                               'exc': sorted(exc.values())[0][:60] if exc else ''},
                              {'conc': name, 'choices': flat, 'exceptions': exc})
                continue
            ctraces.append(tr)
            corigin.append((name, flat))
    rtraces = out['rot']
    v_rand, v_conc, v_rot = run_parallel([
        lambda: validate_traces('Trace_Logging', traces + forged, 'Trace_Logging.cfg', collect=('DEVS',)),
        lambda: validate_traces('Trace_Logging', ctraces, 'Trace_Logging.cfg'),
        lambda: validate_traces('Trace_LogRotation', rtraces, 'Trace_LogRotation.cfg')], width=3)
    mark('validation')

    # 3a spec -> code, routing
    for beh, bad in zip(behs, out.get('routing', [])):
        chk.impl_traces += 1
        acts = [{k: v for k, v in s.items() if k != 'exp'} for s in beh]
        nontriv = any(s['act'] == 'emit' and s['exp']['last']['to'] for s in beh)
        chk.case(json.dumps(acts, sort_keys=True), nontriv)
        if bad:
            sig = {'module': 'Logging', 'action': bad['action']['act'],
                   'diff': sorted(k for k in bad['expected'] if bad['expected'][k] != bad['observed'].get(k))}
            chk.violation(sig, {'behaviour': acts, **bad})
    if behs:
        chk.sample({'routing_behaviour': behs[len(behs) // 2]})

    # 3b spec -> code, local sinks
    nbad = 0
    for res in out.get('sinks', []):
        chk.impl_traces += 1
        chk.case(res['key'], res['nontrivial'])
        if res['bad']:
            nbad += 1
            chk.violation(_sig_sinks(res['bad']), res['bad'])
    chk.notes['sink_behaviours_not_reproduced'] = nbad
    if sbehs:
        chk.sample({'sink_behaviour': json.loads(sbehs[len(sbehs) // 2])})

    # 3c code -> spec, routing and local sinks
    verdicts, st, tr, extra = v_rand
    chk.states += st
    chk.transitions += tr
    fv = [verdicts.pop(len(traces) + j) for j in range(len(forged))]
    if fv[0] is not None or any(v is None for v in fv[1:]):
        raise MachineryError(f'Trace_Logging must accept the canned trace and refuse its three forgeries: {fv}')
    devs = {}
    for i, js in extra['DEVS']:
        d = set(json.loads(js))
        devs[i] = d if i not in devs else min(devs[i], d, key=len)
    count = {}
    for i, v in verdicts.items():
        chk.impl_traces += 1
        chk.case('rt%d' % i, True)
        if v is not None:
            l = v[0]
            ev = traces[i][l - 1] if 0 < l <= len(traces[i]) else None
            chk.violation({'module': 'Logging', 'trace_event': (ev or {}).get('ev'), 'clause': v[1]},
                          {'sink_trace' if i >= n else 'trace': traces[i], 'failed_at': l, 'event': ev})
        for dev in sorted(devs.get(i, ())):
            count[dev] = count.get(dev, 0) + 1
            chk.violation({'module': 'Logging', 'deviation': dev}, {'sink_trace': traces[i]})
    chk.notes['sink_trace_deviations_needed'] = count
    chk.sample({'routing_trace_prefix': traces[0][:4]})
    chk.sample({'sink_trace_prefix': straces[0][:5]})

    # 3d concurrent connections
    verdicts, st, tr_ = v_conc
    chk.states += st
    chk.transitions += tr_
    for i, v in verdicts.items():
        chk.impl_traces += 1
        chk.case(('conc',) + (corigin[i][0], tuple(corigin[i][1])), len(set(corigin[i][1])) > 1)
        if v is not None:
            l = v[0]
            ev = ctraces[i][l - 1] if 0 < l <= len(ctraces[i]) else {}
            chk.violation({'module': 'Logging', 'concurrent': corigin[i][0], 'trace_event': ev.get('ev')},
                          {'conc': corigin[i][0], 'choices': corigin[i][1], 'trace': ctraces[i], 'failed_at': l})
    chk.notes['concurrent_schedules'] = len(ctraces)

    # 4 rotation
    traces = rtraces
    verdicts, st, tr = v_rot
    chk.states += st
    chk.transitions += tr
    for i, v in verdicts.items():
        chk.impl_traces += 1
        c = cases[i]
        chk.case(json.dumps(c, sort_keys=True), c['n'] > 0 and len(c['days']) >= c['n'])
        if v is not None:
            l = v[0]
            ev = traces[i][l - 1] if 0 < l <= len(traces[i]) else None
            prev = traces[i][l - 2] if l >= 2 else None
            kind = 'unknown'
            if ev and prev:
                before = set(prev['days']) - {ev['today']}
                kept = set(ev['days']) - {ev['today']}
                if ev.get('error'):
                    kind = 'rollover raised'
                elif ev['today'] not in ev['days']:
                    kind = 'current file removed'
                elif any(r > q for r in before - kept for q in kept):
                    kind = 'newer removed while older kept'
                elif c['n'] == 0 and before - kept:
                    kind = 'removed although retention is 0'
                else:
                    kind = 'too few kept'
            chk.violation({'module': 'LogRotation', 'kind': kind,
                           'foreign_after': 'after' in c['foreign']},
                          {'case': c, 'trace': traces[i], 'failed_at': l})
    chk.sample({'rotation_trace': traces[len(traces) // 3]})
    mark('verdicts')
    chk.notes['wall_until_end_of_stage'] = stage
    chk.notes['cpu_of_children_until_end_of_stage'] = cpu
    chk.exhaustive = False


def _canned(sbehs):
    """a behaviour of Gen_Logging (all subscriptions off at start) ending with a comLog that reaches the comlog file,
    as a trace"""
    for beh in sbehs:
        if '"comlog"' not in beh:
            continue
        beh = json.loads(beh)
        k = [i for i, st in enumerate(beh) if st['act'] == 'comlog' and 'm1' in st['exp']['last']['sinks']]
        if k and k[0] >= 2 and all(v == 99 for row in beh[0]['exp']['level'].values() for v in row.values()):
            tr = [{'ev': 'boot', 'cfg': beh[0]['cfg'], 'haslevel': False}]
            for st in beh[1:k[0] + 1]:
                e = {kk: v for kk, v in st.items() if kk not in ('act', 'exp')}
                e.update(ev=st['act'], haslevel=False, day=st['exp']['day'], dated=st['exp']['dated'])
                for f in ('to', 'sinks', 'ok'):
                    if f in st['exp']['last']:
                        e[f] = st['exp']['last'][f]
                tr.append(e)
            return tr
    raise MachineryError('no emitted behaviour to make a canned trace from')


def _work(item):
    """one execution of the real code of any kind (all of them share one pool of worker processes)"""
    import logging
    kind, arg = item
    ld = logging.Logger.manager.loggerDict
    before = set(ld)
    try:
        return {'routing': _replay_routing, 'sinks': _replay_sinks, 'rtrace': _random_trace,
                'strace': _random_sink_trace, 'conc': _conc_explore, 'rot': _run_rotation}[kind](arg)
    finally:
        # every world registers its loggers with the logging package for good; Logger.setLevel walks through all
        # of them: without this a worker gets slower with every world it has seen
        for name in set(ld) - before:
            del ld[name]


def replay(chk, rep):
    d = rep['detail']
    if 'behaviour' in d:
        beh = d['behaviour']
        w = World(sorted({s['conn'] for s in beh if 'conn' in s} | {'c1', 'c2'}))
        for s in beh:
            print(s, '->', w.step(s))
        print('expected at step', d['step'], ':', d['expected'])
    elif 'sink_behaviour' in d or 'sink_trace' in d:
        beh = d.get('sink_behaviour') or d['sink_trace']
        if 'sink_trace' in d:
            mods, conns, table = MODS, ['c1', 'c2', 'c3'], {}
        else:
            table = beh[0]['exp']['level']
            mods = sorted(table)
            conns = sorted(table[mods[0]])
        w = SinkWorld(beh[0]['cfg'], mods, conns)
        try:
            w.install(table)
            for s in beh:
                print({k: v for k, v in s.items() if k in ('act', 'ev', 'cfg', 'conn', 'target', 'lvl', 'mod')}, '->', w.step(s))
            print('what the logging package printed about failing handlers:', w.errors)
        finally:
            w.close()
        if 'expected' in d:
            print('expected at step', d['step'], ':', d['expected'])
    elif 'case' in d:
        for e in _run_rotation(d['case']):
            print(e)
    elif 'conc' in d:
        from .. import detsched as ds
        for e in _conc_run(d['conc'], ds.GuidedStrategy(d['choices']))[0]:
            print(e)
    else:
        print(json.dumps(d, indent=1))
    return 0
