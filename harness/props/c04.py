"""C04 - No invalid, forbidden or out-of-limit request ever reaches the driver.

spec/Dispatch.tla.  Binding:
  spec -> code : Gen_Dispatch makes TLC visit every reachable (shape, cache) state of a family of
                 module shapes (breadth first to the depth bound) and print, for EVERY request of the
                 alphabet in EVERY such state, the shortest request sequence leading there plus the
                 demanded outcome; each is replayed on real frappy Module subclasses (recording
                 write_* / command functions / check_* hooks) behind a real Dispatcher, the cache is
                 compared after every step and reply class, reply value, driver calls, hook
                 arguments, cache and updates after the last one.
  code -> spec : random shapes (random datainfo limits, flags, limit parameters, hook tables, driver
                 scripts, two modules) x random request sequences are recorded and judged event by
                 event by TLC (Trace_Dispatch).
"""
import json
import random

from ..core import MachineryError, model_check, pool_map, run_tlc, sany
from .. import dispatch_common as dc

META = {
    'text': 'TLC model-checks the routing design (Dispatch.tla: exported-name lookup, readonly/constant refusal, '
            'import+validation with the previous value, check hooks along the MRO, dynamic limit parameters, exactly one '
            'driver call with the validated value, error classes, cache/update untouched on error) over a family of module '
            'shapes; every (reachable state, request) transition TLC enumerates is replayed on real frappy Module '
            'subclasses with a recording driver behind the real Dispatcher (wrapped like RequestHandler.handle) and '
            'compared clause by clause; recorded random shapes x random request sequences are judged event by event by '
            'TLC (Trace_Dispatch). Bounded (depth, value catalogue, 6 datatypes), exhaustive over transitions inside it. Concurrent requests of 2-3 connections at the real dispatcher run under the deterministic scheduler (every source line a preemption point) and are validated against DispSerial.tla: served one at a time, the driver gets the payload merged into the current value, every reply reports its own request (design: DispLock.tla, the unlocked variant is shown to fail).',
    'note': 'Trusted: TLC; the alpha/gamma glue in harness/dispatch_common.py (abstract values <-> JSON/Python values, '
            'class generator, error mapping copied from handler.py). Not in the alphabet: malformed specifiers, inverted '
            'limit pairs (C18), booleans offered to numbers, null struct members, drivers that raise or return invalid '
            'values, a class that defines both a Limit and its own check_ hook.',
    'tech': 'TLA+ spec (Dispatch.tla) + TLC model checking; spec->code replay of all TLC transitions; code->spec TLC '
            'trace validation with per-event clause verdicts',
    'ref': 'DESIGN.md section 5 C04',
}

_shapes = {}


def _replay(item):
    """one TLC behaviour: path (requests with expected cache), last request with the demanded outcome"""
    sid, beh = item
    sh = _shapes[sid]
    try:
        w = dc.World(sh['shape'])
    except Exception as e:   # the class / the module cannot even be created
        return {'clauses': ['node.build'], 'step': 0, 'req': None, 'expected': None, 'observed': repr(e)[:200], 'before': {}}
    if w.cache() != sh['cache']:
        return {'clauses': ['init.cache'], 'step': 0, 'req': None, 'expected': sh['cache'], 'observed': w.cache(),
                'before': {}}
    resync = 0
    for i, st in enumerate(beh['path']):
        o = w.request(st['req'])
        if o['cache'] != st['cache'] or o['rerr'] != st['rerr']:
            # the deviating step is the last step of another behaviour and is reported there;
            # here the state is put right by internal assignment so that this state is not lost
            resync += 1
            if not w.force_cache(st['cache'], st['rerr']):
                return {'clauses': ['setup'], 'step': i, 'req': st['req'], 'expected': st['cache'],
                        'observed': w.cache(), 'before': {}}
    before = w.cache()
    o = w.request(beh['req'])
    bad = dc.clauses(beh['exp'], o)
    if bad:
        return {'clauses': bad, 'step': len(beh['path']), 'req': beh['req'], 'expected': beh['exp'], 'observed': o,
                'before': before, 'resync': resync}
    return None


def _random_trace(seed):
    try:
        return _random_trace_(seed)
    except Exception as e:      # (frappy exceptions do not unpickle in the parent process)
        import traceback
        raise MachineryError(f'random trace {seed}: {e!r}\n{traceback.format_exc()[-1500:]}') from None


def _random_trace_(seed):
    rnd = random.Random(seed)
    dc.boot()
    shape = dc.rand_shape(rnd)
    try:
        w = dc.World(shape)
    except Exception as e:      # a node the generator is entitled to build cannot be created
        if dc.refusable(shape):
            return None         # frappy may refuse such a configuration as a whole (C10)
        return {'build_error': repr(e)[:300], 'shape': shape}
    trace = [{'ev': 'shape', 'shape': shape, 'cache': w.cache()}]
    for _ in range(rnd.randint(10, 30)):
        req = dc.rand_request(rnd, shape, trace[-1]['cache'])
        o = w.request(req)
        o.pop('text', None)
        trace.append(dict(o, ev='req', req=req))
    return trace


def _scripted_trace(sid):
    """deterministic histories around refused non-finite limits: after NaN / Infinity offered to <p>_min / _max /
    _limits the old limit still holds for the following requests (judged by Trace_Dispatch like the random traces)"""
    shape = _shapes[sid]['shape']
    w = dc.World(shape)
    trace = [{'ev': 'shape', 'shape': shape, 'cache': w.cache()}]
    num, sp = dc.num, lambda s: {'k': 'special', 's': s}
    reqs = []
    for m, accs in shape.items():
        for a, acc in accs.items():
            if acc['kind'] != 'param' or acc['lim']['kind'] == 'none' or acc['dt'].get('big'):
                continue          # (the symbolic big integers have a request catalogue of their own)
            tgt = acc['wire']
            hi = acc['dt']['hi']

            def ch(name, p, m=m):
                reqs.append({'act': 'change', 'mod': m, 'name': name, 'payload': p})
            if acc['lim']['kind'] == 'limits':
                lw = accs[acc['lim']['both']]['wire']
                narrow = {'k': 'list', 'xs': [num(2), num(5)]}
                bad = [{'k': 'list', 'xs': [num(2), sp(s)]} for s in ('nan', 'pinf')] + \
                      [{'k': 'list', 'xs': [sp(s), num(5)]} for s in ('nan', 'ninf')] + \
                      [{'k': 'list', 'xs': [sp('nan'), sp('nan')]}]
            else:
                lw = accs[acc['lim']['hi'] or acc['lim']['lo']]['wire']
                narrow = num(5)
                bad = [sp(s) for s in ('nan', 'pinf', 'ninf', 'huge')]
            for b in bad:                       # on the initial limits
                ch(lw, b)
                ch(tgt, num(hi))
            ch(lw, narrow)
            for b in bad:                       # on moved limits: the moved limit still holds afterwards
                ch(lw, b)
                ch(tgt, num(hi))                # above the moved upper limit (5)
                ch(tgt, num(5))
                ch(tgt, sp('nan'))
                reqs.append({'act': 'read', 'mod': m, 'name': lw, 'payload': dc.NULL})
    for req in reqs:
        o = w.request(req)
        o.pop('text', None)
        trace.append(dict(o, ev='req', req=req))
    return trace


def _report_trace_devs(chk, traces, devs, module='Dispatch'):
    for ti, l, clause in devs:
        tr = traces[ti]
        ev = tr[l - 1]
        if l == 1:
            chk.violation({'module': module, 'clause': clause}, {'trace': tr[:1]})
            continue
        sig = dc.signature(tr[0]['shape'], ev['req'], [clause], ev, tr[l - 2]['cache'], module)
        chk.violation(sig, {'trace': tr[:l], 'failed_at': l, 'clause': clause})


def run(chk):
    quick = chk.tier == 'quick'
    tier = 'quick' if quick else 'thorough'
    chk.rule = ('spec->code: one case per (shape, reachable cache state within the depth bound, request of the '
                'alphabet) = every transition TLC generates for Gen_Dispatch, replayed on the real dispatcher/modules '
                'and compared clause by clause; code->spec: one case per recorded random trace (random shape, 10-30 '
                'requests). Distinct = distinct (shape id, state, request) resp. trace; non-trivial = the request '
                'addresses an existing exported accessible with the right request kind')
    for m in ('Dispatch', 'Gen_Dispatch', 'Trace_Dispatch'):
        sany(m)
    # 1 design check
    chk.add_tlc(model_check('Dispatch', f'MC_Dispatch_{tier}.cfg', timeout=1000))

    # 2 spec -> code
    r = run_tlc('Gen_Dispatch', f'Gen_Dispatch_{tier}.cfg', workers=1, timeout=1000)
    if r.violated or not r.ok:
        raise MachineryError(f'behaviour emission Gen_Dispatch failed: {r.violated or r.error}\n{r.out[-2000:]}')
    chk.add_tlc(r)
    for s in r.printed('SHAPE'):
        _shapes[json.dumps(s['sid'])] = s
    behs = r.printed('BEH')
    if not behs or not _shapes:
        raise MachineryError('Gen_Dispatch printed nothing')
    items = [(json.dumps(b['sid']), b) for b in behs]
    items.sort(key=lambda x: x[0])          # same shape -> same worker chunk -> class built once
    res = pool_map(_replay, items)
    for (sid, beh), bad in zip(items, res):
        chk.impl_traces += 1
        nontriv = beh['exp']['reply']['ok'] or not set(beh['exp']['reply']['cls']) & \
            {'NoSuchModule', 'NoSuchParameter', 'NoSuchCommand'}
        chk.case(json.dumps([beh['sid'], beh['path'][-1]['cache'] if beh['path'] else None, beh['req']],
                            sort_keys=True), nontriv)
        if bad:
            if bad['req'] is None or bad['clauses'][0] in ('setup', 'init.cache'):
                consts = sorted({x['dt']['t'] for x in _shapes[sid]['shape']['m'].values()
                                 if x['kind'] == 'param' and x['const'] != dc.NULL})
                sig = {'module': 'Dispatch', 'clause': bad['clauses'][0], 'shape': beh['sid'][0], 'constants': consts}
            else:
                sig = dc.signature(_shapes[sid]['shape'], bad['req'], bad['clauses'], bad['observed'], bad['before'])
            chk.violation(sig, {'sid': beh['sid'], 'behaviour': beh, **bad})
    chk.sample({'transition': behs[len(behs) // 2]})

    # 3 code -> spec
    n = 400 if quick else 15000
    traces = [t for t in pool_map(_scripted_trace, sorted(s for s, x in _shapes.items() if any(
        a['kind'] == 'param' and a['lim']['kind'] != 'none' for a in x['shape']['m'].values()))) if len(t) > 1]
    chk.notes['scripted_limit_histories'] = len(traces)
    for x in pool_map(_random_trace, [chk.seed * 1000003 + i for i in range(n)]):
        if x is None:
            continue
        if isinstance(x, dict):
            chk.violation({'module': 'Dispatch', 'clause': 'node.build', 'shape': 'random'},
                          {'error': x['build_error'], 'shape': x['shape']})
        else:
            traces.append(x)
    devs, done, st, tr = dc.validate_events('Trace_Dispatch', traces, 'Trace_Dispatch.cfg', timeout=1000)
    chk.states += st
    chk.transitions += tr
    for i in range(done):
        chk.impl_traces += 1
        chk.case('rt%d' % i, True)
    _report_trace_devs(chk, traces, devs)
    chk.sample({'random_trace_prefix': traces[0][:3]})
    chk.notes['random_trace_events'] = sum(len(t) - 1 for t in traces)
    chk.exhaustive = False
    chk.assumptions.append('generalConfig.testinit(omit_unchanged_within=0); modules are not started (no poll threads)')
    # requests of several connections are served one at a time (shared with C04 / C07): DispLock / DispSerial
    from . import disp_serial
    disp_serial.add(chk)


def replay(chk, rep):
    d = rep['detail']
    if 'serial' in d:
        from . import disp_serial
        return disp_serial.replay(chk, rep)
    if 'behaviour' in d:
        r = run_tlc('Gen_Dispatch', 'Gen_Dispatch_%s.cfg' % rep.get('tier', 'quick'), workers=1, timeout=1000)
        for s in r.printed('SHAPE'):
            _shapes[json.dumps(s['sid'])] = s
        beh = d['behaviour']
        w = dc.World(_shapes[json.dumps(d['sid'])]['shape'])
        for st in beh['path']:
            print(st['req'], '->', w.request(st['req']))
        print(beh['req'], '->', w.request(beh['req']))
        print('expected:', beh['exp'])
    elif 'trace' in d and d['trace'] and 'shape' in d['trace'][0]:
        tr = d['trace']
        w = dc.World(tr[0]['shape'])
        for ev in tr[1:]:
            print(ev['req'], '->', w.request(ev['req']))
        print('clause', d.get('clause'), 'at event', d.get('failed_at'))
    else:
        print(json.dumps(d, indent=1))
    return 0
