"""C05, concurrent part bound to the real code with the deterministic scheduler.

Worker threads act on one module (attribute assignments, explicit value / error announcements, writes) while
two connections are activated; every update message is mapped back to the cache state it carries.  The
executions are validated by TLC against ActivationObs (deliveries in the order the cache changed, nothing
invented, nothing owed and last message = cache at quiescence), i.e. the same observable-level specification
that decides C08 also decides the multi-threaded clauses of C05."""
import json

from ..core import pool_map, validate_traces

SCENARIOS = {
    'two_assign': dict(workers=[[('assign', 'p1', 1.0), ('assign', 'p1', 2.0)], [('assign', 'p1', 3.0), ('assign', 'p2', 4.0)]]),
    'err_recover': dict(workers=[[('assign', 'p1', 1.0), ('announce_err', 'p1', 'bad'), ('assign', 'p1', 1.0)],
                                 [('assign', 'p1', 2.0), ('write', 'p2', 5.0), ('read_err', 'p2', 'hw'), ('announce', 'p2', 5.0)]]),
    'three_threads': dict(workers=[[('assign', 'p1', 1.0), ('announce_err', 'p1', 'x')], [('announce_err', 'p1', 'x'), ('assign', 'p1', 1.0)],
                                   [('write', 'p1', 7.0), ('assign', 'p2', 1.0)]]),
    'activate_meanwhile': dict(workers=[[('assign', 'p1', 1.0), ('assign', 'p1', 2.0), ('assign', 'p2', 3.0)]],
                               requests={'c3': [('activate', None)], 'c2': [('deactivate', None)]}),
    'ident_meanwhile': dict(workers=[[('assign', 'p1', 1.0), ('announce_err', 'p1', 'x'), ('assign', 'p1', 1.0)],
                                     [('assign', 'p2', 5.0)]],
                            requests={'c3': [('activate', 'm1'), ('ident', None)], 'c1': [('ident', None)]}),
    'omit_window': dict(workers=[[('assign', 'p1', 1.0), ('assign', 'p1', 1.0), ('tick', '', 1.0), ('assign', 'p1', 1.0)],
                                 [('announce_err', 'p1', 'e'), ('assign', 'p1', 1.0)]], omit=0.5),
}


def alpha(r):
    tr = []
    for e in r['events']:
        if e['ev'] in ('seed', 'store', 'req', 'deliver', 'reply'):
            tr.append({k: v for k, v in e.items() if k not in ('seq', 'th', 'vt', 'action')})
        elif e['ev'] == 'quiet':
            tr.append({'ev': 'quiet', 'params': e['params']})
    if r['deadlock'] or r['livelock'] or r['thread_exc']:
        tr.append({'ev': 'broken', 'what': 'deadlock' if r['deadlock'] else 'livelock' if r['livelock']
                   else sorted(r['thread_exc'].values())[0][:80]})
    return tr


def _explore(args):
    name, mode, seed, nruns, line_level = args
    from .. import detsched as ds
    from ..dispworld import run_cache_scenario
    sc = SCENARIOS[name]
    out = []
    if mode == 'dfs':
        class Run:
            def __init__(self, r):
                self.choices = r['raw_choices']
                self.res = r

        for s in ds.explore(lambda st: Run(run_cache_scenario(sc, st, line_level)), max_preemptions=2, max_runs=nruns):
            out.append((s.res['choices'], alpha(s.res)))
    else:
        for k in range(nruns):
            r = run_cache_scenario(sc, ds.RandomStrategy(seed * 7919 + k, stay=0.2 + 0.3 * ((seed + k) % 3)), line_level)
            out.append((r['choices'], alpha(r)))
    return name, out


def run_sched(chk):
    quick = chk.tier == 'quick'
    jobs = []
    for name in SCENARIOS:
        jobs.append((name, 'dfs', chk.seed, 200 if quick else 4000, False))
        jobs.append((name, 'rnd', chk.seed + 3, 150 if quick else 3000, False))
        if not quick:
            jobs.append((name, 'rnd', chk.seed + 9, 400, True))
    traces, origin, seen = [], [], set()
    for name, out in pool_map(_explore, jobs, chunksize=1):
        for choices, tr in out:
            if (name, tuple(choices)) not in seen:
                seen.add((name, tuple(choices)))
                traces.append(tr)
                origin.append((name, choices))
    verdicts, st, trn, extra = validate_traces('Trace_ActivationObs', traces, 'Trace_ActivationObs.cfg', timeout=1500,
                                              collect=('DEVS',))
    chk.states += st
    chk.transitions += trn
    devs = {}
    for i, js in extra['DEVS']:
        d = set(json.loads(js))
        devs[i] = d if i not in devs else min(devs[i], d, key=len)
    for i, v in verdicts.items():
        name, choices = origin[i]
        chk.impl_traces += 1
        chk.case(('sched', name, tuple(choices)), len(set(choices)) > 1)
        if v is not None:
            l = v[0]
            ev = traces[i][l - 1] if 0 < l <= len(traces[i]) else {}
            chk.violation({'module': 'ActivationObs(C05)', 'event': ev.get('ev'), 'v': 'invented' if ev.get('v') == -2 else 'order',
                           'scenario': name},
                          {'sched_scenario': name, 'choices': choices, 'failed_at': l, 'event': ev, 'trace': traces[i]})
        else:
            for dev in sorted(devs.get(i, ())):
                chk.violation({'module': 'ActivationObs(C05)', 'deviation': dev},
                              {'sched_scenario': name, 'choices': choices, 'trace': traces[i]})
    chk.notes['sched_executions'] = len(traces)


def replay_sched(rep):
    from .. import detsched as ds
    from ..dispworld import run_cache_scenario
    d = rep['detail']
    r = run_cache_scenario(SCENARIOS[d['sched_scenario']], ds.GuidedStrategy(d['choices']))
    for e in alpha(r):
        print(e)
