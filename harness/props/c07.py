"""C07 - One well-formed reply per request line, for any bytes and any chunking.

spec/Wire.tla (framing / request loop / send layers).  Binding:
  spec -> code : every (stream, cut) TLC enumerates over {NL,CR,SP,x,y} is fed to a real
                 TCPRequestHandler on a fake socket (buffer and line count compared after every
                 chunk); every sequence of line classes TLC enumerates is run under 3 segmentations;
                 abstract message triples are pushed through encode_msg_frame / decode_msg.
  code -> spec : everything the handler emitted (and what a second connection and a second sending
                 thread saw) is recorded and judged by TLC against Trace_Wire; seeded grammar-based
                 byte-level fuzzing with random segmentations goes beyond TLC's catalogue.
"""
import functools
import hashlib
import json
import os
import random
import re
import shutil
import socket
import sys
import tempfile
import threading
from pathlib import Path

from ..core import MachineryError, emit_behaviours, model_check, pool_map, run_tlc, sany
from ..env import LoggerStub, boot

META = {
    'text': 'TLC proves on the design that splitting at the first newline makes the line sequence independent of '
            'the segmentation (all streams of length <= 7 over {NL,CR,SP,x,y}, all cuts) and that the send lock keeps '
            'lines whole; every (stream, cut) up to length 4/5 and every sequence of line classes (53 classes: all '
            'request kinds, empty line, invalid UTF-8, broken JSON, missing/extra fields, CR-LF, blanks, > 1024 bytes, '
            'unknown and dispatcher-colliding actions; all sequences of length <= 2, length 3 over 27 (quick: 9) and '
            'length 4 over 12 classes) is executed on a real '
            'TCPRequestHandler + Dispatcher + generated module over a fake socket under 3 segmentations; every output '
            'line of these runs and of seeded byte-level fuzzing is judged by TLC (Trace_Wire): one reply per line in '
            'order, reply action / specifier / SECoP error class, UTF-8 and strict JSON, survival of the handler, '
            'nothing on a second connection, same answers with malformed lines removed, same answers for every '
            'segmentation, lines of a second sending thread never interleaved, encode/decode inverse. Concurrent requests of 2-3 connections at the real dispatcher run under the deterministic scheduler (every source line a preemption point) and are validated against DispSerial.tla: served one at a time, the driver gets the payload merged into the current value, every reply reports its own request (design: DispLock.tla, the unlocked variant is shown to fail).',
    'note': 'Trusted: TLC; the alpha/gamma glue of harness/props/c07.py (tokenisation of a request line into action / '
            'specifier per the SECoP grammar is cross-checked against the TLA+ definition on the whole framing '
            'alphabet; UTF-8 and strict-JSON verdicts come from the Python standard decoders). Bounded: one module, '
            'two connections, two sending threads; the help text lines (action "_") count as informational '
            'asynchronous lines, "helping" as the one reply.',
    'tech': 'TLA+ spec (Wire.tla) + TLC model checking; spec->code replay of all TLC behaviours on the real request '
            'handler; code->spec TLC trace validation with named deviations',
    'ref': 'DESIGN.md section 5 C07',
}

# ---------------------------------------------------------------- gamma: line classes -> bytes
CLASSES = {
    'idn': b'*IDN?', 'describe': b'describe', 'describe_dot': b'describe .', 'describe_m': b'describe m',
    'read_p': b'read m:p', 'read_s': b'read m:s', 'read_hw': b'read m:hw', 'read_nomod': b'read zz:p',
    'change_p3': b'change m:p 3', 'change_p7': b'change m:p 7.5', 'change_range': b'change m:p 99',
    'change_s': b'change m:s "hi there"', 'change_type': b'change m:p "text"', 'change_ro': b'change m:hw 1',
    'do_cmd': b'do m:cmd 2', 'do_noarg': b'do m:cmd', 'ping': b'ping tok', 'ping_bare': b'ping',
    'activate': b'activate', 'activate_m': b'activate m', 'deactivate': b'deactivate',
    'deactivate_m': b'deactivate m', 'logging_on': b'logging m "debug"', 'logging_off': b'logging . "off"',
    'empty': b'', 'blanks': b'  \r', 'help': b'help', 'help_x': b'help x',
    'bad_utf8_spec': b'read m:\xff', 'bad_utf8_act': b'\xfe\xff', 'bad_utf8_data': b'change m:s "\xff"',
    'bad_utf8_crlf': b'\xfe\xff\r', 'bad_json': b'change m:p {bad', 'extra_tokens': b'change m:p 3 4',
    'missing_spec': b'read', 'missing_data': b'change m:p', 'extra_read': b'read m:p 1',
    'extra_ping': b'ping tok 1', 'crlf': b'read m:p\r', 'lead_blank': b'  read m:p',
    'trail_blank': b'change m:p 3  ', 'lead_badjson': b' change m:p {bad', 'trail_badjson': b'change m:p {bad \r',
    'double_sp': b'read  m:p', 'long_valid': b'change m:s "' + b'a' * 1500 + b'"', 'long_junk': b'x' * 1100,
    'unknown': b'frobnicate m:p', 'c_request': b'request', 'c_request_x': b'request m:p', 'c_ident': b'_ident',
    'c_help_d': b'help x 1', 'nonascii_badjson': b'read\xc3\xa9 m:p {bad', 'c_ident_x': b'_ident m:p',
    # data nested deeper than the recursion limit of a recursive JSON parser (json.loads: RecursionError)
    'deep_list_open': b'change m:p ' + b'[' * 6000, 'deep_dict_open': b'change m:s ' + b'{"a":' * 6000,
    'deep_list_50k': b'do m:cmd ' + b'[' * 50000, 'deep_dict_50k': b'change m:p ' + b'{"a":' * 50000,
    'deep_list': b'change m:p ' + b'[' * 6000 + b']' * 6000,
    'deep_dict': b'logging m ' + b'{"a":' * 6000 + b'1' + b'}' * 6000,
    'huge_int': b'change m:p ' + b'9' * 5000,          # int(): more digits than sys.get_int_max_str_digits()
    # more of the dispatcher: constant, module that failed to initialise, default accessibles, utf-8 text
    'read_k': b'read m:k', 'change_k': b'change m:k 1', 'read_broken': b'read broken:p',
    'change_broken': b'change broken:p 1', 'do_broken': b'do broken:cmd', 'read_m': b'read m',
    'change_m': b'change m 5', 'do_stop': b'do m:stop', 'change_t': b'change m:t "\xc3\xa9\xe2\x82\xac \\u00fc"',
    'ping_long': b'ping ' + b'n' * 1500,                  # a reply longer than a small send buffer
    'long_valid_3k': b'change m:s "' + b'b' * 3000 + b'"',
    'read_t': b'read m:t', 'surrogate_t': b'change m:t "\\ud800 \\udc00"',
}
CORE = ['read_p', 'change_p3', 'change_p7', 'activate', 'deactivate_m', 'empty', 'bad_json', 'lead_badjson',
        'bad_utf8_act', 'crlf', 'c_ident', 'unknown']     # == Core of Gen_Wire_classes_*.cfg
NODE_PARAMS = {'m:' + p for p in ('p', 's', 'hw', 'k', 't', 'value', 'target')}       # exported by the world's module
GAMMA1 = {'N': b'\n', 'R': b'\r', 'S': b' ', 'x': b'x', 'y': b'y'}
GAMMA2 = {'N': b'\n', 'R': b'\r', 'S': b' ', 'x': b'\xc3', 'y': b'\xa9'}   # "xy" = e-acute, alone invalid UTF-8

# arity of the SECoP requests: action -> (specifier, data) each 'no' | 'opt' | 'req'
ARITY = {'*IDN?': ('no', 'no'), 'help': ('no', 'no'), 'describe': ('opt', 'no'), 'read': ('req', 'no'),
         'change': ('req', 'req'), 'do': ('req', 'opt'), 'ping': ('opt', 'no'), 'activate': ('opt', 'no'),
         'deactivate': ('opt', 'no'), 'logging': ('opt', 'req')}
_PLAIN = re.compile(r'[A-Za-z0-9_:.*?]{0,24}\Z')


def _intern(s):
    """strings are only compared for equality by the spec: keep short plain ones, hash the rest"""
    if _PLAIN.match(s):
        return s
    return 'u' + hashlib.sha1(s.encode('utf-8', 'surrogatepass')).hexdigest()[:10]


def _no_constant(name):
    raise ValueError('non-strict JSON constant ' + name)


_STRICT = json.JSONDecoder(parse_constant=_no_constant)


def _dec(b):
    try:
        return b.decode('utf-8')
    except UnicodeDecodeError:
        return None


def _balanced(text):
    """brackets outside strings match (iterative; for data too deep for the recursive parser)"""
    stack, instr, esc = [], False, False
    for c in text:
        if instr:
            if esc:
                esc = False
            elif c == '\\':
                esc = True
            elif c == '"':
                instr = False
        elif c == '"':
            instr = True
        elif c in '[{':
            stack.append(c)
        elif c in ']}':
            if not stack or stack.pop() != ('[' if c == ']' else '{'):
                return False
    return not stack and not instr


# ---------------------------------------------------------------- alpha for input lines
@functools.lru_cache(maxsize=8192)
def a_in(line):
    """request descriptor of one input line (without its NL) in the vocabulary of Wire.tla"""
    s = line.strip(b' \r')
    exotic = s != s.strip()            # tab, vertical tab, form feed at the ends: tokenisation unclear
    toks = s.split(b' ', 2) + [b'', b'']
    a, sp, d = toks[0], toks[1], toks[2]
    blank = s == b''
    canon = not exotic and (blank or (a != b'' and (d == b'' or sp != b'')))
    au, su = _dec(a), _dec(sp)
    jsonbad = jsonunclear = False
    if d.strip():
        dt = _dec(d)
        if dt is None:
            jsonbad = True
        else:
            try:
                _STRICT.decode(dt)
            except RecursionError:        # too deep for this parser: broken only if the brackets do not match
                jsonbad = not _balanced(dt)
                jsonunclear = not jsonbad
            except ValueError:
                try:
                    json.loads(dt)
                    jsonunclear = True
                except ValueError:
                    jsonbad = len(dt) < 4000 or not dt.isdigit()      # (huge integers: a parser limit, unclear)
                    jsonunclear = not jsonbad
    decfail = _dec(s) is None or jsonbad
    act = 'help' if blank else (au or '')
    mal = False
    if canon and not jsonunclear:
        if decfail:
            mal = True
        elif act not in ARITY:
            mal = True
        else:
            for need, tok in zip(ARITY[act], (sp, d.strip())):
                if (need == 'no' and tok) or (need == 'req' and not tok):
                    mal = True
    return {'blank': blank, 'utf8': au is not None and su is not None, 'canon': canon, 'padded': s != line,
            'nonascii': any(c > 127 for c in a + sp), 'decfail': decfail, 'mal': mal, 'act': _intern(act),
            'spec': _intern(su or '')}


# ---------------------------------------------------------------- alpha for output lines
@functools.lru_cache(maxsize=8192)
def a_out(line):
    o = {'action': '', 'spec': '', 'iserr': False, 'base': '', 'err': '', 'utf8': True, 'strict': True,
         'nanonly': False, 'dig': '', 'evt': False}
    text = _dec(line)
    if text is None:
        o['utf8'] = False
        return o
    parts = text.split(' ', 2) + ['', '']
    action, spec, data = parts[0], parts[1], parts[2]
    val = None
    if data.strip():
        try:
            val = _STRICT.decode(data)
        except ValueError:
            o['strict'] = False
            try:
                val = json.loads(data)
                o['nanonly'] = True
            except ValueError:
                pass
    if action.startswith('ISSE') and ',SECoP,' in action:
        action = 'ident'
    o['iserr'] = action.startswith('error_')
    if o['iserr']:
        o['base'] = _intern(action[6:])
        if isinstance(val, list) and val and isinstance(val[0], str):
            o['err'] = _intern(val[0])
        core = o['err']
        # an event reporting a parameter's read error, not the answer to a request line "update ..." (a guess
        # from the text, only used where the sender cannot be observed: FakeSocket.sendall knows better)
        o['evt'] = action == 'error_update' and spec in NODE_PARAMS and o['err'] != 'ProtocolError'
    elif isinstance(val, list) and len(val) == 2 and isinstance(val[1], dict):
        core = json.dumps(val[0], sort_keys=True)      # qualifiers (timestamps) are not part of the answer
    else:
        core = json.dumps(val, sort_keys=True)
    o['action'] = _intern(action)
    o['spec'] = _intern(spec)
    o['dig'] = hashlib.sha1(f'{action}|{spec}|{core}'.encode('utf-8', 'surrogatepass')).hexdigest()[:10]
    return o


# ---------------------------------------------------------------- the world: real dispatcher + one module
_MOD = None
HW = {'fin': 0.5, 'nan': float('nan'), 'inf': float('inf'), 'err': None, 'exc': 'exc'}      # err, exc: reading fails


def _mod_class():
    global _MOD
    if _MOD is None:
        boot()
        import frappy.protocol.interface.handler as hmod
        from frappy.datatypes import FloatRange, StringType
        from frappy.errors import HardwareError
        from frappy.modules import Command, Module, Parameter
        hmod.print = lambda *a, **k: None        # the request loop prints tracebacks to stdout
        # diagnostics that render every frame of the stack with its local variables (here: the harness'
        # work lists, tens of ms per error reply); their result is cleared again unless detailed_errors is set
        hmod.formatExtendedStack = lambda *a, **k: ''
        hmod.formatExtendedTraceback = lambda *a, **k: ''

        class Mod(Module):
            p = Parameter('float with limits', FloatRange(0, 10), export='p', readonly=False, default=1.0)
            s = Parameter('text', StringType(), export='s', readonly=False, default='a')
            hw = Parameter('readback of the hardware', FloatRange(), export='hw', default=0.5)
            k = Parameter('a constant', FloatRange(), export='k', constant=3.5)
            t = Parameter('utf-8 text', StringType(isUTF8=True), export='t', readonly=False, default='\u00e9')
            value = Parameter('main value', FloatRange(), default=2.0)
            target = Parameter('main target', FloatRange(0, 100), readonly=False, default=0.0)
            _hw = 0.5

            def read_hw(self):
                if self._hw is None:
                    raise HardwareError('sensor gone (\u00b0C)')
                if self._hw == 'exc':
                    return 1 / 0                     # a driver bug: not a SECoP error
                return self._hw

            @Command(export='stop')
            def stop(self):
                """no argument, no result"""
                self.log.info('stopped \u00fc')

            def write_p(self, value):
                return value

            @Command(FloatRange(), result=FloatRange(), export='cmd')
            def cmd(self, x):
                """twice the argument"""
                return 2 * x
        _MOD = Mod
    return _MOD


class World:
    _root = None

    def __init__(self, hw='fin', detailed=False):
        mod = _mod_class()
        import mlzlog
        from frappy.logging import RemoteLogHandler
        from frappy.protocol.dispatcher import Dispatcher
        from frappy.secnode import SecNode
        if World._root is None:
            World._root = mlzlog.MLZLogger('c07_%d' % os.getpid())
            World._root.setLevel(10)
            World._root.propagate = False
        World._root.handlers[:] = [RemoteLogHandler()]

        class Srv:
            restart = shutdown = None
            module_cfg = {'broken': {'cls': 'verif_no_such_package.Broken'}}    # a module that failed to import
            detailed_errors = detailed
        self.srv = srv = Srv()
        srv.log = Log('srv')
        srv.secnode = SecNode('node', LoggerStub('secnode'), {}, srv)
        srv.secnode.add_secnode_property('description', 'verif node')
        srv.secnode.failed_modules.add('verif_no_such_package')
        srv.dispatcher = Dispatcher('disp', LoggerStub('disp'), {}, srv)
        self.mod = mod('m', World._root.getChild('m'), {'description': 'generated'}, srv)
        self.mod._hw = HW[hw]
        srv.secnode.add_module(self.mod, 'm')
        srv.secnode.get_module('m')           # earlyInit + initModule
        self.events = []                      # the trace
        self.raw = []                         # parallel: concrete bytes per event

    def connect(self, sock, addr=None):
        from frappy.protocol.interface.tcp import TCPRequestHandler
        h = object.__new__(TCPRequestHandler)     # setup / handle / finish called one by one (see serve_ctor)
        h.request, h.client_address, h.server, h.log = sock, addr or ADDRS[0], self.srv, None
        sock.handler, sock.world = h, self
        h.setup()
        return h

    def serve(self, h):
        try:
            h.handle()
            reason = 'returned'
        except Exception as e:   # what RequestHandler.__init__ would log before closing the connection
            reason = 'raised'
            self.raw.append(repr(e)[:200])
        self.events.append({'ev': 'handler_end', 'reason': reason})
        self.raw.append(reason)
        return reason

    def serve_ctor(self, sock, addr):
        """the way socketserver does it: the constructor runs setup, handle and finish"""
        from frappy.protocol.interface.tcp import TCPRequestHandler
        sock.world = self
        n = len(self.srv.log.errors)
        try:
            TCPRequestHandler(sock, addr, self.srv)
            reason = 'raised' if len(self.srv.log.errors) > n else 'returned'
        except Exception as e:
            reason = 'raised'
            self.srv.log.errors.append(repr(e))
        if any(getattr(c, 'request', None) is sock for c in self.srv.dispatcher._connections):
            reason = 'raised'                      # not deregistered: finish() did not run
            self.srv.log.errors.append('connection still registered with the dispatcher')
        self.events.append({'ev': 'handler_end', 'reason': reason})
        self.raw.append(reason if reason == 'returned' else self.srv.log.errors[n:][:1])
        return reason


ADDRS = [('127.0.0.1', 10767), ('::ffff:192.168.1.5', 40000, 0, 0), ('::1', 50000, 0, 0), ('fe80::1', 1, 0, 3)]
RESET = 'reset'          # segment marker: receiving fails (connection reset by peer)
FAILS = {'pipe': BrokenPipeError, 'timeout': socket.timeout, 'reset': ConnectionResetError, 'other': ValueError}


class Log(LoggerStub):
    """remembers what was logged as an error (the constructor of the handler logs exceptions of handle())"""

    def __init__(self, name='log'):
        LoggerStub.__init__(self, name)
        self.errors = []

    def error(self, fmt, *args, **kw):
        if str(fmt).startswith('Traceback'):         # RequestHandler.__init__: log.error(formatException())
            self.errors.append(str(fmt)[-300:])


class FakeSocket:
    """recv yields the scripted segments (never more than asked for), then b''; None = time-out, RESET = error;
    the `failat`-th sendall writes half of its data and fails"""

    def __init__(self, segments, role='main', active=False, failat=None, failexc='pipe', sndspace=1 << 20):
        self.sndspace, self.evt = sndspace, None
        self.segs = [s for s in segments if s is None or s]
        self.role = role
        self.active = active
        self.failat, self.failexc, self.sends, self.failed = failat, failexc, 0, False
        self.eof = False
        self.acc = b''
        self.outacc = b''
        self.calls = 0
        self.bufs = []       # handler buffer seen at every recv call
        self.nreplies = []   # replies emitted before every recv call
        self.replies = 0
        self.pend = []
        self.handler = self.world = None

    def settimeout(self, t):
        pass

    def shutdown(self, how):
        if self.failed or RESET in self.segs:        # like a real socket whose peer is gone
            raise OSError(107, 'Transport endpoint is not connected')

    def close(self):
        pass

    def _handler(self):
        if self.handler is None:
            self.handler = next(c for c in self.world.srv.dispatcher._connections
                                if getattr(c, 'request', None) is self)
        return self.handler

    def recv(self, n):
        self.calls += 1
        if self.eof or self.calls > 5000:
            raise RuntimeError('recv called again after end of input')
        self.bufs.append(bytes(self._handler().data))
        self.nreplies.append(self.replies)
        if not self.segs:
            self.eof = True
            if self.role == 'main':
                self.world.events.append({'ev': 'peer', 'what': 'eof'})
                self.world.raw.append('eof')
            return b''
        seg = self.segs[0]
        if seg is None:
            self.segs.pop(0)
            raise socket.timeout()
        if seg == RESET:
            self.eof = True
            self.world.events.append({'ev': 'peer', 'what': 'reset'})
            self.world.raw.append('reset')
            raise ConnectionResetError(104, 'Connection reset by peer')
        piece = seg[:n]
        if len(seg) > n:
            self.segs[0] = seg[n:]
        else:
            self.segs.pop(0)
        if self.role == 'main':
            parts = (self.acc + piece).split(b'\n')
            self.acc = parts.pop()
            if parts:                 # (segments completing no line tell the spec nothing)
                reqs = [a_in(x) for x in parts]
                self.pend += reqs
                self.world.events.append({'ev': 'chunk_in', 'reqs': reqs})
                self.world.raw.append([x[:80].decode('latin-1') for x in parts])
        return piece

    def send(self, data):
        """like a socket with a time-out: accepts what fits into the free space of the send buffer (the peer
        drains it between our calls - with a small `sndspace` a slowly reading peer) and returns the count"""
        self.sends += 1
        if self.failat is not None and self.sends == self.failat + 1 and not self.failed:
            self.failed = True          # part of the line may be on the wire, the rest cannot be written
            self.world.events.append({'ev': 'peer', 'what': 'deaf'} if self.role == 'main' else {'ev': 'other_fail'})
            self.world.raw.append('send fails: ' + self.failexc)
            raise FAILS[self.failexc](32, 'send failed')
        whole, data = bytes(data[:12]), bytes(data)[:self.sndspace]
        if not self.outacc:
            self.evt = None
            if whole == b'error_update':
                # event or answer to a line "update ..."?  the answer is sent by the request loop itself, an
                # event passes through the dispatcher (broadcast / activate): look at who is calling
                f, self.evt = sys._getframe(1), False
                while f is not None and not self.evt:
                    self.evt = f.f_code.co_filename.endswith('protocol/dispatcher.py')
                    f = f.f_back
        parts = (self.outacc + data).split(b'\n')       # judged on the bytes the peer receives
        self.outacc = parts.pop()
        for x in parts:
            self._line(x, self.evt)
        return len(data)

    def sendall(self, data):
        data = bytes(data)
        while data:
            data = data[self.send(data):]

    def _line(self, x, evt=None):
        o = a_out(x)
        if evt is not None:
            o = dict(o, evt=evt)
        if self.role == 'main':
            self.world.events.append({'ev': 'line_out', 'o': o})
            if not _is_async(o, self.pend):
                self.replies += 1
                del self.pend[:1]
        else:
            self.world.events.append({'ev': 'other_out', 'active': self.active, 'o': o})
        self.world.raw.append(x[:160].decode('latin-1'))

    def flush(self):
        if self.outacc and not self.failed:      # (after a failed send the torn rest is expected)
            self._line(self.outacc)
        self.outacc = b''


def run_stream(segments, hw='fin', other='idle', detailed=False, ctor=False, addr=0, failat=None, failexc='pipe',
               sndspace=1 << 20):
    """one connection fed with the segments, a second connection on the same dispatcher watching
    (idle, activated, or activated with a socket that fails when the next update is sent to it)"""
    w = World(hw, detailed)
    s2 = FakeSocket([] if other == 'idle' else [b'activate\n'], role='other', active=other != 'idle')
    h2 = w.connect(s2, ADDRS[(addr + 1) % len(ADDRS)])
    h2.handle()
    if other == 'broken':
        s2.failat = s2.sends
    del w.events[:], w.raw[:]
    s1 = FakeSocket(segments, failat=failat, failexc=failexc, sndspace=sndspace)
    s2.sndspace = sndspace
    if ctor:
        w.serve_ctor(s1, ADDRS[addr % len(ADDRS)])
        s1.flush()
    else:
        h1 = w.connect(s1, ADDRS[addr % len(ADDRS)])
        w.serve(h1)
        s1.flush()
        h1.finish()
    s2.flush()
    h2.finish()
    return w, s1


def _is_async(o, pend):
    """same rule as Wire!IsAsync (needed to pair replies with requests when building reference answers)"""
    return o['action'] in ('update', 'log', '_') or (o['iserr'] and o['base'] == 'update' and (not pend or o['evt']))


def pairs(events):
    """(request descriptor or None, output descriptor) for every reply, in order"""
    pend, res = [], []
    for e in events:
        if e['ev'] == 'chunk_in':
            pend += e['reqs']
        elif e['ev'] == 'line_out' and not _is_async(e['o'], pend):
            res.append((pend.pop(0) if pend else None, e['o']))
    return res


def answers(events):
    """digests of the replies, in order (what NonInterference / ChunkingIndependence compare)"""
    return [o['dig'] for _, o in pairs(events)]


READ = 1024          # MESSAGE_READ_SIZE of frappy/protocol/interface/tcp.py (cross-checked in run())


def segmentations(stream, rnd, sized=True):
    """everything at once; every line in two pieces with a pause (receive time-out) inside the first line;
    seeded random cuts; for streams longer than one read two more, relative to the read size, every piece
    followed by a pause longer than the socket time-out: pieces of exactly READ bytes, and READ-1 / READ+1 / 2*READ"""
    yield [stream]
    cuts = set()
    start = 0
    for i, c in enumerate(stream):
        if c == 10:
            cuts.add(i + 1)
            cuts.add((start + i + 1) // 2)
            start = i + 1
    segs = _cut(stream, cuts)
    yield segs[:1] + [None] + segs[1:]
    n = len(stream)
    k = rnd.randint(1, min(8, max(1, n)))
    cuts = {rnd.randint(1, max(1, n)) for _ in range(k)}
    if n > 3:
        p = rnd.randint(1, n - 2)
        cuts |= {p, p + 1}           # a one byte segment
    segs = _cut(stream, cuts)
    if rnd.random() < 0.3 and segs:
        segs.insert(rnd.randint(0, len(segs)), None)     # a receive time-out in between
    yield segs
    if n >= READ and sized:
        for sizes in ([READ], [READ - 1, READ + 1, 2 * READ, READ]):
            segs, p, i = [], 0, 0
            while p < n:
                segs += [stream[p:p + sizes[i % len(sizes)]], None]
                p += sizes[i % len(sizes)]
                i += 1
            yield segs


def _cut(stream, cuts):
    pts = sorted(c for c in cuts if 0 < c < len(stream))
    return [stream[a:b] for a, b in zip([0] + pts, pts + [len(stream)])]


# ---------------------------------------------------------------- spec -> code: framing
def _replay_framing(beh):
    """beh: {stream, steps:[{chunk, exp:{buf, lines}}], reqs:[LineReq]} from Gen_Wire"""
    res = {'bad': None, 'traces': [], 'raws': []}
    for gname, g in (('g1', GAMMA1), ('g2', GAMMA2)):
        if gname == 'g2' and not ('N' in beh['stream'] and ('x' in beh['stream'] or 'y' in beh['stream'])):
            continue       # the second concretisation differs only in the payload bytes of complete lines
        conc = lambda s: b''.join(g[c] for c in s)
        segs = [None if st['act'] == 'pause' else conc(st['chunk']) for st in beh['steps']]    # pause: time-out
        rs = beh.get('readsize')
        if rs:          # the enumeration is relative to the read size: scale MESSAGE_READ_SIZE down to it
            _mod_class()
            import frappy.protocol.interface.tcp as tcpmod
            saved, tcpmod.MESSAGE_READ_SIZE = tcpmod.MESSAGE_READ_SIZE, rs
        try:
            w, s1 = run_stream(segs, other='idle')
        finally:
            if rs:
                tcpmod.MESSAGE_READ_SIZE = saved
        res['traces'].append(w.events)
        res['raws'].append(w.raw)
        if res['bad']:
            continue
        # state after chunk i is what the handler holds when it asks for chunk i+1
        for i, st in enumerate(beh['steps']):
            if rs and st['act'] == 'recv' and len(st['chunk']) == rs and i + 1 < len(beh['steps']):
                continue      # a full read may legitimately be followed by another one before the buffer is scanned
            exp = {'buf': conc(st['exp']['buf']).decode('latin-1'), 'nlines': len(st['exp']['lines'])}
            got = {'buf': s1.bufs[i + 1].decode('latin-1') if i + 1 < len(s1.bufs) else '<handler gone>',
                   'nlines': s1.nreplies[i + 1] if i + 1 < len(s1.nreplies) else -1}
            if got != exp:
                res['bad'] = {'gamma': gname, 'step': i, 'expected': exp, 'observed': got,
                              'what': 'buffer' if got['buf'] != exp['buf'] else 'reply count'}
                break
        if gname == 'g1' and not res['bad']:
            # alpha_in agrees with the specification's definition of action / specifier on this alphabet
            lines = conc(beh['stream']).split(b'\n')[:-1]
            for ln, req in zip(lines, beh['reqs']):
                mine = a_in(ln)
                theirs = {'blank': req['blank'], 'padded': req['padded'], 'canon': req['canon'],
                          'act': _intern(conc(req['act']).decode() if not req['blank'] else 'help'),
                          'spec': _intern(conc(req['spec']).decode())}
                if {k: mine[k] for k in theirs} != theirs:
                    res['bad'] = {'gamma': gname, 'what': 'alpha_in', 'line': ln.decode('latin-1'),
                                  'expected': theirs, 'observed': mine}
    return res


# ---------------------------------------------------------------- spec -> code: line class sequences
OTHERS = ['idle', 'active', 'broken']
SNDSPACE = [1 << 20, 61, 4096]        # free space of the send buffer per send(): roomy / slowly reading peer / one page
BURST = (b'ping ' + b'a' * 250 + b'\n') * 4 + (b'ping ' + b'b' * 255 + b'\n') * 4      # 1024 + 1044 bytes

# byte streams whose length / line ends are placed relative to the read size (each under all segmentations)
STREAMS = {
    'short_requests': b'ping tok\n' * 230,                                     # 2070 bytes of short lines
    'line_1023': b'ping ' + b'c' * 1017 + b'\nread m:p\n',                     # NL is byte 1023
    'line_1024': b'ping ' + b'c' * 1018 + b'\nread m:p\n',                     # NL is byte 1024
    'line_1025': b'ping ' + b'c' * 1019 + b'\nread m:p\n',
    'two_reads': (b'change m:s "' + b'd' * 1010 + b'"\n') * 2 + b'read m:s\n',  # 2 x 1024, then a short line
    'line_3k': b'change m:s "' + b'e' * 3059 + b'"\nread m:s\n',                # 3072 + 1 + ...
    'no_final_nl': b'ping ' + b'f' * 1018 + b'\nread m:p',                      # the tail is no request
}


def _replay_stream(item):
    name, seed = item
    rnd = random.Random(seed)
    stream, ref = STREAMS[name], None
    res = {'traces': [], 'raws': [], 'segs': []}
    for k, segs in enumerate(segmentations(stream, rnd)):
        w, _ = run_stream(segs, other=OTHERS[(seed + k) % 3], ctor=k % 2 == 1, addr=seed + k, sndspace=SNDSPACE[k % 3])
        if ref is None:
            ref = answers(w.events)
        else:
            w.events.append({'ev': 'same', 'ref': ref})
            w.raw.append('same')
        res['traces'].append(w.events)
        res['raws'].append(w.raw)
        res['segs'].append([None if s is None else len(s) for s in segs])
    return res


def _replay_classes(item):
    seq, seed = item
    rnd = random.Random(seed)
    stream = b''.join(CLASSES[c] + b'\n' for c in seq)
    hws = ['fin', 'nan', 'inf', 'err', 'exc'] if 'read_hw' in seq or ('activate' in seq and (len(seq) == 1 or len(seq) == 2 and seed % 4 == 0)) \
        else ['fin']
    res = {'traces': [], 'raws': [], 'segs': [], 'bad': None}
    detailed = seed % 5 == 0

    def keep(w, info):
        res['traces'].append(w.events)
        res['raws'].append(w.raw)
        res['segs'].append(info)

    for hw in hws:
        ref = None
        sized = len(stream) < 20000 and (len(seq) == 1 or seed % 6 == 0)     # (the 250 kB lines: 3 segmentations)
        for k, segs in enumerate(segmentations(stream, rnd, sized)):
            # the other dimensions of a connection rotate with the segmentation: what the second connection
            # is, how the handler is driven (constructor like socketserver / step by step), the peer's address
            w, s1 = run_stream(segs, hw=hw, other=OTHERS[(seed + k) % 3], detailed=detailed, ctor=k == 1, addr=seed + k,
                               sndspace=SNDSPACE[k % 3])
            if s1.replies != len(seq) and not res['bad']:
                res['bad'] = {'what': 'reply count', 'expected': len(seq), 'observed': s1.replies, 'seg': k, 'hw': hw}
            if ref is None:
                ref = answers(w.events)
                mal = [a_in(CLASSES[c])['mal'] for c in seq]
                if any(mal) and not all(mal):
                    w2, _ = run_stream([b''.join(CLASSES[c] + b'\n' for c, m in zip(seq, mal) if not m)], hw=hw,
                                       detailed=detailed)
                    w.events.append({'ev': 'ni', 'ref': answers(w2.events)})
                    w.raw.append('ni')
            else:
                w.events.append({'ev': 'same', 'ref': ref})
                w.raw.append('same')
            keep(w, {'hw': hw, 'seg': [None if s is None else len(s) for s in segs]})
    if len(stream) < 20000 and (len(seq) == 1 or seed % 48 == 0):
        # the same lines behind a pipelined burst: one read's worth of requests ending exactly at a line end,
        # then another one ending inside a line; all 5 segmentations must give the same answers
        stream2, ref = BURST + stream, None
        for k, segs in enumerate(segmentations(stream2, rnd)):
            w, s1 = run_stream(segs, other=OTHERS[(seed + k) % 3], ctor=k % 2 == 1, addr=seed + k, sndspace=SNDSPACE[k % 3])
            if s1.replies != len(seq) + 8 and not res['bad']:
                res['bad'] = {'what': 'reply count', 'expected': len(seq) + 8, 'observed': s1.replies, 'seg': k,
                              'hw': 'burst'}
            if ref is None:
                ref = answers(w.events)
            else:
                w.events.append({'ev': 'same', 'ref': ref})
                w.raw.append('same')
            keep(w, {'hw': 'fin', 'burst': True, 'seg': [None if s is None else len(s) for s in segs]})
    if len(seq) == 1 or seed % 8 == 0:
        # the peer leaves: reset while we read / our sends fail (broken pipe, time-out on a full buffer, ...)
        cut = rnd.randint(0, len(stream))
        w, _ = run_stream([stream[:cut], RESET], ctor=bool(seed & 8), addr=seed, other=OTHERS[seed % 3])
        keep(w, {'hw': 'fin', 'seg': [cut, 'RESET']})
        failat, exc = rnd.randint(0, 3), rnd.choice(sorted(FAILS))
        w, _ = run_stream([stream], ctor=not seed & 8, addr=seed, other=OTHERS[(seed + 1) % 3], failat=failat, failexc=exc)
        keep(w, {'hw': 'fin', 'seg': [len(stream)], 'failat': failat, 'failexc': exc})
    return res


# ---------------------------------------------------------------- code -> spec: fuzzing
_SPECS = [b'm:p', b'm:s', b'm:hw', b'm', b'm:cmd', b'zz', b'.', b'm:status', b'm:zz', b'M:p', b'm:p:q']
_DATA = [b'3', b'7.5', b'-1', b'99', b'1e400', b'"hi"', b'"a b  c"', b'null', b'true', b'[1,2]', b'{"a":1}', b'NaN',
         b'Infinity', b'-Infinity', b'"\\ud800"', b'"\xc3\xa9"', b'0', b'""', b'"debug"', b'"off"', b'"bogus"',
         b'1e-320', b'12345678901234567890123', b'[[[[[[[[[[]]]]]]]]]]', b'{bad', b'3 4', b'"' + b'z' * 1200 + b'"',
         b'[' * 6000, b'{"a":' * 6000, b'[' * 3000 + b']' * 3000, b'{"a":' * 4000 + b'0' + b'}' * 4000, b'[' * 50000,
         b'[{"a":' * 5000, b'9' * 5000, b'-' + b'9' * 4400 + b'.5', b'[1' + b',1' * 20000 + b']']
_INSERT = [b'\n', b'\r', b'\r\n', b' ', b'  ', b'\t', b'\x00', b'\xff', b'\xc3', b'\xe2\x82', b'\xa9', b'"', b'{', b'[',
           b':', b'\x0b', b'\x1f', b'\xc2\xa0', b'\xe2\x80\xa8', b'NaN', b'_', b'error_', b'\\']
_ACTIONS = [b'*IDN?', b'describe', b'read', b'change', b'do', b'ping', b'activate', b'deactivate', b'logging', b'help',
            b'', b'request', b'_ident', b'help', b'update', b'reply', b'error_read', b'_', b'__init__', b'handle',
            b'READ', b'read\xc3\xa9', b'%s', b'{0}']


def _gen_line(rnd):
    r = rnd.random()
    if r < 0.45:
        line = CLASSES[rnd.choice(sorted(CLASSES))]
    else:
        line = rnd.choice(_ACTIONS)
        if rnd.random() < 0.8:
            line += b' ' + rnd.choice(_SPECS)
            if rnd.random() < 0.6:
                line += b' ' + rnd.choice(_DATA)
    if len(line) > 300 and rnd.random() < 0.5:
        line = line[:40] + line[-5:]
    for _ in range(rnd.choice([0, 0, 0, 1, 1, 2, 3])):      # byte level mutation
        m = rnd.random()
        pos = rnd.randint(0, len(line))
        if m < 0.4:
            line = line[:pos] + rnd.choice(_INSERT) + line[pos:]
        elif m < 0.6 and line:
            pos = min(pos, len(line) - 1)
            line = line[:pos] + bytes([line[pos] ^ (1 << rnd.randint(0, 7))]) + line[pos + 1:]
        elif m < 0.8 and line:
            line = line[:pos] + line[pos + rnd.randint(1, 3):]
        elif m < 0.9:
            line = line[:pos] + bytes([rnd.randint(0, 255)]) + line[pos:]
        else:
            line = line[:pos] + line[pos // 2:pos] + line[pos:]
    return line


def _fuzz(seed):
    rnd = random.Random(seed)
    lines = [_gen_line(rnd) for _ in range(rnd.randint(1, 9))]
    stream = b'\n'.join(lines) + (b'\n' if rnd.random() < 0.85 else b'')
    kw = {'hw': rnd.choice(['fin', 'fin', 'fin', 'nan', 'inf', 'err', 'exc']), 'other': rnd.choice(OTHERS),
          'detailed': rnd.random() < 0.2,          # Interface option detailed_errors
          'ctor': rnd.random() < 0.5, 'addr': rnd.randrange(len(ADDRS)), 'sndspace': rnd.choice(SNDSPACE + [7, 1])}
    segs = list(segmentations(stream, rnd))
    segs = segs[rnd.choice([0, 1, 2, 2, 2] + list(range(3, len(segs))) * 3)]
    leave = rnd.random()
    if leave < 0.1:
        segs = segs[:rnd.randint(0, len(segs))] + [RESET]
    elif leave < 0.2:
        kw.update(failat=rnd.randint(0, 6), failexc=rnd.choice(sorted(FAILS)))
    w, _ = run_stream(segs, **kw)
    # NonInterference on the stream as the handler saw it
    real = stream.split(b'\n')[:-1]
    mal = [a_in(x)['mal'] for x in real]
    if leave >= 0.2 and any(mal) and not all(mal):
        w2, _ = run_stream([b''.join(x + b'\n' for x, m in zip(real, mal) if not m)], hw=kw['hw'], other='idle',
                           detailed=kw['detailed'])
        w.events.append({'ev': 'ni', 'ref': answers(w2.events)})
        w.raw.append('ni')
    return {'trace': w.events, 'raw': w.raw, 'stream': stream.decode('latin-1'), 'world': kw,
            'seg': [s if s is None or s == RESET else len(s) for s in segs]}


# ---------------------------------------------------------------- LinesWhole: a second thread sends
class SpyLock:
    """the connection's send lock, observed: tells when a thread arrives at the lock"""

    def __init__(self, real, arrived):
        self.real, self.arrived = real, arrived

    def acquire(self, *a, **k):
        self.arrived(threading.current_thread().name)
        return self.real.acquire(*a, **k)

    def release(self):
        return self.real.release()

    def locked(self):
        return self.real.locked()

    def __enter__(self):
        self.acquire()
        return self

    def __exit__(self, *exc):
        self.release()


def _two_threads(seed):
    """thread 'req' serves requests, thread 'upd' announces updates, both parked at gates and released turn by
    turn by this (coordinating) thread.  sendall writes every line in two halves; in the middle of a chosen
    line the other thread is released and the writer waits until that thread either arrives at the
    connection's send lock or has written a whole line of its own."""
    rnd = random.Random(seed)
    w = World('fin')
    lines = [b'activate'] + [rnd.choice([b'ping x', b'describe', b'bogus', b'read zz:p', b'', b'ping'])
                             for _ in range(rnd.randint(2, 5))]     # nothing that needs the module's lock
    nupd = rnd.randint(2, 5)
    frags, failed, partial = [], [], {}
    gate = {'req': threading.Semaphore(0), 'upd': threading.Semaphore(0)}
    idle = {'req': threading.Event(), 'upd': threading.Event()}
    seen = threading.Event()
    plan = {'V': None, 'O': None, 'interrupt': False, 'watch': None, 'failed': False,
            'failafter': rnd.randint(0, 2) if rnd.random() < 0.35 else None}   # n-th interrupted send fails

    class Sock(FakeSocket):
        def recv(self, n):
            if self.calls >= 1:              # the first line (activate) is served before the turns start
                idle['req'].set()
                gate['req'].acquire()
            return FakeSocket.recv(self, n)

        def send(self, data):
            """the send buffer takes half a line per call; a caller that comes back with the rest completes it"""
            me, data = threading.current_thread().name, bytes(data)
            if partial.get(me) == data:
                del partial[me]
                frags.append({'ev': 'frag', 'th': me, 'half': 2, 'bytes': data.decode('latin-1')})
                if plan['watch'] == me:
                    seen.set()
                return len(data)
            half = max(1, len(data) // 2)
            partial[me] = data[half:]
            self.first_half(me, data[:half])
            return half

        def sendall(self, data):
            me = threading.current_thread().name
            half = max(1, len(data) // 2)
            self.first_half(me, data[:half])
            frags.append({'ev': 'frag', 'th': me, 'half': 2, 'bytes': data[half:].decode('latin-1')})
            if plan['watch'] == me:
                seen.set()

        def first_half(self, me, data):
            frags.append({'ev': 'frag', 'th': me, 'half': 1, 'bytes': data.decode('latin-1')})
            if plan['interrupt'] and plan['V'] == me:
                plan['interrupt'] = False
                o = plan['O']
                seen.clear()
                plan['watch'] = o
                idle[o].clear()
                gate[o].release()            # the other thread runs now ...
                if not wait(seen):           # ... until it is at the send lock or has written a line
                    failed.append('the released thread neither reached the send lock nor wrote a line')
                plan['watch'] = None
                if plan['failafter'] == 0:   # the rest of this line cannot be written (the other thread waits)
                    plan['failed'] = True
                    frags.append({'ev': 'frag_fail', 'th': me, 'half': 2, 'bytes': ''})
                    raise BrokenPipeError(32, 'Broken pipe')
                if plan['failafter'] is not None:
                    plan['failafter'] -= 1

    sock = Sock([x + b'\n' for x in lines])
    h = w.connect(sock)
    out = {}

    def wait(ev):
        for _ in range(100):
            if ev.wait(0.1):
                return True
            if 'reason' in out:          # the handler has ended: nobody will arrive
                return ev.wait(0.2) or plan['failed']
        return False

    def arrived(name):
        if plan['watch'] == name:
            seen.set()
    h.send_lock = SpyLock(h.send_lock, arrived)

    def updater():
        for i in range(nupd):
            idle['upd'].set()
            gate['upd'].acquire()
            w.mod.announceUpdate('hw', 100.0 + i)
        idle['upd'].set()

    treq = threading.Thread(target=lambda: out.update(reason=w.serve(h)), name='req', daemon=True)
    tupd = threading.Thread(target=updater, name='upd', daemon=True)
    treq.start()
    ok = wait(idle['req'])
    tupd.start()
    ok = ok and wait(idle['upd'])
    budget = {'req': len(lines) - 1, 'upd': nupd}
    turns = []
    while ok and not failed and any(budget.values()):
        v = rnd.choice([k for k in sorted(budget) if budget[k]])
        o = 'upd' if v == 'req' else 'req'
        want = budget[o] > 0 and rnd.random() < 0.7
        plan.update(V=v, O=o, interrupt=want)
        budget[v] -= 1
        idle[v].clear()
        gate[v].release()
        ok = wait(idle[v])
        used = want and not plan['interrupt']
        plan['interrupt'] = False
        if used:
            budget[o] -= 1
            ok = ok and wait(idle[o])
        turns.append([v, used])
        if plan['failed']:                   # the connection is broken: the handler ends by itself
            treq.join(10)
            break
    gate['req'].release()                    # end of input
    treq.join(10)
    for _ in range(nupd + 1):
        gate['upd'].release()                # (only needed when the scenario was cut short)
    tupd.join(10)
    h.send_lock = h.send_lock.real
    stuck = not ok or bool(failed) or treq.is_alive() or tupd.is_alive()
    if stuck and 'reason' not in out:
        raise MachineryError(f'two-thread scenario stuck (seed {seed}): {failed} turns={turns}')
    h.finish()
    return {'trace': [{k: f[k] for k in ('ev', 'th', 'half')} for f in frags], 'raw': frags,
            'reason': 'early' if stuck and out['reason'] == 'returned' else out['reason'], 'turns': turns,
            'seed': seed, 'sendfail': plan['failed']}


# ---------------------------------------------------------------- a real TCPServer on the loopback interface
def _real_tcp(seed, pause=False):
    """the whole interface as the server runs it: TCPServer (socketserver.ThreadingTCPServer, IPv4 or dual
    stack) accepts a real connection and constructs the handler in its own thread; a real client sends the
    stream in random pieces, reads until every owed reply has arrived, and closes"""
    import time
    rnd = random.Random(seed)
    w = World(rnd.choice(['fin', 'fin', 'err']), detailed=rnd.random() < 0.3)
    names = [c for c in sorted(CLASSES) if len(CLASSES[c]) < 40000]
    seq = [rnd.choice(names) for _ in range(rnd.randint(2, 6))]
    stream = b''.join(CLASSES[c] + b'\n' for c in seq)
    reqs = [a_in(CLASSES[c]) for c in seq]
    pieces = _cut(stream, {rnd.randint(1, len(stream)) for _ in range(rnd.randint(0, 6))})
    if pause:       # exactly one read's worth of complete requests, then silence longer than the socket time-out
        reqs = [a_in(x) for x in BURST[:READ].split(b'\n')[:-1]] + reqs
        pieces = [BURST[:READ], 1.3] + pieces
    from frappy.protocol.interface.tcp import TCPServer
    ipv6 = bool(seed % 2)
    log = Log('tcp')
    server = TCPServer('tcp', log, {'uri': 'tcp://0', 'ipv6': ipv6, 'detailed_errors': w.srv.detailed_errors}, w.srv)
    th = threading.Thread(target=server.serve_forever, kwargs={'poll_interval': 0.02}, daemon=True)
    th.start()
    events, raw = [{'ev': 'chunk_in', 'reqs': reqs}], [seq]
    reason = 'stuck'
    try:
        c = socket.create_connection(('127.0.0.1', server.server_address[1]), timeout=10)
        for seg in pieces:
            if isinstance(seg, float):
                time.sleep(seg)
            else:
                c.sendall(seg)
        c.settimeout(10)
        buf, pend, done = b'', list(reqs), 0
        while pend:
            data = c.recv(65536)
            if not data:
                break
            buf += data
            lines = buf.split(b'\n')
            buf = lines.pop()
            for x in lines:
                o = a_out(x)
                events.append({'ev': 'line_out', 'o': o})
                raw.append(x[:160].decode('latin-1'))
                if not _is_async(o, pend):
                    del pend[:1]
        c.close()
        events.append({'ev': 'peer', 'what': 'eof'})
        raw.append('eof')
        for _ in range(300):                 # the handler's thread notices the end and deregisters
            if not w.srv.dispatcher._connections:
                reason = 'raised' if log.errors else 'returned'
                break
            time.sleep(0.01)
    except OSError as e:                     # the server closed or reset the connection
        raw.append(repr(e))
        events.append({'ev': 'peer', 'what': 'eof'})
        reason = 'raised'
    finally:
        server.shutdown()
        server.server_close()
        th.join(5)
    events.append({'ev': 'handler_end', 'reason': reason})
    raw.append([reason] + log.errors[:1])
    return {'trace': events, 'raw': raw, 'seq': seq, 'seed': seed, 'ipv6': ipv6, 'pause': pause}


# ---------------------------------------------------------------- codec inverse law
_G_ACT = {'plain': ['reply', 'changed', 'pong'], 'error': ['error_read', 'error_frob'],
          'ident': ['ISSE&SINE2020,SECoP,V2019-09-16,v1.0']}
_G_SPEC = {'none': [None], 'token': ['m', 'tok'], 'colon': ['m:p', 'mod_1:_par']}
_G_DATA = {'none': [None], 'false': [False], 'zero': [0, 0.0], 'emptystr': [''], 'emptylist': [[], {}],
           'number': [3, -2.5, 1e300, 12345678901234567890], 'string': ['abc', 'a"b\\c'],
           'blankstring': [' ', 'a b  c ', ' lead', 'trail\t', 'two\nlines'], 'list': [[1, 2.5, 'x', None]],
           'dict': [{'t': 1.5, 'e': 'x y'}], 'nested': [[1.0, {'t': 12.5}], ['InternalError', 'some text', {}]],
           'unicode': ['\u00e9\u20ac', '\U0001f600', '\ud800'], 'nan': [float('nan'), [float('nan'), {}]],
           'inf': [float('inf'), [-float('inf'), {'t': 1}]]}


def _kind(table, value, same):
    if not same:
        return 'DIFF'
    for k, vals in table.items():
        for v in vals:
            if type(v) is type(value) and repr(v) == repr(value):
                return k
    return 'OTHER'


def _codec(step):
    boot()
    from frappy.protocol.interface import decode_msg, encode_msg_frame, get_msg
    evs = []
    for a in _G_ACT[step['a']]:
        for s in _G_SPEC[step['s']]:
            for d in _G_DATA[step['d']]:
                e = {'ev': 'codec', 'a': step['a'], 's': step['s'], 'd': step['d'], 'a2': 'RAISED', 's2': '', 'd2': '',
                     'utf8': False, 'strict': False, 'nanonly': False, 'concrete': repr((a, s, d))}
                try:
                    frame = encode_msg_frame(a, s, d)
                    msg, rest = get_msg(frame)
                    if rest != b'' or msg is None:
                        e['a2'] = 'FRAME'
                    else:
                        o = a_out(msg)
                        e.update(utf8=o['utf8'], strict=o['strict'], nanonly=o['nanonly'])
                        a2, s2, d2 = decode_msg(msg)
                        e['a2'] = _kind(_G_ACT, a2, a2 == a)
                        e['s2'] = _kind(_G_SPEC, s2, s2 == s)
                        e['d2'] = _kind(_G_DATA, d2, repr(d2) == repr(d) and type(d2) is type(d))
                except Exception as ex:
                    e['error'] = repr(ex)[:200]
                evs.append(e)
    return evs


# ---------------------------------------------------------------- TLC trace validation (with deviations)
def _validate_part(part):
    d = tempfile.mkdtemp(prefix='trace-')
    try:
        f = Path(d) / 'traces.json'
        f.write_text(json.dumps(part))
        r = run_tlc('Trace_Wire', 'Trace_Wire.cfg', workers=1, env={'TRACE_FILE': str(f)}, timeout=900,
                    deadlock=False)
        if r.violated or not r.ok:
            raise MachineryError(f'trace validation Trace_Wire failed: {r.violated or r.error}\n{r.out[-3000:]}')
        return r
    finally:
        shutil.rmtree(d, ignore_errors=True)


def validate(traces):
    """code -> spec: returns verdicts[i] = None | (l, clause), devs[i] = set of deviations used"""
    from concurrent.futures import ThreadPoolExecutor
    verdicts, devs = {}, {}
    states = trans = 0
    par = max(1, min(6, int(os.environ.get('VERIF_PROCS', 6))))
    chunk = min(7000, max(1500, -(-len(traces) // par)))       # one JVM per chunk, `par` side by side
    bases = list(range(0, len(traces), chunk))
    with ThreadPoolExecutor(par) as ex:
        results = list(ex.map(lambda b: _validate_part(traces[b:b + chunk]), bases))
    for base, r in zip(bases, results):
        states += r.distinct
        trans += r.generated
        acc = {x[0] for x in r.printed_tuples('ACCEPT')}
        rej = {x[0]: (x[1], x[2]) for x in r.printed_tuples('REJECT')}
        for x in r.printed_tuples('DEV'):
            devs.setdefault(base + x[0] - 1, set()).add(x[1])
        for i in range(len(traces[base:base + chunk])):
            if i + 1 in rej:
                verdicts[base + i] = rej[i + 1]
            elif i + 1 in acc:
                verdicts[base + i] = None
            else:
                verdicts[base + i] = (-1, 'no verdict printed')
    return verdicts, devs, states, trans


def _req_at(trace, l):
    """the request descriptor a rejected line_out was judged against (for the signature)"""
    pend = []
    for e in trace[:max(l - 1, 0)]:
        if e['ev'] == 'chunk_in':
            pend += e['reqs']
        elif e['ev'] == 'line_out' and pend and not _is_async(e['o'], pend):
            pend.pop(0)
    return pend[0] if pend else None


def _judge(chk, groups):
    """groups: [(kind, traces, details(i))]; send the recorded traces to TLC, turn rejections and
    deviations into violations"""
    flat = [(kind, tr, details, i) for kind, traces, details in groups for i, tr in enumerate(traces)]
    verdicts, devs, st, trn = validate([x[1] for x in flat])
    chk.states += st
    chk.transitions += trn
    for n, v in sorted(verdicts.items()):
        kind, trace, details, i = flat[n]
        chk.impl_traces += 1
        for dv in sorted(devs.get(n, ())):
            chk.violation({'module': 'Wire', 'deviation': dv}, {'kind': kind, 'trace': trace, **details(i)})
        if v is not None:
            l, clause = v
            ev = trace[l - 1] if 0 < l <= len(trace) else {}
            sig = {'module': 'Wire', 'clause': clause, 'event': ev.get('ev'), 'source': kind}
            if ev.get('ev') == 'line_out':
                r = _req_at(trace, l) or {}
                sig.update(req_act=r.get('act') if r.get('act') in ARITY else 'other', out_iserr=ev['o']['iserr'],
                           req_flags=''.join(k[0] for k in ('blank', 'padded', 'decfail', 'mal', 'nonascii') if r.get(k)))
            chk.violation(sig, {'kind': kind, 'failed_at': l, 'event': ev, 'trace': trace, **details(i)})


# ---------------------------------------------------------------- the check
def run(chk):
    quick = chk.tier == 'quick'
    boot()
    import faulthandler
    import time as _t
    faulthandler.dump_traceback_later(300 if quick else 3000, exit=False)     # diagnosis of a stuck run
    t0 = [_t.time()]

    def stage(name):
        chk.notes.setdefault('stage_s', {})[name] = round(_t.time() - t0[0], 1)
        t0[0] = _t.time()
    chk.rule = ('framing: every (stream, cut) of Gen_Wire (length <= 4 quick / 5 thorough over {NL,CR,SP,x,y}, two '
                'concretisations) run on the real handler, buffer and reply count compared after every chunk; request '
                'loop: every sequence of line classes of Gen_Wire x 3 segmentations; fuzz: seeded byte-level mutants x '
                'random segmentation; each execution is one trace judged by Trace_Wire. A case is distinct by its '
                '(stream, cut) / class sequence / seed; non-trivial = at least one NL-terminated line')
    from concurrent.futures import ThreadPoolExecutor
    with ThreadPoolExecutor(6) as ex:
        # 1 design (the JVMs run side by side)
        jobs = [ex.submit(sany, m) for m in ('Gen_Wire', 'Trace_Wire')]      # both extend Wire
        jobs += [ex.submit(model_check, 'Wire', cfg, timeout=900) for cfg in (
            'MC_Wire_quick.cfg' if quick else 'MC_Wire_thorough.cfg',
            'MC_Wire_loop_quick.cfg' if quick else 'MC_Wire_loop_thorough.cfg', 'MC_Wire_send.cfg')]
        jobs.append(ex.submit(run_tlc, 'Wire', 'MC_Wire_send_nolock.cfg', timeout=300))
        res = [j.result() for j in jobs]
    for r in res[2:5]:
        chk.add_tlc(r)
    if not (res[5].violated and res[5].violated[1] == 'LinesWhole'):
        raise MachineryError('LinesWhole is vacuous: the design without the send lock does not violate it')

    stage('design')
    groups = []

    def flush(limit=0):
        """judge what has been recorded so far (bounded memory in the thorough tier)"""
        if groups and sum(len(g[1]) for g in groups) >= limit:
            _judge(chk, groups)
            del groups[:]

    def batches(items, n=12000):
        for i in range(0, len(items), n):
            yield items[i:i + n]

    # 2 spec -> code: framing
    r, behs = emit_behaviours('Gen_Wire', 'Gen_Wire_framing_quick.cfg' if quick else 'Gen_Wire_framing_thorough.cfg',
                              maximal_only=False, timeout=900)
    chk.add_tlc(r)
    chk.sample({'framing': {'stream': behs[len(behs) // 2]['stream'],
                            'cut': [len(s['chunk']) for s in behs[len(behs) // 2]['steps']]}})
    r, behs2 = emit_behaviours('Gen_Wire', 'Gen_Wire_framing_pause_%s.cfg' % chk.tier, maximal_only=False, timeout=900)
    chk.add_tlc(r)
    for b in behs2:
        b['readsize'] = 2          # == ReadSize of Gen_Wire_framing_pause_*.cfg
    behs += behs2
    for part in batches(behs):
        traces, info = [], []
        for beh, x in zip(part, pool_map(_replay_framing, part)):
            cut = [len(s['chunk']) or 'pause' for s in beh['steps']] + ([{'readsize': beh['readsize']}] if 'readsize' in beh else [])
            chk.case(('F', beh['stream'], tuple(map(str, cut))), 'N' in beh['stream'])
            if x['bad']:
                chk.impl_traces += 1
                chk.violation({'module': 'Wire', 'layer': 'framing', 'what': x['bad']['what']},
                              {'kind': 'framing', 'stream': beh['stream'], 'cut': cut, **x['bad']})
            for tr, raw, g in zip(x['traces'], x['raws'], ('g1', 'g2')):      # (g2 may be absent)
                traces.append(tr)
                info.append({'stream': beh['stream'], 'cut': cut, 'gamma': g, 'raw': raw})
        groups.append(('framing', traces, lambda i, info=info: info[i]))
        flush(30000)
    del behs
    stage('framing')

    # 3 spec -> code: line class sequences
    r, behs = emit_behaviours('Gen_Wire', 'Gen_Wire_classes_quick.cfg' if quick else 'Gen_Wire_classes_thorough.cfg',
                              maximal_only=False, timeout=1800)
    chk.add_tlc(r)
    cat = r.printed('CAT')[0]
    spec_classes = set(cat.pop('SECoPClasses'))
    for c, req in sorted(cat.items()):
        mine = a_in(CLASSES[c])
        if req['act'] in ('LONG', 'NONASCII'):
            req = dict(req, act=mine['act'])
        if req['spec'] == 'LONG':
            req = dict(req, spec=mine['spec'])
        if mine != req:
            raise MachineryError(f'line class {c}: alpha_in(gamma) = {mine} but Wire!Cat says {req}')
    from frappy.errors import SECoPError
    for cls in SECoPError.clsname2class.values():       # "one of the SECoP classes of frappy/errors.py"
        if cls.name not in spec_classes:
            chk.violation({'module': 'Wire', 'clause': 'ErrorClassIsSECoP', 'errors_py_class': cls.__name__},
                          {'kind': 'errors.py', 'name': cls.name, 'allowed': sorted(spec_classes)})
    if set(cat) != set(CLASSES):
        raise MachineryError('catalogue of Wire.tla and CLASSES differ: %s' % (set(cat) ^ set(CLASSES)))
    items = [([s['cls'] for s in b], chk.seed * 1000003 + i) for i, b in enumerate(behs)]
    del behs
    for part in batches(items):
        traces, info = [], []
        for (seq, seed), x in zip(part, pool_map(_replay_classes, part)):
            chk.case(('C',) + tuple(seq), True)
            if x['bad']:
                chk.impl_traces += 1
                chk.violation({'module': 'Wire', 'layer': 'loop', 'what': x['bad']['what'], 'len': len(seq)},
                              {'kind': 'classes', 'seq': seq, 'seed': seed, **x['bad']})
            for tr, raw, sg in zip(x['traces'], x['raws'], x['segs']):
                traces.append(tr)
                info.append({'seq': seq, 'seed': seed, 'raw': raw, **sg})
        chk.sample({'classes': part[len(part) // 2][0], 'trace': traces[len(traces) // 2][:6]})
        groups.append(('classes', traces, lambda i, info=info: info[i]))
        flush(30000)
    import frappy.protocol.interface.tcp as tcpmod
    if tcpmod.MESSAGE_READ_SIZE != READ:
        raise MachineryError(f'MESSAGE_READ_SIZE is {tcpmod.MESSAGE_READ_SIZE}: adapt READ and the STREAMS of c07.py')
    items = [(name, chk.seed * 101 + i) for i, name in enumerate(sorted(STREAMS))]
    res = pool_map(_replay_stream, items)
    traces = [tr for x in res for tr in x['traces']]
    info = [{'stream': name, 'seed': seed, 'seg': sg, 'raw': raw}
            for (name, seed), x in zip(items, res) for sg, raw in zip(x['segs'], x['raws'])]
    for it in items:
        chk.case(('S',) + it, True)
    groups.append(('streams', traces, lambda i, info=info: info[i]))
    stage('classes')

    # 4 code -> spec: fuzz
    seeds = [chk.seed * 7919 + 17 * i + 1 for i in range(1200 if quick else 40000)]
    for part in batches(seeds, 30000):
        res = pool_map(_fuzz, part)
        for sd in part:
            chk.case(('Z', sd), True)
        groups.append(('fuzz', [x['trace'] for x in res], lambda i, res=res, part=part: {
            'seed': part[i], **{k: res[i][k] for k in ('raw', 'stream', 'world', 'seg')}}))
        chk.sample({'fuzz_stream': res[0]['stream'][:200], 'seg': res[0]['seg']})
        flush(30000)

    # 5 a second thread sends (LinesWhole) - real threads, sequentially in this process
    res, deferred = [], []
    for i in range(30 if quick else 300):
        try:
            res.append(_two_threads(chk.seed * 31 + i))
        except MachineryError as e:      # judged at the end: a misbehaving implementation must get its verdict
            deferred.append(e)
    if not any(a['th'] != b['th'] for x in res for a, b in zip(x['raw'], x['raw'][1:])):
        deferred.append(MachineryError('two-thread scenario never switched threads'))
    for x in res:
        chk.case(('T', x['seed']), True)
        if x['reason'] != 'returned':
            chk.violation({'module': 'Wire', 'clause': 'HandlerSurvives', 'source': 'threads'}, x)
    groups.append(('threads', [x['trace'] for x in res],
                   lambda i, res=res: {k: res[i][k] for k in ('raw', 'turns', 'seed')}))

    # 5b real sockets: TCPServer + socketserver threads + a real client (wall-clock, generous time-outs)
    res = [_real_tcp(chk.seed * 53 + i, pause=i % 16 == 3) for i in range(8 if quick else 80)]
    for x in res:
        chk.case(('R', x['seed']), True)
    groups.append(('tcp', [x['trace'] for x in res], lambda i, res=res: {k: res[i][k] for k in ('raw', 'seq', 'seed', 'ipv6', 'pause')}))

    # 6 codec
    r, behs = emit_behaviours('Gen_Wire', 'Gen_Wire_codec.cfg', maximal_only=False, timeout=300)
    chk.add_tlc(r)
    traces = [_codec(b[0]) for b in behs]
    for b in behs:
        chk.case(('K', b[0]['a'], b[0]['s'], b[0]['d']), True)
    groups.append(('codec', [[{k: v for k, v in e.items() if k not in ('concrete', 'error')} for e in tr]
                             for tr in traces], lambda i, traces=traces: {'records': traces[i]}))

    # 7 the judge itself: corrupted copies of a good trace must be rejected with the right clause
    good = [{'ev': 'chunk_in', 'reqs': [a_in(b'read m:p'), a_in(b'ping tok')]},          # hand-written
            {'ev': 'line_out', 'o': a_out(b'reply m:p [1.0, {}]')},
            {'ev': 'line_out', 'o': a_out(b'pong tok [null, {"t": 1.5}]')},
            {'ev': 'peer', 'what': 'eof'}, {'ev': 'handler_end', 'reason': 'returned'}]
    outs = [i for i, e in enumerate(good) if e['ev'] == 'line_out']
    swapped = list(good)
    swapped[outs[0]], swapped[outs[1]] = good[outs[1]], good[outs[0]]
    wrongspec = [dict(e, o=dict(e['o'], spec='m:s')) if i == outs[0] else e for i, e in enumerate(good)]
    twice = good[:outs[1]] + [good[outs[1]]] + good[outs[1]:]
    died = [dict(e, reason='raised') if e['ev'] == 'handler_end' else e for e in good]
    selftest = [(good, None), (swapped, 'Belongs.action'), (wrongspec, 'Belongs.specifier'),
                (good[:outs[1]] + good[outs[1] + 1:], 'OnePerLine.line_unanswered'),
                (twice, 'OnePerLine.reply_without_request'), (died, 'HandlerSurvives'),
                (good[:3] + good[4:], 'HandlerSurvives'),            # ended although the peer is still there
                (good[:2] + [{'ev': 'peer', 'what': 'deaf'}, good[2]], 'NoWriteAfterFailure'),
                (good[:2] + [{'ev': 'peer', 'what': 'reset'}, good[4]], None)]
    verdicts = validate([x[0] for x in selftest])[0]
    for i, (_, want) in enumerate(selftest):
        got = verdicts[i][1] if verdicts[i] else None
        if got != want:
            raise MachineryError(f'trace validation self-test {i}: expected {want}, TLC says {got}')
    chk.notes['binding_selftest'] = '2 accepted traces + 7 corrupted copies rejected with the expected clause'
    stage('fuzz threads codec selftest')
    flush()
    stage('final judge')
    faulthandler.cancel_dump_traceback_later()
    if deferred and not chk.violations:
        raise deferred[0]
    chk.assumptions += [
        'lines with action "_" (help text), "update", "log" are asynchronous / informational lines, not replies',
        'for "*IDN?" and "help" a spurious specifier need not be echoed; "describe" may answer with specifier "."',
        'for lines whose action / specifier tokens are not valid UTF-8 or not unambiguously tokenisable only '
        '"some error reply with a SECoP class or some reply action" is demanded',
    ]
    chk.exhaustive = False
    # requests of several connections are served one at a time (shared with C04 / C07): DispLock / DispSerial
    from . import disp_serial
    disp_serial.add(chk)


def replay(chk, rep):
    d = rep['detail']
    if 'serial' in d:
        from . import disp_serial
        return disp_serial.replay(chk, rep)
    kind = d.get('kind')
    if kind == 'framing':
        for gname, g in (('g1', GAMMA1), ('g2', GAMMA2)):
            stream = b''.join(g[c] for c in d['stream'])
            segs, p, rs = [], 0, None
            for n in d['cut']:
                if isinstance(n, dict):
                    rs = n['readsize']
                elif n == 'pause':
                    segs.append(None)
                else:
                    segs.append(stream[p:p + n])
                    p += n
            _mod_class()
            import frappy.protocol.interface.tcp as tcpmod
            saved = tcpmod.MESSAGE_READ_SIZE
            tcpmod.MESSAGE_READ_SIZE = rs or saved
            w, s1 = run_stream(segs)
            tcpmod.MESSAGE_READ_SIZE = saved
            print(gname, segs, 'buffers at recv:', s1.bufs, 'replies before recv:', s1.nreplies)
            for e, rw in zip(w.events, w.raw):
                print('  ', e['ev'], rw)
    elif kind == 'classes':
        x = _replay_classes((d['seq'], d['seed']))
        for tr, raw, sg in zip(x['traces'], x['raws'], x['segs']):
            print(sg)
            for e, rw in zip(tr, raw):
                print('  ', e['ev'], rw)
        print('direct comparison:', x['bad'])
    elif kind == 'streams':
        x = _replay_stream((d['stream'], d['seed']))
        for tr, raw, sg in zip(x['traces'], x['raws'], x['segs']):
            print(sg)
            for e, rw in zip(tr, raw):
                print('  ', e['ev'], str(rw)[:200])
    elif kind == 'fuzz':
        x = _fuzz(d['seed'])
        print('stream', x['stream'].encode('latin-1'), 'segments', x['seg'], 'world', x['world'])
        for e, rw in zip(x['trace'], x['raw']):
            print('  ', e['ev'], rw)
    elif kind == 'tcp':
        x = _real_tcp(d['seed'], d.get('pause', False))
        for e, rw in zip(x['trace'], x['raw']):
            print('  ', e['ev'], rw)
    elif kind == 'threads':
        x = _two_threads(d['seed'])
        for f in x['raw']:
            print('  ', f)
    elif kind == 'codec':
        from ..core import json as _j
        print(_j.dumps(d.get('records'), indent=1))
    if 'failed_at' in d:
        print('TLC rejected event', d['failed_at'], ':', rep['signature'].get('clause'), d.get('event'))
    elif 'deviation' in rep['signature']:
        print('deviation needed:', rep['signature']['deviation'])
    else:
        print('expected', d.get('expected'), 'observed', d.get('observed'))
    return 0
