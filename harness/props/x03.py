"""X03 (growth module) - read / write handlers (frappy/rwhandler.py) and the way HasAccessibles, the start-up writes
and the poller (frappy/modulebase.py) use the generated read_<param> / write_<param> methods.

spec/RWHandler.tla     : class-creation rules, method resolution along the class chain, poll flags, what a read / change /
                         poll round / start-up does to the parameter cache, the hardware, writeDict and the update stream
spec/RWHandlerCat.tla  : catalogue of class layouts (model checking, behaviour generation)
Binding:
  spec -> code : Gen_RWHandler prints one behaviour per transition of the abstract state graph; the layout is turned
                 into REAL module classes (handlers applied as decorators, class bodies executed in order), three real
                 module instances behind a real Dispatcher with an activated connection and the real poll threads
                 (hand-over-hand with the harness, virtual clock); the projected state is compared after every step.
  code -> spec : every execution that disagrees, and seeded random scripts over random layouts (also refused ones and
                 their corrected twins), are recorded and judged by TLC against Trace_RWHandler; a trace that needs a
                 named deviation is a violation unless an open finding carries it.
Python concretises, schedules and projects; the verdicts are TLC's.
"""
import json
import random
import threading

from ..core import MachineryError, emit_behaviours, model_check, pool_map, run_parallel, run_tlc, sany, validate_traces
from ..env import Conn, LoggerStub, ServerStub, boot

META = {
    'text': 'TLC model-checks the handler design (one hardware call per read / change request and per poll round of a '
            'common group, fresh values, errors kept in the cache, frame conditions of a change, start-up writes once per '
            'group, poll flags, class-creation verdicts as a function of the definition, isolation of instances and of '
            'base and subclass) on a catalogue of class layouts; every transition of the abstract state graph of '
            'Gen_RWHandler (to the depth bound) is replayed on real module classes built from the layout - real '
            'Dispatcher, activated connection, real poll threads on a virtual clock - with the projected state (parameter '
            'cache, readerrors, hardware, writeDict, hardware calls with arguments, announced updates, reply) compared '
            'after each step; executions that disagree and seeded random scripts over random layouts are validated by '
            'TLC against Trace_RWHandler.',
    'note': 'Bounded: three integer parameters a, b, c (+ a name that is no parameter), 1-4 declarations per class body, '
            'one optional subclass, values 0..3 / one unconvertible hardware value / one out-of-range request, fault modes '
            'per hardware function (SECoP error, plain exception, partial assignment, return value, None, Done for plain '
            'methods). Sequential: requests and poll rounds do not overlap (the access lock of the wrappers is covered '
            'by C04 / C05); the poll thread is the real one but runs hand-over-hand with the harness, a slow round is '
            'entered with every parameter stale. Trusted: TLC, the alpha/gamma glue in harness/props/x03.py.',
    'tech': 'TLA+ spec (RWHandler) + TLC model checking; spec->code replay of all abstract transitions on generated '
            'classes; code->spec TLC trace validation of random scripts over random class layouts',
    'ref': 'growth module X03 (not one of the 20 listed properties)',
}

PARAMS = ('a', 'b', 'c')
MODS = ('m', 'n', 'p')
X = 99
CAP = 2
HW_INIT = {'a': 2, 'b': 1, 'c': 2}
CFG_VAL = {'a': 1, 'b': 2, 'c': 1}
T0 = 1000000.0
HANDLER_KINDS = ('R', 'CR', 'W', 'CW')
MODES = {'R': ['ok', 'secop', 'comm', 'plain'], 'CR': ['ok', 'secop', 'comm', 'plain', 'ret', 'part'],
         'W': ['ok', 'none', 'secop', 'comm', 'plain'], 'CW': ['ok', 'secop', 'comm', 'plain', 'ret'],
         'PR': ['ok', 'secop', 'comm', 'done'], 'PW': ['ok', 'none', 'secop', 'done']}


def _prefix(d):
    return 'read' if d['kind'] in ('R', 'CR', 'PR') else 'write'


def _hwval(v):
    return 'x' if v == X else v


def _arg(v):
    """alpha for values (handed to a hardware function, cached, sent): the datatype makes them ints; anything else
    (a float that was not converted, a string that got through) is shown to TLC as -1"""
    return v if type(v) is int and 0 <= v < 1000 else -1  # pylint: disable=unidiomatic-typecheck


# ------------------------------------------------------------------ alpha: error labels

def _elabel(exc):
    """exception object (readerror, raised by a direct call) -> error label of the specification"""
    if exc is None:
        return 'none'
    from frappy.errors import SECoPError
    name = type(exc).__name__
    text = str(exc)
    if not isinstance(exc, SECoPError):
        return 'int'                                   # what the interface makes of it
    if name == 'WrongTypeError':
        return 'typeNone' if 'None' in text else 'type'
    return {'HardwareError': 'hw', 'InternalError': 'int', 'ProgrammingError': 'prog', 'RangeError': 'range',
            'CommunicationFailedError': 'comm'}.get(name, name)


def _wlabel(name, text):
    """error class and text on the wire -> error label"""
    if name == 'WrongType':
        return 'typeNone' if 'None' in text else 'type'
    if name == 'InternalError':
        return 'prog' if 'must not return' in text else 'int'
    return {'HardwareError': 'hw', 'RangeError': 'range', 'CommunicationFailed': 'comm'}.get(name, name)


# ------------------------------------------------------------------ gamma: layout -> real classes

def _mkfunc(d):
    """the hardware function of declaration d (instance state: _hw, _mode, _calls)"""
    from frappy.errors import CommunicationFailedError, HardwareError
    from frappy.modulebase import Done
    kind, keys, fn = d['kind'], list(d['keys']), d['fn']

    def fault(self):
        md = self._mode[fn]
        if md == 'secop':
            raise HardwareError('hw')
        if md == 'comm':
            raise CommunicationFailedError('no reply')
        if md == 'plain':
            raise ZeroDivisionError('boom')
        return md

    if kind == 'R':
        def f(self, pname):
            self._calls.append({'fn': fn, 'k': pname, 'args': []})
            fault(self)
            return _hwval(self._hw[pname])
    elif kind == 'CR':
        def f(self):
            self._calls.append({'fn': fn, 'k': '*', 'args': []})
            md = fault(self)
            for k in keys:
                if k in self.parameters:
                    setattr(self, k, _hwval(self._hw[k]))
                if md == 'part':                         # the communication breaks down after the first key
                    raise HardwareError('hw')
            return 1 if md == 'ret' else None
    elif kind == 'W':
        def f(self, pname, value):
            self._calls.append({'fn': fn, 'k': pname, 'args': [_arg(value)]})
            md = fault(self)
            self._hw[pname] = min(value, CAP)
            return None if md == 'none' else self._hw[pname]
    elif kind == 'CW':
        def f(self, values):
            vals = values.as_tuple(*keys)
            self._calls.append({'fn': fn, 'k': '*', 'args': [_arg(v) for v in vals]})
            md = fault(self)
            for k, v in zip(keys, vals):
                self._hw[k] = min(v, CAP)
            if d['style'] == 'rb':
                getattr(self, 'read_' + d['rb'])()            # Handler.__get__: the common read function itself
            else:
                for k in keys:
                    setattr(self, k, self._hw[k])
            return 1 if md == 'ret' else None
    elif kind == 'PR':
        k = keys[0]

        def f(self):
            self._calls.append({'fn': fn, 'k': k, 'args': []})
            md = fault(self)
            if md == 'done':
                setattr(self, k, _hwval(self._hw[k]))
                return Done
            return _hwval(self._hw[k])
    else:
        k = keys[0]

        def f(self, value):
            self._calls.append({'fn': fn, 'k': k, 'args': [_arg(value)]})
            md = fault(self)
            self._hw[k] = min(value, CAP)
            if md == 'done':
                setattr(self, k, self._hw[k])
                return Done
            return None if md == 'none' else self._hw[k]
    return f


_DECO = {'R': 'ReadHandler', 'CR': 'CommonReadHandler', 'W': 'WriteHandler', 'CW': 'CommonWriteHandler'}
_ARGS = {'R': 'self, pname', 'CR': 'self', 'W': 'self, pname, value', 'CW': 'self, values', 'PR': 'self', 'PW': 'self, value'}


def class_source(clsname, basename, decls, with_params):
    """the class statement a driver programmer would write for this body (decorators stacked as in real drivers);
    the function bodies delegate to the hardware functions impl_<n> of the harness"""
    lines = [f'class {clsname}({basename}):']
    if with_params:
        lines += [f"    {k} = Parameter('', IntRange(0, 3), readonly=False, default=0)" for k in PARAMS]
    for n, d in enumerate(decls):
        args = _ARGS[d['kind']]
        if d['kind'] in HANDLER_KINDS:
            name = f'{_prefix(d)}_{d["fn"]}'
            if d['np'] == 'hdl':
                lines.append('    @nopoll')
            lines.append(f'    @{_DECO[d["kind"]]}({list(d["keys"])!r})')
            if d['np'] == 'func':
                lines.append('    @nopoll')
        else:
            name = f'{_prefix(d)}_{d["keys"][0]}'
            if d['np'] != 'no':
                lines.append('    @nopoll')
        lines.append(f'    def {name}({args}):')
        lines.append(f'        return impl_{n}({args})')
    if len(lines) == 1:
        lines.append('    pass')
    return '\n'.join(lines) + '\n'


def _exec_class(clsname, base, decls, with_params):
    import frappy.rwhandler as rw
    from frappy.core import IntRange, Module, Parameter
    g = {'__name__': 'x03.generated', 'Module': Module, 'Parameter': Parameter, 'IntRange': IntRange, 'Base': base,
         'ReadHandler': rw.ReadHandler, 'CommonReadHandler': rw.CommonReadHandler, 'WriteHandler': rw.WriteHandler,
         'CommonWriteHandler': rw.CommonWriteHandler, 'nopoll': rw.nopoll}
    for n, d in enumerate(decls):
        g[f'impl_{n}'] = _mkfunc(d)
    exec(compile(class_source(clsname, 'Base' if base is not None else 'Module', decls, with_params),
                 f'<x03 {clsname}>', 'exec'), g)  # pylint: disable=exec-used
    return g[clsname]


def _verdict_of(exc):
    from frappy.errors import ProgrammingError
    e = exc
    while e is not None and not isinstance(e, ProgrammingError):
        e = e.__cause__                              # python < 3.12 wraps errors of __set_name__ in RuntimeError
    if e is None:
        raise exc
    text = str(e)
    for pat, v in (('superfluous method', 'superfluous'), ('duplicate method', 'duplicate'), ('is no parameter', 'noparam')):
        if pat in text:
            return v
    return 'other: ' + text[:80]


def build_classes(lay):
    """-> (verdict, Base, Final)"""
    try:
        base = _exec_class('B_' + lay['cls'], None, lay['base'], True)
        final = base
        if lay['hassub']:
            final = _exec_class('S_' + lay['cls'], base, lay['sub'], False)
    except Exception as e:  # pylint: disable=broad-except
        return _verdict_of(e), None, None
    return 'ok', base, final


# ------------------------------------------------------------------ the world: three modules, a dispatcher, poll threads

class _Clock:
    """stands in for the `time` module inside frappy.modulebase"""

    def __init__(self):
        import time
        self._real = time
        self.now = T0

    def time(self):
        return self.now

    def monotonic(self):
        return self.now - T0 + 5.0

    def sleep(self, d):
        self.now += d

    def __getattr__(self, name):
        return getattr(self._real, name)


class _Trigger:
    """triggerPoll of a module: the poll thread parks here and runs one stretch when the harness says so"""

    def __init__(self):
        self.go = threading.Semaphore(0)
        self.parked = threading.Semaphore(0)

    def wait(self, timeout=None):
        self.parked.release()
        self.go.acquire()
        return True

    def set(self):
        pass

    def clear(self):
        pass

    def is_set(self):
        return False


class _StartEvents:
    def get_trigger(self, timeout=None, name=None):
        return lambda: None


class World:
    def __init__(self):
        boot()
        import frappy.modulebase as mb
        import frappy.rwhandler as rw
        self.mb = mb
        self.clock = _Clock()
        self.saved_time = mb.time
        mb.time = self.clock
        # every behaviour is a fresh process as far as the handler registry is concerned
        reg = getattr(rw.Handler, 'method_names', None)
        if isinstance(reg, set):
            reg.clear()
        self.lay = None
        self.mods = {}
        self.started = False
        self.dead = None
        self.prev = {}

    def close(self):
        for m in self.mods.values():
            try:
                m.stopPollThread()
                m.polledModules.clear()
                if isinstance(m.triggerPoll, _Trigger):
                    m.triggerPoll.go.release()
            except Exception:  # pylint: disable=broad-except
                pass
        self.mb.time = self.saved_time

    # -- class statements + module creation
    def define(self, lay):
        from ..dispatch_common import handle
        verdict, base, final = build_classes(lay)
        obs = {'verdict': verdict, 'polls': {}, 'hkeys': {}, 'res': {'ok': True, 'v': 0, 'e': 'none'}, 'mods': {}}
        if verdict != 'ok':
            return obs
        self.lay = lay
        self.srv = ServerStub()
        fns = [d['fn'] for d in lay['base'] + lay['sub']]
        cfg = {k: {'value': CFG_VAL[k]} for k in lay['cfg']}
        for name in MODS:
            cls = base if name == 'p' else final
            m = cls(name, LoggerStub(name), dict({'description': ''}, **json.loads(json.dumps(cfg))), self.srv)
            m._hw = dict(HW_INIT)
            m._mode = dict({fn: 'ok' for fn in fns}, **{fn: md for fn, md in lay['im']})
            m._calls = []
            self.srv.secnode.add_module(m, name)
            self.mods[name] = m
        self.conn = Conn('c', self.srv.dispatcher)
        handle(self.srv.dispatcher, self.conn, ('activate', None, None))
        del self.conn.msgs[:]
        obs['polls'] = {name: {k: bool(getattr(m, 'read_' + k).poll) for k in PARAMS} for name, m in self.mods.items()}
        # the handler objects as seen on the classes (Handler.__get__ without instance)
        for cls, decls in ((base, lay['base']), (final, lay['base'] + lay['sub'])):
            for d in decls:
                if d['kind'] in HANDLER_KINDS:
                    h = getattr(cls, f'{_prefix(d)}_{d["fn"]}')
                    obs['hkeys'][d['fn']] = sorted(h.keys) if obs['hkeys'].get(d['fn'], sorted(h.keys)) == sorted(h.keys) else ['?']
        self.prev = {name: self._core(name) for name in MODS}
        return obs

    # -- projection
    def _core(self, name):
        m = self.mods[name]
        return {'cache': {k: {'v': _arg(m.parameters[k].value), 'err': _elabel(m.parameters[k].readerror)} for k in PARAMS},
                'hw': dict(m._hw), 'wd': sorted(m.writeDict)}

    def _updates(self):
        """announced updates since the last step, per module and key, adjacent repetitions collapsed"""
        out = {name: {k: [] for k in PARAMS} for name in MODS}
        for msg in self.conn.msgs:
            if msg[0] not in ('update', 'error_update'):
                continue
            mod, _, pname = msg[1].partition(':')
            k = pname.lstrip('_')
            if mod not in out or k not in PARAMS:
                continue
            if msg[0] == 'update':
                u = {'k': k, 'v': _arg(msg[2][0]), 'e': 'none'}
            else:
                u = {'k': k, 'v': 0, 'e': _wlabel(msg[2][0], msg[2][1])}
            if not out[mod][k] or out[mod][k][-1] != u:
                out[mod][k].append(u)
        del self.conn.msgs[:]
        return out

    def observe(self, acting):
        upd = self._updates()
        mods = {}
        for name in MODS:
            core = self._core(name)
            m = self.mods[name]
            moved = core != self.prev[name] or m._calls or any(upd[name].values())
            if name in acting or moved:
                mods[name] = dict(core, calls=list(m._calls), upd=upd[name])
            self.prev[name] = core
            m._calls = []
        return mods

    # -- poll threads
    def _wait_parked(self, name):
        trg = self.mods[name].triggerPoll
        if not trg.parked.acquire(timeout=120):
            self.dead = f'poll thread of {name} did not come back'
            raise MachineryError(self.dead)

    def start(self):
        for name in MODS:
            m = self.mods[name]
            m.earlyInit()
            m.initModule()
            m.triggerPoll = _Trigger()
            m.startModule(_StartEvents())
            self._wait_parked(name)
            # a stretch may end in several waits (main poll due, slow poll due): let the thread settle
        self.started = True
        return {'mods': self.observe(MODS), 'res': {'ok': True, 'v': 0, 'e': 'none'}}

    def poll_round(self, name):
        m = self.mods[name]
        self.clock.now += 100.0          # every parameter is stale, main and slow polls are due
        m.triggerPoll.go.release()
        self._wait_parked(name)

    # -- one step
    def step(self, a, direct=False):
        from frappy.errors import SECoPError
        from ..dispatch_common import handle
        act = a['act']
        name = a['mod']
        m = self.mods[name]
        res = {'ok': True, 'v': 0, 'e': 'none'}
        if act in ('read', 'change'):
            k = a['key']
            if direct:
                try:
                    # a driver may hand over any number: the wrapper converts it before the hardware function sees it
                    v = getattr(m, 'read_' + k)() if act == 'read' else getattr(m, 'write_' + k)(float(a['val']))
                    res = {'ok': True, 'v': _arg(v), 'e': 'none'}
                except Exception as e:  # pylint: disable=broad-except
                    res = {'ok': False, 'v': 0, 'e': _elabel(e)}
            else:
                spec = f'{name}:{m.parameters[k].export}'
                rep = handle(self.srv.dispatcher, self.conn, ('read', spec, None) if act == 'read' else ('change', spec, a['val']))
                if rep[0].startswith('error_'):
                    res = {'ok': False, 'v': 0, 'e': _wlabel(rep[2][0], rep[2][1])}
                else:
                    res = {'ok': True, 'v': _arg(rep[2][0]), 'e': 'none'}
        elif act == 'poll':
            self.poll_round(name)
        elif act == 'assign':
            setattr(m, a['key'], _hwval(a['val']))
        elif act == 'callcommon':
            try:
                getattr(m, 'read_' + a['fn'])()
            except Exception as e:  # pylint: disable=broad-except
                res = {'ok': False, 'v': 0, 'e': _elabel(e)}
        elif act == 'hwset':
            m._hw[a['key']] = a['val']
        elif act == 'setmode':
            m._mode[a['fn']] = a['mode']
        else:
            raise MachineryError(f'unknown action {act}')
        return {'mods': self.observe((name,)), 'res': res}


def _norm(o):
    """canonical form of a projected module state (TLC prints sets in any order)"""
    return {'cache': o['cache'], 'hw': o['hw'], 'wd': sorted(o['wd']), 'calls': [dict(c, args=list(c['args'])) for c in o['calls']],
            'upd': {k: list(o['upd'][k]) for k in PARAMS}}


def _event(st, obs):
    """trace event: the input with every field Trace_RWHandler may look at, plus the observation"""
    e = {'act': st['act'], 'mod': st.get('mod', ''), 'key': st.get('key', ''), 'val': st.get('val', 0),
         'fn': st.get('fn', ''), 'mode': st.get('mode', ''), 'obs': obs}
    if st['act'] == 'define':
        e['lay'] = st['lay']
    return e


def _direct(j, st):
    """which way a request takes (dispatcher / direct call) is the harness's choice: a stable function of the step"""
    return (j + len(st.get('key', '')) + st.get('val', 0)) % 3 == 0


def run_steps(steps, compare=True):
    """execute abstract steps on a fresh world; returns (trace, first mismatch or None, crash text or None)"""
    w = World()
    trace = []
    bad = None
    crash = None
    try:
        for j, st in enumerate(steps):
            act = st['act']
            if act != 'define' and not w.mods:
                break                    # the classes were refused (the disagreement is recorded at the define step)
            if act == 'define':
                obs = w.define(st['lay'])
            elif act == 'start':
                obs = w.start()
            else:
                obs = w.step(st, direct=_direct(j, st))
            trace.append(_event(st, obs))
            if compare and bad is None and 'exp' in st:
                diff = _compare(st, obs, w)
                if diff:
                    bad = {'step': j, 'diff': diff, 'input': {k: v for k, v in st.items() if k not in ('exp', 'lay')},
                           'expected': st['exp'], 'observed': obs}
    except MachineryError:
        raise
    except Exception as e:  # pylint: disable=broad-except
        import traceback
        crash = f'{type(e).__name__}: {e}\n' + traceback.format_exc()[-1500:]
    finally:
        w.close()
    return trace, bad, crash


def _compare(st, obs, w):
    exp = st['exp']
    diff = []
    if st['act'] == 'define':
        if exp['verdict'] != obs['verdict']:
            return ['verdict']
        if exp['verdict'] == 'ok' and exp['polls'] != obs['polls']:
            diff.append('polls')
        if exp['verdict'] == 'ok' and {fn: sorted(ks) for fn, ks in dict(exp['hkeys'] or {}).items()} != obs['hkeys']:
            diff.append('hkeys')
        return diff
    emods = exp['mods'] if isinstance(exp['mods'], dict) else {}
    for name, e in emods.items():
        o = obs['mods'].get(name)
        if o is None:
            diff.append(f'{name}:missing')
            continue
        en, on = _norm(e), _norm(o)
        diff += [f'{name}:{key}' for key in ('cache', 'hw', 'wd', 'calls', 'upd') if en[key] != on[key]]
    if exp['same']:
        diff += [f'{name}:moved' for name in obs['mods'] if name not in emods]
    if st['act'] != 'start' and exp['res'] != obs['res']:
        diff.append('res')
    return diff


def _replay_job(beh):
    trace, bad, crash = run_steps(beh)
    return (bad, crash, trace if (bad or crash) else None)


# ------------------------------------------------------------------ code -> spec: random layouts, random scripts

def _rand_decl(rnd, kind, keys, fn, crs):
    d = {'kind': kind, 'keys': keys, 'np': 'no', 'fn': fn, 'style': 'assign', 'rb': ''}
    if kind in ('R', 'CR') and rnd.random() < 0.3:
        d['np'] = rnd.choice(['func', 'hdl'])
    if kind == 'PR' and rnd.random() < 0.3:
        d['np'] = 'func'
    if kind == 'CW' and crs and rnd.random() < 0.4:
        d['style'], d['rb'] = 'rb', rnd.choice(crs)
    return d


def _rand_body(rnd, names, crs_above, careful, allow_plain):
    """a class body of 0-4 declarations; careful: every key claimed at most once per prefix"""
    decls = []
    crs = list(crs_above)
    free = {'read': list(PARAMS), 'write': list(PARAMS)}
    for _ in range(rnd.choice([1, 2, 2, 3, 3, 4])):
        r = rnd.random()
        kind = 'PR' if allow_plain and r < 0.08 else 'PW' if allow_plain and r < 0.16 else rnd.choice(HANDLER_KINDS)
        pre = 'read' if kind in ('R', 'CR', 'PR') else 'write'
        pool = free[pre] if careful else list(PARAMS)
        if not pool:
            continue
        n = 1 if kind in ('PR', 'PW') else rnd.randint(1, min(3, len(pool)))
        keys = rnd.sample(pool, n)
        if kind in HANDLER_KINDS and rnd.random() < (0.0 if careful else 0.12):
            keys.insert(rnd.randint(0, len(keys)), 'z')
        if careful:
            for k in keys:
                free[pre].remove(k)
        if kind in ('PR', 'PW'):
            fn = f'{pre}_{keys[0]}'
            if any(d['fn'] == fn for d in decls):
                continue
        else:
            same = [d['fn'] for d in decls if d['kind'] in HANDLER_KINDS and _prefix(d) == pre]
            fn = names.pop(0) if careful or rnd.random() < 0.93 or not same else rnd.choice(same)
        decls.append(_rand_decl(rnd, kind, keys, fn, crs))
        if kind == 'CR':
            crs.append(fn)
    return decls


def _rand_layout(rnd, cls, careful):
    names = [f'g{i}' for i in range(1, 10)]
    base = _rand_body(rnd, names, [], careful, rnd.random() < 0.3)
    hassub = rnd.random() < 0.4
    sub = _rand_body(rnd, names, [d['fn'] for d in base if d['kind'] == 'CR'], careful, True) if hassub else []
    if hassub and rnd.random() < 0.2:
        sub = []
    # a plain method and a handler function must not share the name of the call log
    cfg = [k for k in PARAMS if rnd.random() < 0.3]
    im = []
    for d in base + sub:
        if rnd.random() < 0.12 and not any(fn == d['fn'] for fn, _ in im):
            im.append([d['fn'], rnd.choice(MODES[d['kind']][1:])])
    return {'name': cls, 'cls': cls, 'base': base, 'sub': sub, 'hassub': hassub, 'cfg': cfg, 'im': im, 'fix': ''}


def _rand_steps(rnd, lay, n):
    fns = [(d['fn'], d['kind']) for d in lay['base'] + lay['sub']]
    crs_base = [d['fn'] for d in lay['base'] if d['kind'] == 'CR']
    crs_all = [fn for fn, kind in fns if kind == 'CR']
    steps = []
    for _ in range(n):
        mod = rnd.choice(['m', 'm', 'm', 'm', 'n', 'p'])
        r = rnd.random()
        k = rnd.choice(PARAMS)
        if r < 0.22:
            st = {'act': 'read', 'key': k}
        elif r < 0.42:
            st = {'act': 'change', 'key': k, 'val': rnd.choice([0, 1, 2, 3, 3, 9])}
        elif r < 0.54:
            st = {'act': 'poll'}
        elif r < 0.62:
            st = {'act': 'assign', 'key': k, 'val': rnd.choice([0, 1, 2, 3, X])}
        elif r < 0.78:
            st = {'act': 'hwset', 'key': k, 'val': rnd.choice([0, 1, 2, X, X])}
        elif r < 0.94 and fns:
            fn, kind = rnd.choice(fns)
            st = {'act': 'setmode', 'fn': fn, 'mode': rnd.choice(MODES[kind])}
        else:
            pool = crs_base if mod == 'p' else crs_all
            if not pool:
                continue
            st = {'act': 'callcommon', 'fn': rnd.choice(pool)}
        st['mod'] = mod
        steps.append(st)
    return steps


def _random_job(seed):
    rnd = random.Random(seed)
    careful = rnd.random() < 0.7
    lay = _rand_layout(rnd, 'rnd', careful)
    steps = [{'act': 'define', 'lay': lay}]
    # after a refused definition the class is written again (same class and function names)
    steps.append({'act': 'define', 'lay': _rand_layout(rnd, 'rnd', True), 'only_if_refused': True})
    steps.append({'act': 'start'})
    return seed, _run_random(steps, rnd)


def _run_random(steps, rnd):
    """the script depends on what the definitions gave: steps are drawn once the classes exist"""
    w = World()
    trace = []
    crash = None
    try:
        lay = None
        for st in steps[:2]:
            if lay is not None:
                break
            obs = w.define(st['lay'])
            trace.append(_event(st, obs))
            if obs['verdict'] == 'ok':
                lay = st['lay']
        if lay is not None:
            # before the poll threads are started a driver (or an early client) may already write and read
            for j in range(rnd.choice([0, 0, 1, 2])):
                st = {'act': rnd.choice(['change', 'change', 'read']), 'mod': rnd.choice(['m', 'm', 'p']),
                      'key': rnd.choice(PARAMS), 'val': rnd.choice([0, 1, 3])}
                trace.append(_event(st, w.step(st, direct=_direct(j, st))))
            trace.append(_event({'act': 'start'}, w.start()))
            seen = {('m', fn): md for fn, md in lay['im']}
            seen.update({('n', fn): md for fn, md in lay['im']})
            seen.update({('p', fn): md for fn, md in lay['im']})
            for j, st in enumerate(_rand_steps(rnd, lay, rnd.randint(5, 14))):
                if st['act'] == 'setmode':
                    if seen.get((st['mod'], st['fn']), 'ok') == st['mode']:
                        continue
                    seen[(st['mod'], st['fn'])] = st['mode']
                trace.append(_event(st, w.step(st, direct=_direct(j, st))))
    except MachineryError:
        raise
    except Exception as e:  # pylint: disable=broad-except
        import traceback
        crash = f'{type(e).__name__}: {e}\n' + traceback.format_exc()[-1500:]
    finally:
        w.close()
    return trace, crash


# ------------------------------------------------------------------ verdicts of trace validation

def _devs(extra):
    devs = {}
    for i, js in extra['DEVS']:
        d = set(json.loads(js))
        devs[i] = d if i not in devs else min(devs[i], d, key=len)
    return devs


def _corrupt(trace):
    """binding self-test: two corruptions of a recorded execution (a reply, a bystander's cache) - none may be accepted"""
    bad = json.loads(json.dumps(trace))
    for e in bad:
        if e['act'] in ('read', 'change') and e['obs']['res']['ok']:
            e['obs']['res']['v'] = (e['obs']['res']['v'] + 1) % 4
            break
    else:
        return None
    bad2 = json.loads(json.dumps(trace))
    for e in bad2:
        if e['act'] == 'start':
            c = e['obs']['mods']['n']['cache']['b']
            c['v'] = (c['v'] + 1) % 4
            break
    else:
        return None
    return [bad, bad2]


def _judge(chk, traces, origins):
    """TLC validates recorded executions; a rejected one or one needing a deviation is reported.
    The corrupted copies of the first few clean-looking executions ride along (binding self-test)."""
    probes = []                       # (index of the original, index of the first corrupted copy)
    batch = list(traces)
    for i, tr in enumerate(traces):
        if len(probes) >= 6:
            break
        if origins[i].get('world') == 'rnd' and sum(1 for e in tr if e['act'] in ('read', 'change')) >= 2:
            c = _corrupt(tr)
            if c:
                probes.append((i, len(batch)))
                batch += c
    verdicts, st, trn, extra = validate_traces('Trace_RWHandler', batch, 'Trace_RWHandler.cfg', timeout=1500,
                                               collect=('DEVS',), chunk=100000)
    chk.states += st
    chk.transitions += trn
    devs = _devs(extra)
    count = {'beh': {}, 'rnd': {}}
    for i in range(len(traces)):
        v = verdicts[i]
        tr = traces[i]
        if v is not None:
            pos = v[0]
            ev = tr[pos - 1] if 0 < pos <= len(tr) else {}
            lay = next((e['lay'] for e in reversed(tr[:max(pos, 1)]) if e['act'] == 'define'), {})
            kinds = sorted({d['kind'] for d in lay.get('base', []) + lay.get('sub', [])})
            chk.violation({'module': 'RWHandler', 'trace_event': ev.get('act'), 'kinds': ','.join(kinds),
                           'layout': lay.get('name', '')},
                          dict(origins[i], failed_at=pos, event=ev, trace=tr))
        else:
            for dev in sorted(devs.get(i, ())):
                c = count[origins[i]['world']]
                c[dev] = c.get(dev, 0) + 1
                chk.violation({'module': 'RWHandler', 'deviation': dev}, dict(origins[i], trace=tr))
    chk.notes['deviations_needed_by_disagreeing_behaviours'] = count['beh']
    chk.notes['deviations_needed_by_random_scripts'] = count['rnd']
    tested = 0
    for i, j in probes:
        if verdicts[i] is None and not devs.get(i):
            tested += 1
            if verdicts[j] is None or verdicts[j + 1] is None:
                raise MachineryError(f'Trace_RWHandler self-test failed: corrupted reply {verdicts[j]}, '
                                     f'corrupted bystander {verdicts[j + 1]} (trace {i})')
    if probes and not tested:
        raise MachineryError('Trace_RWHandler self-test: none of the probe executions was accepted without deviation')
    chk.notes['binding_selftest'] = tested


GEN_QUICK = ['common', 'mixed', 'plain', 'cfg', 'im', 'sub', 'sub2', 'defs']
GEN_THOROUGH = GEN_QUICK + ['deep_common', 'deep_mixed', 'deep_sub', 'deep_cfg']
MC = {'quick': ['MC_RWHandler_quick.cfg', 'MC_RWHandler_quick_sub.cfg', 'MC_RWHandler_quick_im.cfg'],
      'thorough': ['MC_RWHandler_thorough_common.cfg', 'MC_RWHandler_thorough_rb.cfg', 'MC_RWHandler_thorough_cfg.cfg',
                   'MC_RWHandler_thorough_sub.cfg', 'MC_RWHandler_thorough_plain.cfg', 'MC_RWHandler_thorough_im.cfg']}
MUST_FAIL = [('MC_RWHandler_asimpl_mask.cfg', {'FreshRead', 'GroupFresh', 'ReadErrorReported'}),
             ('MC_RWHandler_broken_pollall.cfg', {'PollOncePerGroup'}),
             ('MC_RWHandler_asimpl_none.cfg', {'CleanWrite'}),
             ('MC_RWHandler_asimpl_key.cfg', {'AcceptedSound'}),
             ('MC_RWHandler_asimpl_leak.cfg', {'VerdictStable'}),
             ('MC_RWHandler_broken_flags.cfg', {'FlagsOK'})]


def run(chk):
    import time as _t
    quick = chk.tier == 'quick'
    t0 = _t.time()
    stage = {}
    chk.rule = ('every transition of the abstract state graph of Gen_RWHandler (catalogue of class layouts x define / '
                'start / read / change / poll / assign / hardware change / fault mode / direct call of the common '
                'function, to the depth bound) is replayed on real classes with the projected state compared after '
                'every step; seeded random scripts over random layouts (accepted, refused, refused-then-corrected) are '
                'recorded and validated by Trace_RWHandler. A case is distinct by (layout, input sequence); non-trivial = '
                'at least one hardware function was called')
    for m in ('RWHandler', 'RWHandlerCat', 'Gen_RWHandler', 'Trace_RWHandler'):
        sany(m)
    tier = 'quick' if quick else 'thorough'
    gens = [f'Gen_RWHandler_{tier if g in GEN_QUICK else "thorough"}_{g}.cfg' for g in (GEN_QUICK if quick else GEN_THOROUGH)]
    thunks = [lambda cfg=cfg: model_check('RWHandlerCat', cfg, timeout=1400) for cfg in MC[tier]]
    thunks.append(lambda: model_check('RWHandlerCat', 'MC_RWHandler_defs.cfg', timeout=600))
    nmc = len(thunks)
    must_fail = MUST_FAIL[:3] if quick else MUST_FAIL          # the other switches are exercised by the thorough tier
    thunks += [lambda cfg=cfg: run_tlc('RWHandlerCat', cfg, timeout=600) for cfg, _ in must_fail]
    thunks += [lambda cfg=cfg: emit_behaviours('Gen_RWHandler', cfg, maximal_only=False, timeout=1400) for cfg in gens]
    out = run_parallel(thunks, width=16 if quick else 6)
    for r in out[:nmc]:
        chk.add_tlc(r)
    for r, (cfg, props) in zip(out[nmc:nmc + len(must_fail)], must_fail):
        if not (r.violated and r.violated[1] in props):
            raise MachineryError(f'{cfg} is expected to violate one of {sorted(props)}: {r.violated or r.error or "no violation"}')
    behs = []
    for (r, b), cfg in zip(out[nmc + len(must_fail):], gens):
        chk.add_tlc(r)
        behs.extend(b)
    stage['tlc'] = round(_t.time() - t0, 1)

    # ---- spec -> code
    keyed = {}
    for b in behs:
        keyed.setdefault(json.dumps([{k: v for k, v in s.items() if k != 'exp'} for s in b], sort_keys=True), b)
    jobs = [keyed[k] for k in sorted(keyed)]
    cap = 16000
    if quick and len(jobs) > cap:
        step = -(-len(jobs) // cap)
        jobs = jobs[chk.seed % step::step]
        chk.notes['behaviours_sampled'] = f'1 of {step}'
    res = pool_map(_replay_job, jobs)
    bad_traces, bad_origin = [], []
    for beh, (bad, crash, trace) in zip(jobs, res):
        chk.impl_traces += 1
        chk.case(json.dumps([{k: v for k, v in s.items() if k not in ('exp', 'lay')} for s in beh] + [beh[0]['lay']['name']]),
                 any(m['calls'] for s in beh if isinstance(s['exp']['mods'], dict) for m in s['exp']['mods'].values()))
        if crash:
            chk.violation({'module': 'RWHandler', 'kind': 'crash', 'exc': crash.splitlines()[0][:80]},
                          {'world': 'beh', 'behaviour': beh, 'crash': crash})
        elif bad:
            bad_traces.append(trace)
            bad_origin.append({'world': 'beh', 'behaviour': beh, 'mismatch': bad})
    chk.notes['behaviours'] = len(jobs)
    chk.notes['behaviours_disagreeing'] = len(bad_traces)
    if jobs:
        chk.sample({'behaviour': [{k: v for k, v in s.items() if k != 'exp'} for s in jobs[len(jobs) // 2]]})
    stage['replay'] = round(_t.time() - t0, 1)

    # ---- code -> spec: seeded random scripts over random layouts
    n = 1000 if quick else 20000
    runs = pool_map(_random_job, [chk.seed * 1000003 + i for i in range(n)])
    traces, origins = list(bad_traces), list(bad_origin)
    for seed, (tr, crash) in runs:
        chk.impl_traces += 1
        chk.case(('rnd', seed), any(m['calls'] for e in tr for m in e['obs']['mods'].values()))
        if crash:
            chk.violation({'module': 'RWHandler', 'kind': 'crash', 'exc': crash.splitlines()[0][:80]},
                          {'world': 'rnd', 'seed': seed, 'crash': crash, 'trace': tr})
        else:
            traces.append(tr)
            origins.append({'world': 'rnd', 'seed': seed})
    stage['random'] = round(_t.time() - t0, 1)
    # a disagreeing behaviour is explained by a named deviation (known finding) or it is a violation; so is a random script
    _judge(chk, traces, origins)
    if runs:
        chk.sample({'random_trace_inputs': [{k: v for k, v in e.items() if k not in ('obs', 'lay')} for e in runs[0][1][0][:8]]})
    stage['judge'] = round(_t.time() - t0, 1)
    chk.notes['wall_until_end_of_stage'] = stage
    chk.exhaustive = False


def replay(chk, rep):
    d = rep['detail']
    if d.get('world') == 'beh':
        trace, bad, crash = run_steps(d['behaviour'])
        print('layout', json.dumps(d['behaviour'][0]['lay']))
        for j, e in enumerate(trace, 1):
            print(j, {k: v for k, v in e.items() if k not in ('obs', 'lay')}, '->', json.dumps(e['obs'], sort_keys=True))
        print('mismatch', json.dumps(bad, indent=1, sort_keys=True), 'crash', crash, 'failed_at', d.get('failed_at'))
    elif d.get('world') == 'rnd':
        _, (trace, crash) = _random_job(d['seed'])
        for j, e in enumerate(trace, 1):
            if e['act'] == 'define':
                print('layout', json.dumps(e['lay']))
            print(j, {k: v for k, v in e.items() if k not in ('obs', 'lay')}, '->', json.dumps(e['obs'], sort_keys=True))
        print('crash', crash, 'failed_at', d.get('failed_at'))
    else:
        print(json.dumps(d, indent=1)[:3000])
    return 0
