"""C15 - Lifecycle: initialise, write config, poll, serve; shutdown in reverse order.

spec/Lifecycle.tla        ordering automaton (phases per module, ready / refused, shutdown order) over all
                          attachment graphs, failure placements and poll / write flags
spec/Gen_Lifecycle.tla    TLC enumerates the configurations (spec -> code)
spec/Trace_Lifecycle.tla  event logs of the real code must be accepted by the automaton (code -> spec)
Binding: the real Server._processCfg + SecNode.create_modules / get_descriptive_data / shutdown_modules run on
generated, instrumented module classes (real Attached properties, real poll threads) under the deterministic
scheduler in virtual time, for every configuration TLC enumerates x declaration orders x access times.
"""
import itertools
import json
import random

from ..core import MachineryError, emit_behaviours, model_check, pool_map, sany, validate_traces

META = {
    'text': 'TLC model-checks the ordering automaton of the node life cycle over every attachment graph on 2 modules (thorough: '
            'also 3 modules with at most 2 attachments in total) incl. self loops, cycles, dangling and wrongly typed attachments, scripted early/late init '
            'failures and poll/write flags: ready implies a healthy, completely started node with its configured values '
            'written; a refused node never touched the hardware; shutdown respects the attachment order; healthy '
            'configurations are never stuck. Every configuration TLC enumerates is built as real module classes with '
            'real Attached properties and run through the real Server._processCfg, start events, poll threads and '
            'SecNode.shutdown_modules in virtual time, for several declaration orders and attachment access times; the '
            'recorded event order is validated by TLC against the automaton.',
    'note': 'Trusted: TLC, harness/detsched.py, the instrumented module classes (harness/lifeworld.py); MultiEvent is '
            're-executed from its current source on the scheduler\'s Event. Variants of every configuration: declaration orders, access time of '
            'the attachments, other module names, attachments fixed by a subclass / declared optional, no module '
            'exported; explicit configurations for dynamically scanned (Pinata) modules, shared poll threads, polls in '
            'flight at shutdown and a first poll round that outlasts the start time-out.',
    'tech': 'TLA+ spec + TLC model checking; TLC-enumerated configurations executed on the real code; TLC trace '
            'validation (Trace_Lifecycle) with named deviations',
    'ref': 'DESIGN.md section 5 C15',
}


def expand(b, rnd, norders):
    """one TLC configuration -> executable configurations (declaration orders x access times)"""
    mods = sorted(b['mods'])
    perms = list(itertools.permutations(mods))
    rnd.shuffle(perms)
    out = []
    for order in perms[:norders]:
        for accmode in ('init', 'start', 'never'):
            if accmode != 'init' and not any(b['att'][m] for m in mods):
                continue
            c = dict(order=list(order), att={m: sorted(b['att'][m]) for m in mods},
                     wrong=[list(e) for e in b['wrong']], fail=b['fail'], polls=sorted(b['polls']),
                     writes=sorted(b['writes']), acc={m: accmode for m in mods}, exported=mods,
                     host=b.get('host') or {m: m for m in mods})
            out.append(c)
            if accmode == 'init' and any(len(b['att'][m]) >= 2 for m in mods) and not b['wrong'] \
                    and all(v == 'none' for v in b['fail'].values()):
                # a module with several attachments: the shutdown order is computed by walking sets of module names,
                # so the same graph is run under other names, too
                for ren in NAMESETS[:2 if norders == 1 else 4]:
                    out.append(dict(c, rename=ren))
            if accmode != 'start' and order == perms[0]:
                # the same with no module exported (export=False): such modules are initialised by the server itself
                # after the description has been built - their errors refuse the node like any other, a healthy
                # node starts them like any other
                out.append(dict(c, exported=[]))
            if accmode != 'never' and any(b['att'][m] for m in mods):
                # the same with the attachments fixed by a subclass (bare class attribute) instead of the configuration
                out.append(dict(c, fixed=[m for m in mods if b['att'][m]]))
            if accmode != 'init':
                # the same with attachments declared optional (mandatory=False) and given in the configuration
                out.append(dict(c, opt=True))
    return out


def _healthy(b):
    mods = set(b['mods'])
    if any(v != 'none' for v in b['fail'].values()) or b['wrong']:
        return False
    if any(t not in mods for m in mods for t in b['att'][m]):
        return False

    def cyc(m, path):
        return any(t in path or cyc(t, path | {t}) for t in b['att'][m])
    return not any(cyc(m, {m}) for m in mods)


NAMESETS = [{'a': 'p', 'b': 'mf', 'c': 'x1'}, {'a': 'x1', 'b': 'p', 'c': 'mf'}, {'a': 'q7', 'b': 'k9', 'c': 'heater'},
            {'a': 'm3', 'b': 'm1', 'c': 'm2'}]


def _renamed(cfg, ren):
    """the same configuration under other module names (the order in which sets / dicts of names are walked
    depends on the names): run it, then translate the log back"""
    f = lambda n: ren.get(n, n)
    # a name that is not a module (a dangling attachment target) must stay dangling under the new names
    loose = {t for v in cfg['att'].values() for t in v if t not in cfg['order']}
    if loose & set(ren.values()):
        raise MachineryError(f'rename {ren} collides with the dangling target(s) {sorted(loose)}')
    c = dict(cfg)
    c['order'] = [f(n) for n in cfg['order']]
    c['att'] = {f(k): [f(t) for t in v] for k, v in cfg['att'].items()}
    c['wrong'] = [[f(u), f(t)] for u, t in cfg['wrong']]
    c['fail'] = {f(k): v for k, v in cfg['fail'].items()}
    for key in ('polls', 'writes', 'exported', 'fixed'):
        if key in cfg:
            c[key] = [f(n) for n in cfg[key]]
    for key in ('acc', 'polldur', 'readdur'):
        if key in cfg:
            c[key] = {f(k): v for k, v in cfg[key].items()}
    if 'host' in cfg:
        c['host'] = {f(k): f(v) for k, v in cfg['host'].items()}
    c.pop('rename', None)
    return c


def _run(cfg):
    from ..lifeworld import run_config
    if cfg.get('rename'):
        back = {v: k for k, v in cfg['rename'].items()}
        log = run_config(_renamed(cfg, cfg['rename']))
        for e in log:
            for key in ('m', 'u', 't', 'got'):
                if isinstance(e.get(key), str) and e[key] in back:
                    e[key] = back[e[key]]
    else:
        log = run_config(cfg)
    head = {'ev': 'cfg', 'order': cfg['order'], 'att': cfg['att'], 'wrong': cfg['wrong'], 'fail': cfg['fail'],
            'polls': cfg['polls'], 'writes': cfg['writes'], 'host': cfg.get('host') or {m: m for m in cfg['order']}}
    return [head] + log


SCHED_CONFIGS = [
    dict(order=['a', 'b'], att={'a': [], 'b': []}, wrong=[], fail={'a': 'none', 'b': 'none'}, polls=['a', 'b'],
         writes=['b'], acc={'a': 'init', 'b': 'init'}, exported=['a', 'b']),
    dict(order=['a', 'b', 'c'], att={'a': ['b'], 'b': ['c'], 'c': []}, wrong=[], fail={m: 'none' for m in 'abc'},
         polls=['a', 'b', 'c'], writes=['a', 'c'], acc={m: 'init' for m in 'abc'}, exported=['a', 'b', 'c']),
    dict(order=['c', 'a', 'b'], att={'a': ['c'], 'b': ['c'], 'c': []}, wrong=[], fail={m: 'none' for m in 'abc'},
         polls=['a', 'b'], writes=['b'], acc={m: 'start' for m in 'abc'}, exported=['a', 'b']),
]


def _explore(args):
    """schedules of the server thread against the poll threads (start events, configured writes, shutdown)"""
    ci, mode, seed, nruns = args
    from .. import detsched as ds
    from ..lifeworld import run_config
    cfg = SCHED_CONFIGS[ci]
    head = {'ev': 'cfg', 'order': cfg['order'], 'att': cfg['att'], 'wrong': cfg['wrong'], 'fail': cfg['fail'],
            'polls': cfg['polls'], 'writes': cfg['writes'], 'host': cfg.get('host') or {m: m for m in cfg['order']}}
    out = []
    if mode == 'dfs':
        class Run:
            def __init__(self, r):
                self.log, self.choices = r

        for s in ds.explore(lambda st: Run(run_config(cfg, st, True)), max_preemptions=2, max_runs=nruns, max_depth=250):
            out.append(([c for _, c in s.choices], [head] + s.log))
    else:
        for k in range(nruns):
            log, ch = run_config(cfg, ds.RandomStrategy(seed * 7919 + k, stay=0.3 + 0.3 * (k % 3)), True)
            out.append(([c for _, c in ch], [head] + log))
    return ci, out


def run(chk):
    quick = chk.tier == 'quick'
    tier = 'quick' if quick else 'thorough'
    chk.rule = ('configurations = all initial states of Gen_Lifecycle (attachment graphs incl. cycles / dangling / wrong '
                'type, <=1 scripted init failure, poll and write flags) x declaration orders x time at which users look '
                'at their attachments (initModule / startModule / never), plus configurations with an unexported, '
                'unattached module; distinct = distinct executable configuration; non-trivial = has an attachment, a '
                'failure or a configured write')
    for m in ('Lifecycle', 'Gen_Lifecycle', 'Trace_Lifecycle'):
        sany(m)
    chk.add_tlc(model_check('Gen_Lifecycle', f'MC_Lifecycle_{tier}.cfg', timeout=1700, heap='12g'))
    # start events (frappy/lib/multievent.py): set iff nothing pending, queued actions exactly once, bounded wait
    sany('MultiEvent')
    chk.add_tlc(model_check('MultiEvent', 'MC_MultiEvent.cfg', timeout=600))
    r, behs = emit_behaviours('Gen_Lifecycle', f'Gen_Lifecycle_{tier}.cfg', maximal_only=False, timeout=900)
    chk.add_tlc(r)
    rnd = random.Random(chk.seed + 5)
    if not quick and len(behs) > 24000:
        good = [b for b in behs if _healthy(b)]
        rest = [b for b in behs if not _healthy(b)]
        behs = good[:8000] + rnd.sample(rest, min(len(rest), 24000 - len(good[:8000])))
    if quick and len(behs) > 1500:
        # all healthy configurations (few), and a sample of the many unhealthy ones
        good = [b for b in behs if _healthy(b)]
        rest = [b for b in behs if not _healthy(b)]
        behs = good + rnd.sample(rest, min(len(rest), 1500 - len(good)))
    cfgs = []
    for b in behs:
        cfgs += expand(b, rnd, 1 if quick else 2)
    # a module that is neither exported nor attached (outside the TLC alphabet of flags)
    for polls, writes in ((['a', 'b'], ['b']), (['a', 'b'], []), ([], [])):
        cfgs.append(dict(order=['a', 'b'], att={'a': [], 'b': []}, wrong=[], fail={'a': 'none', 'b': 'none'},
                         polls=polls, writes=writes, acc={'a': 'init', 'b': 'init'}, exported=['a']))
    # dynamically scanned modules: a pinata (unexported by definition) yields children that attach to it / to others
    for order in (['p', 'x', 'y'], ['x', 'p', 'y']):
        for att in ({'p': [], 'x': ['p'], 'y': ['x']}, {'p': [], 'x': [], 'y': ['p']}, {'p': ['x'], 'x': [], 'y': []}):
            for acc in ('init', 'never'):
                cfgs.append(dict(order=order, att=att, wrong=[], fail={m: 'none' for m in order}, polls=['x', 'y'],
                                 writes=['y'], acc={m: acc for m in order}, exported=['x', 'y'],
                                 pinata={'p': ['y']}))
    # a module with two attachments, one of them shared: users are shut down before what they are attached to -
    # whatever the names are (the order is computed by walking sets of module names)
    for att in ({'a': ['b', 'c'], 'b': [], 'c': []}, {'a': ['c', 'b'], 'b': ['c'], 'c': []}, {'a': ['b', 'c'], 'b': ['c'], 'c': []},
                {'a': ['b'], 'b': [], 'c': ['b', 'a']}):
        for order in itertools.permutations('abc'):
            for ren in [None] + NAMESETS:
                c = dict(order=list(order), att=att, wrong=[], fail={m: 'none' for m in 'abc'}, polls=['a'], writes=[],
                         acc={m: 'init' for m in 'abc'}, exported=['a', 'b', 'c'])
                cfgs.append(dict(c, rename=ren) if ren else c)
    # a pinata attached to another pinata: both are scanned, whichever is declared first
    for order in (['p', 'q', 'y', 'z'], ['q', 'p', 'y', 'z']):
        for att in ({'p': ['q'], 'q': [], 'y': [], 'z': []}, {'p': ['q'], 'q': [], 'y': ['z'], 'z': ['q']}):
            for acc in ('init', 'never'):
                cfgs.append(dict(order=order, att=att, wrong=[], fail={m: 'none' for m in order}, polls=['y', 'z'],
                                 writes=['z'], acc={m: acc for m in order}, exported=['y', 'z'],
                                 pinata={'p': ['y'], 'q': ['z']}))
    # chains of modules polled through each other's `io` (three deep, the middle one polled itself), shared io
    for att, host in (({'a': ['b'], 'b': ['c'], 'c': []}, {'a': 'b', 'b': 'c', 'c': 'c'}),
                      ({'a': ['c'], 'b': ['c'], 'c': []}, {'a': 'c', 'b': 'c', 'c': 'c'}),
                      ({'a': ['b', 'c'], 'b': ['c'], 'c': []}, {'a': 'b', 'b': 'c', 'c': 'c'})):
        for order in itertools.permutations('abc'):
            for polls, writes in ((['a', 'b', 'c'], ['a', 'c']), (['a', 'c'], ['b']), (['a', 'b'], [])):
                cfgs.append(dict(order=list(order), att=att, wrong=[], fail={m: 'none' for m in 'abc'}, polls=polls,
                                 writes=writes, acc={m: 'init' for m in 'abc'}, exported=['a', 'b', 'c'], host=host))
    # a poll in flight when the shutdown begins (it ends within the grace period): no module is shut down before
    # every poll thread has been waited for, whatever the declaration order
    for order in itertools.permutations('abc'):
        for slow in 'abc':
            cfgs.append(dict(order=list(order), att={m: [] for m in 'abc'}, wrong=[], fail={m: 'none' for m in 'abc'},
                             polls=['a', 'b', 'c'], writes=[], acc={m: 'init' for m in 'abc'}, exported=['a', 'b', 'c'],
                             polldur={slow: 0.3}))
    for order in (['a', 'b'], ['b', 'a']):
        cfgs.append(dict(order=order, att={'a': ['b'], 'b': []}, wrong=[], fail={'a': 'none', 'b': 'none'}, polls=['a', 'b'],
                         writes=[], acc={'a': 'init', 'b': 'init'}, exported=['a', 'b'], polldur={'a': 0.3},
                         host={'a': 'b', 'b': 'b'}))
    # one poll thread serving three modules, told to stop while it is in the poll of the first / second / third of
    # its round: the poll in flight is finished, no other one is started
    for order in itertools.permutations('abc'):
        for slow in 'abc':
            cfgs.append(dict(order=list(order), att={'a': ['c'], 'b': ['c'], 'c': []}, wrong=[], fail={m: 'none' for m in 'abc'},
                             polls=['a', 'b', 'c'], writes=[], acc={m: 'init' for m in 'abc'}, exported=['a', 'b', 'c'],
                             polldur={slow: 0.3}, host={'a': 'c', 'b': 'c', 'c': 'c'}))
    # a first poll that hangs: the node reports ready when the start time-out (30 s) has passed, and the shutdown
    # proceeds after its grace period although that poll is still running
    for order in (['a', 'b'], ['b', 'a']):
        cfgs.append(dict(order=order, att={'a': [], 'b': []}, wrong=[], fail={'a': 'none', 'b': 'none'}, polls=['a', 'b'],
                         writes=['b'], acc={'a': 'init', 'b': 'init'}, exported=['a', 'b'], polldur={'a': 45.0}))
        cfgs.append(dict(order=order, att={'a': [], 'b': []}, wrong=[], fail={'a': 'none', 'b': 'none'}, polls=['a', 'b'],
                         writes=['b'], acc={'a': 'init', 'b': 'init'}, exported=['a', 'b'], readdur={'a': 45.0}))
    traces = pool_map(_run, cfgs)
    # thread schedules: the server thread (start loop, start events, shutdown) against the poll threads
    jobs = []
    for ci in range(len(SCHED_CONFIGS)):
        jobs.append((ci, 'dfs', chk.seed, 150 if quick else 3000))
        jobs.append((ci, 'rnd', chk.seed + 11, 100 if quick else 3000))
    seen = set()
    sched_origin = {}
    for ci, out in pool_map(_explore, jobs, chunksize=1):
        for choices, tr in out:
            if (ci, tuple(choices)) in seen:
                continue
            seen.add((ci, tuple(choices)))
            sched_origin[len(cfgs)] = choices
            cfgs.append(dict(SCHED_CONFIGS[ci], schedule=choices))
            traces.append(tr)
    chk.notes['schedules_explored'] = len(seen)
    verdicts, st, trn, extra = validate_traces('Trace_Lifecycle', traces, 'Trace_Lifecycle.cfg', timeout=1500,
                                              collect=('DEVS',))
    chk.states += st
    chk.transitions += trn
    devs = {}
    for i, js in extra['DEVS']:
        d = set(json.loads(js))
        devs[i] = d if i not in devs else min(devs[i], d, key=len)
    count = {}
    for i, v in verdicts.items():
        cfg = cfgs[i]
        chk.impl_traces += 1
        chk.case(json.dumps(cfg, sort_keys=True), bool(any(cfg['att'].values()) or cfg['writes']
                                                        or any(f != 'none' for f in cfg['fail'].values())))
        if v is not None:
            l = v[0]
            ev = traces[i][l - 1] if 0 < l <= len(traces[i]) else {}
            sig = {'module': 'Lifecycle', 'event': ev.get('ev'), 'exc': ev.get('exc', '')[:40],
                   'healthy': not (cfg['wrong'] or any(f != 'none' for f in cfg['fail'].values())
                                   or any(t not in cfg['order'] for ts in cfg['att'].values() for t in ts))}
            chk.violation(sig, {'config': cfg, 'failed_at': l, 'event': ev, 'trace': traces[i][:l + 3]})
        else:
            for dev in sorted(devs.get(i, ())):
                count[dev] = count.get(dev, 0) + 1
                chk.violation({'module': 'Lifecycle', 'deviation': dev}, {'config': cfg, 'trace': traces[i][:60]})
    chk.notes['deviations_needed'] = count
    chk.sample({'config': cfgs[len(cfgs) // 2], 'trace': traces[len(cfgs) // 2][:25]})


def replay(chk, rep):
    from .. import detsched as ds
    from ..lifeworld import run_config
    cfg = rep['detail']['config']
    if 'schedule' in cfg:
        for e in run_config(cfg, ds.GuidedStrategy(cfg['schedule'])):
            print(e)
    else:
        for e in _run(cfg):
            print(e)
    return 0
