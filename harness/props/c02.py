"""C02 - Valid values survive the wire encoding and the text encoding unchanged.

spec/Datatypes.tla: Export, WireKind / KindOK, the value set VS(dt), RoundTripLaw (checked by TLC on the
model: every value of the value set is exported with the prescribed JSON kinds and the exported form is
imported to exactly that value), EqModFloat.
  spec -> code : Gen_Datatypes/EmitVS prints, for every catalogue datatype, its value set with the JSON value
                 each member must be exported as; every value is pushed through the real code
                 (export_value + strict JSON, import_value + validate on the server type and on the type
                 rebuilt from the description, to_string / from_string, the client's
                 str(CacheItem) -> setParameterFromString path) and recorded.
  code -> spec : the recorded graphs of the real functions - also for seeded random types and random valid
                 values (all byte values, quote/backslash/newline/non-ASCII text, non-tick floats, 1e308)
                 - are judged by TLC (Trace_Datatypes, records rt.export / rt.wire / rt.text / rt.client).
The text formatter is an uninterpreted function: TLC evaluates the round-trip law on its recorded graph.
"""
import json
import random

from .. import dt_common as dc
from ..core import MachineryError, model_check, pool_map, run_tlc, sany

META = {
    'text': 'TLC proves on the abstract type algebra that every member of the (boundary-derived) value set of every '
            'catalogue datatype is exported with the JSON kind SECoP prescribes and imports to exactly the same value, '
            'enumerates these value sets with the expected exported form, and judges the recorded graph of the real '
            'export_value / json / import_value+validate (server type and type rebuilt from the description) / '
            'to_string / from_string / CacheItem+setParameterFromString functions against the laws: strict JSON, '
            'prescribed kind and value, import(export(v)) = v on both types, text accepted back with identical text '
            '(equal value on every non-float leaf). Seeded random types/values add arbitrary bytes, text and floats.',
    'note': 'Trusted: TLC; gamma/alpha of harness/dt_common.py. The text formatter (%g, repr, literal_eval) is '
            'uninterpreted: the law is evaluated over the recorded graph, exhaustively for the enumerated value sets, '
            'sampled for random values. The network between client and server is replaced by a JSON round trip.',
    'tech': 'TLA+ spec (Datatypes.tla) + TLC model checking of the round-trip law; spec->code replay of TLC-enumerated '
            'value sets; code->spec TLC judgement (trace checking of an algebraic law) of recorded executions',
    'ref': 'DESIGN.md section 5 C02',
}

NSHARDS = {'quick': 4, 'thorough': 8}


def _gen_shard(arg):
    return dc.safe(_gen_shard0, arg)


def _gen_shard0(arg):
    tier, shard, nshards = arg
    r = run_tlc('Gen_Datatypes', 'Gen_Datatypes_rt.cfg', workers=1, timeout=1100,
                env={'DT_TIER': 'r-' + tier, 'DT_SHARD': shard, 'DT_NSHARDS': nshards,   # the catalogue with format strings / units
                     'JAVA_TOOL_OPTIONS': '-XX:ParallelGCThreads=2'})
    if r.violated or not r.ok:
        raise MachineryError(f'Gen_Datatypes(rt) shard {shard}: {r.violated or r.error}\n{r.out[-2500:]}')
    recs = []
    types = 0
    for rec in r.printed('VS'):
        dt = rec['dt']
        types += 1
        obj = dc.build_type(dt)
        reb = dc.try_rebuild(obj)
        for item in rec['vals']:
            av = item['v']
            conc = dc.concrete(av, dt, obj, internal=True)
            if dc.alpha_internal(conc, dt) != av:
                raise MachineryError('alpha(gamma(v)) != v for ' + json.dumps(av))
            rs = dc.rt_records(obj, reb, dt, av, conc, {'via': 'enumerated'})
            rs[0]['jexp'] = item['j']        # what TLC printed as Export(dt, v)
            recs += rs
    return {'tlc': (r.distinct, r.generated, r.depth, r.wall), 'recs': recs, 'types': types}


def _calls_shard(arg):
    return dc.safe(_calls_shard0, arg)


def _calls_shard0(arg):
    tier, shard, nshards = arg
    r = run_tlc('Gen_Datatypes', 'Gen_Datatypes_calls.cfg', workers=1, timeout=1100,
                env={'DT_TIER': 'x-' + tier, 'DT_SHARD': shard, 'DT_NSHARDS': nshards,
                     'JAVA_TOOL_OPTIONS': '-XX:ParallelGCThreads=2'})
    if r.violated or not r.ok:
        raise MachineryError(f'Gen_Datatypes(calls) shard {shard}: {r.violated or r.error}\n{r.out[-2500:]}')
    recs = []
    types = 0
    for rec in r.printed('CALLS'):
        types += 1
        node = dc.CommandNode(rec['dt'])
        for call in rec['calls']:
            recs.append(node.call(call['a'], call['r'], {'via': 'enumerated'}))
    return {'tlc': (r.distinct, r.generated, r.depth, r.wall), 'recs': recs, 'types': types}


def _rand_records(arg):
    return dc.safe(_rand_records0, arg)


def _rand_records0(arg):
    seed, n = arg
    rnd = random.Random(seed)
    recs = []
    while len(recs) < 4 * n:
        dt = dc.rand_type(rnd, rnd.choice((0, 0, 1, 1, 2, 3)), open_strings=True)
        obj = dc.build_type(dt)
        reb = dc.try_rebuild(obj)
        for _ in range(4):
            conc = dc.rand_valid(rnd, dt, obj)
            av = dc.alpha_internal(conc, dt)
            recs += dc.rt_records(obj, reb, dt, av, conc, {'via': 'random', 'conc': repr(conc)[:300]})
        if rnd.random() < 0.5:        # a command with this type as argument and another random type as result (or none)
            none = {'k': 'none'}
            rdt = none if rnd.random() < 0.25 else dc.rand_type(rnd, rnd.choice((0, 0, 1, 2)), open_strings=False)
            adt = none if rnd.random() < 0.25 else dt
            if dc.has_limit(adt) or dc.has_limit(rdt) or (adt is dt and dt['k'] == 'string' and dt['maxc'] == dc.NOLIM and dt['minc'] > 0):
                continue
            try:
                node = dc.CommandNode({'k': 'command', 'arg': adt, 'res': rdt})
            except Exception:   # noqa: a description the client cannot rebuild is reported by the rt.wire record of that type
                continue
            for _ in range(3):
                a_conc = None if node.arg is None else dc.rand_valid(rnd, adt, node.client_type.argument)
                r_conc = None if node.res is None else dc.rand_valid(rnd, rdt, node.res)
                a = dc.NULL if node.arg is None else dc.alpha_internal(a_conc, adt)
                r = dc.NULL if node.res is None else dc.alpha_internal(r_conc, rdt)
                recs.append(node.call_concrete(a, a_conc, r, r_conc, {'via': 'random', 'conc': repr((a_conc, r_conc))[:300]}))
    return recs


def _kids(r):
    """the same law on the elements of a container value"""
    res = []
    if r['kind'] == 'rt.exec':
        return res
    for sdt, sav in dc.rt_children(r['dt'], r['v']):
        obj = dc.build_type(sdt)
        conc = dc.concrete(sav, sdt, obj, internal=True)
        res += [x for x in dc.rt_records(obj, dc.try_rebuild(obj), sdt, dc.alpha_internal(conc, sdt), conc, {'via': 'element'})
                if x['kind'] == r['kind']]
    return res


def _got(r):
    def cls(o):
        return 'ok' if o['ok'] else o['e']
    k = r['kind']
    if k == 'rt.export':
        return r['j']['j'] + (':' + r['j']['e'] if 'e' in r['j'] else '')
    if k == 'rt.wire':
        return cls(r['v1']) + '/' + cls(r['v2'])
    if k == 'rt.text':
        return cls(r['v3']) if r['ts'] else 'to_string raised'
    if k == 'rt.exec':
        return cls(r['ga']) + '/' + cls(r['gr'])
    return cls(r['cs'])


def _shape(r):
    def tk(dt):
        k = dt['k']
        if k == 'array':
            return 'array(%s)' % tk(dt['el'])
        if k == 'tuple':
            return 'tuple(%s)' % ','.join(tk(e) for e in dt['els'])
        if k == 'struct':
            return 'struct(%s;%d)' % (','.join(tk(m['t']) for m in dt['mem']), len(dt['opt']))
        if k == 'string':
            return 'string%s' % ('' if dt['maxc'] != dc.NOLIM or dt['minc'] == 0 else '-open')
        if k == 'command':
            return 'command(%s->%s)' % (tk(dt['arg']), tk(dt['res']))
        return k
    return (r['kind'], tk(r['dt']), _got(r))


def run(chk):
    quick = chk.tier == 'quick'
    chk.rule = ('a case = (datatype tree, valid value) with the recorded graph of export_value/JSON, import+validate on '
                'server and rebuilt type, to_string/from_string, client set-from-string; distinct by (type, value); every '
                'case is non-trivial (a valid value that must survive). Enumerated value sets come from TLC (VS(dt): limits, '
                'grid points, empty/maximal containers, every enum member, optional members absent/present, text classes), '
                'random values add arbitrary content. Each value yields four law records judged by TLC.')
    for m in ('Datatypes', 'Gen_Datatypes', 'Trace_Datatypes'):
        sany(m)
    chk.add_tlc(model_check('Datatypes', 'MC_Datatypes_rt.cfg', timeout=1100, workers=1 if quick else None))
    chk.add_tlc(model_check('Datatypes', 'MC_Datatypes_cmd.cfg', timeout=1100, workers=1))

    n = NSHARDS[chk.tier]
    recs = []
    for res in pool_map(_gen_shard, [(chk.tier, s, n) for s in range(n)], chunksize=1):
        d, g, dep, wall = res['tlc']
        chk.states += d
        chk.transitions += g
        chk.notes.setdefault('tlc_runs', []).append({'distinct': d, 'generated': g, 'depth': dep, 'wall_s': round(wall, 1)})
        chk.notes['datatype_trees'] = chk.notes.get('datatype_trees', 0) + res['types']
        recs += res['recs']
    # commands: every call TLC enumerated, through the real SecopClient.execCommand
    for res in pool_map(_calls_shard, [(chk.tier, s, 2) for s in range(2)], chunksize=1):
        d, g, dep, wall = res['tlc']
        chk.states += d
        chk.transitions += g
        chk.notes['command_types'] = chk.notes.get('command_types', 0) + res['types']
        recs += res['recs']
    # spec -> code: the exported form must be what TLC printed (the judge re-derives it as well)
    for r in recs:
        if r['kind'] == 'rt.export' and r['j'].get('j') not in ('notstrict', 'raised'):
            r['matches_printed'] = r['j'] == r.pop('jexp')
        r.pop('jexp', None)
    nrand = 600 if quick else 12000
    for b in pool_map(_rand_records, [(chk.seed * 104729 + i, 100) for i in range(nrand // 100)]):
        recs += b
    # binding self test: a corrupted copy of an accepted record must be rejected by TLC
    probe = None
    for r in recs:
        if r['kind'] == 'rt.wire' and r['v1']['ok'] and r['dt']['k'] == 'int':
            probe = json.loads(json.dumps(r))
            probe['v1']['v']['n'] += 1
            probe['via'] = 'corrupted'
            break
    verdicts = dc.judge(chk, recs + ([probe] if probe else []))
    if probe:
        chk.notes['binding_selftest'] = 'corrupted rt.wire record -> ' + str(verdicts[-1])
        if verdicts[-1] is None:
            raise MachineryError('Trace_Datatypes accepted a corrupted record')
    failing = []
    for r, v in zip(recs, verdicts):
        chk.impl_traces += 1
        chk.case(hash((dc.key(r['dt']), dc.key(r.get('v', [r.get('a'), r.get('r')])), r.get('conc'), r['kind'])), True)
        if v is not None:
            if r.get('matches_printed') is True and v.startswith('export'):
                raise MachineryError('Gen_Datatypes and Trace_Datatypes disagree on Export: ' + json.dumps(r)[:1000])
            failing.append(r)
    chk.sample({'value': dc.show(recs[5]['v']), 'type': dc.show_type(recs[5]['dt']),
                'records': [{k: v for k, v in r.items() if k not in ('dt', 'v', 'via')} for r in recs[4:8] if r.get('v') == recs[5]['v']]})
    groups = {}
    for r in failing:
        groups.setdefault(_shape(r), []).append(r)
    chk.notes['failing_records'] = len(failing)
    for root, clause, top in dc.localise(chk, [g[0] for g in groups.values()], _kids):
        dt = root['dt']
        if root['kind'] == 'rt.exec':
            chk.violation({'module': 'Datatypes', 'kind': 'command', 'clause': clause, 'argument': dt['arg']['k'],
                           'result': dt['res']['k'], 'got': _got(root)},
                          {'record': {k: root[k] for k in dc.SPEC_FIELDS if k in root}, 'type': dc.show_type(dt),
                           'argument': dc.show(root['a']), 'result': dc.show(root['r']), 'clause': clause,
                           'driver_received': dc.show_outcome(root['ga']), 'caller_got': dc.show_outcome(root['gr']),
                           'seen_in': {'via': root.get('via'), 'conc': root.get('conc')}})
            continue
        sig = {'module': 'Datatypes', 'kind': dt['k'], 'clause': clause, 'got': _got(root)}
        # structural fact about the type (not a verdict): is the JSON form of a leaf value its internal form?
        sig['wire_form'] = 'differs-from-internal' if dt['k'] in ('enum', 'blob', 'scaled') else 'as-internal'
        if dc.has_blob0(dt):        # structural fact: the type holds a blob type with maxbytes 0
            sig['has_blob_maxbytes_0'] = 'yes'
        if dt['k'] == 'tuple':
            sig['arity'] = 'one' if len(dt['els']) == 1 else 'many'
        if dt['k'] == 'string':
            sig['limits'] = 'minchars>0,maxchars unlimited' if dt['maxc'] == dc.NOLIM and dt['minc'] > 0 else 'other'
        chk.violation(sig, {'record': {k: root[k] for k in dc.SPEC_FIELDS if k in root}, 'type': dc.show_type(dt),
                            'value': dc.show(root['v']), 'clause': clause,
                            'seen_in': {'type': dc.show_type(top['dt']), 'value': dc.show(top['v']), 'via': top.get('via'),
                                        'conc': top.get('conc')}})
    chk.exhaustive = False
    chk.assumptions += ['the network between client and server is a JSON text round trip',
                        'float leaves (double, scaled) are only required to keep their text form through from_string']


def replay(chk, rep):
    d = rep['detail']
    r = d['record']
    if r['kind'] == 'rt.exec':
        node = dc.CommandNode(r['dt'])
        rec = node.call(r['a'], r['r'])
        print('command :', dc.show_type(r['dt']), ' client side:', repr(node.client_type))
        print('argument:', dc.show(r['a']), '-> driver received', dc.show_outcome(rec['ga']), repr(node.received))
        print('result  :', dc.show(r['r']), '-> caller got', dc.show_outcome(rec['gr']))
        print('TLC verdict:', dc.judge(chk, [rec])[0] or 'allowed', ' recorded:', d.get('clause'))
        return 0
    dt, av = r['dt'], r['v']
    obj = dc.build_type(dt)
    conc = dc.concrete(av, dt, obj, internal=True)
    print('type :', dc.show_type(dt), '->', repr(obj))
    print('value:', dc.show(av), '->', repr(conc))
    for name, fn in (('export_value', lambda: obj.export_value(conc)), ('to_string', lambda: obj.to_string(conc)),
                     ('from_string(to_string)', lambda: obj.from_string(obj.to_string(conc)))):
        try:
            print(f'{name}:', repr(fn()))
        except Exception as e:   # noqa
            print(f'{name}: raises', type(e).__name__, e)
    recs = dc.rt_records(obj, dc.try_rebuild(obj), dt, av, conc)
    for name, fn in (('client to_string', lambda: dc.rebuild_type(obj).to_string(conc)),
                     ('client from_string(to_string)', lambda: dc.rebuild_type(obj).from_string(dc.rebuild_type(obj).to_string(conc)))):
        try:
            print(f'{name}:', repr(fn()))
        except Exception as e:   # noqa
            print(f'{name}: raises', type(e).__name__, e)
    for rec, v in zip(recs, dc.judge(chk, recs)):
        print(rec['kind'], {k: x for k, x in rec.items() if k not in ('dt', 'v', 'kind')}, '->', 'ok' if v is None else 'violates ' + v)
    print('recorded:', d.get('clause'), d.get('seen_in'))
    return 0
