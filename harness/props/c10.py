"""C10 - configuration is applied faithfully; erroneous configuration is rejected whole.

spec/ConfigRules.tla (classification of config entries, allowed outcomes, state of an accepted
module), spec/Config.tla (node start-up: refuse whole / write once before the first poll).
  spec -> code : every configuration Gen_Config enumerates is given to the real module constructor
                 (through the real frappy.config.Mod/Param) and outcome + projected state are compared
                 with what TLC printed; every node of Gen_ConfigNode is written as real *_cfg.py files
                 and started with the real load_config + Server._processCfg + poll threads.
  code -> spec : recorded node start-ups and seeded random configurations (random numbers, several
                 entries per parameter, 2-4 modules, two files) are validated by TLC (Trace_Config).
"""
import hashlib
import io
import json
import os
import random
import re
import shutil
import sys
import tempfile
import time
import types
from pathlib import Path

from ..core import emit_behaviours, model_check, pool_map, sany, validate_traces
from ..env import ServerStub, boot

META = {
    'text': 'TLC model-checks the node start-up rule (Config.tla: a failing module is never registered, a refused '
            'node reports all failing modules, starts nothing and writes nothing, configured writes once and before '
            'the first poll) and enumerates configurations (entry classes ok-inside / at-limit / outside / wrong '
            'type / unknown name / unknown property / missing mandatory / missing needscfg / inverted limits, '
            'Param() and bare form, several simultaneous errors, two merged files); each is executed on the real '
            'constructor resp. real config files + load_config + Server._processCfg with real poll threads, outcome, '
            'start values, described limits/unit, probe verdicts, writeDict and the driver call log are compared '
            'with the values TLC computed (ConfigRules.Exp) or validated by TLC (Trace_Config).',
    'note': 'Trusted: TLC; the entry<->python value tables of harness/props/c10.py; one configured class shape '
            '(float/int/needscfg parameters, mandatory + optional module property, command, limit pair). Numbers in '
            'half units. The error TEXT is only used to find which modules are named. Real threads: the per-module '
            'order of driver calls is deterministic (one poll thread per module), wall-clock is not judged.',
    'tech': 'TLA+ spec (ConfigRules.tla, Config.tla) + TLC model checking; TLC-generated configurations replayed on the '
            'real constructor / server start-up with state comparison; TLC trace validation of recorded start-ups',
    'ref': 'DESIGN.md section 5 C10',
}

PARAMS = ('a', 'b', 'n', 's', 'l', 'k', 'z', 'oi', 'r1', 'r2', 'g1', 'g2', 'h1', 'h2')
LENGTH = {'s': ('minchars', 'maxchars'), 'l': ('minlen', 'maxlen'), 'k': ('minbytes', 'maxbytes')}   # limits = lengths
UNITS = {'': 0, 'mm': 1, 'K': 2}
VIS = {1: 'user', 2: 'advanced', 3: 'expert', 9: 'bogus'}
GROUPS = {0: '', 1: 'grp1', 2: 'grp2'}
MODNAME = 'frappy_verifc10'          # get_class() only imports names starting with 'frappy'

# ------------------------------------------------------------------ the configured class


def _classes():
    boot()
    if MODNAME in sys.modules:
        return sys.modules[MODNAME]
    from frappy.lib import generalConfig
    # like a real server: the general default window is NOT zero (frappy's test stubs set it to 0, which would
    # hide a configured omit_unchanged_within = 0 that is not applied)
    generalConfig.testinit(**dict(generalConfig._config or {}, omit_unchanged_within=0.1))
    from frappy.core import ArrayOf, BLOBType, Command, FloatRange, IntRange, Parameter, Property, Readable, StringType
    from frappy.errors import HardwareError
    from frappy.rwhandler import CommonWriteHandler
    from frappy.params import Limit

    class CfgBase(Readable):
        """interface class: accessibles declared optional, implemented (oi, oc) or not (ou, od) by CfgMod"""
        oi = Parameter('optional, implemented', FloatRange(0, 100), default=1, readonly=False, optional=True)
        ou = Parameter('optional, not implemented', FloatRange(0, 100), default=2, readonly=False, optional=True)
        oc = Command(IntRange(0, 5), result=IntRange(0, 5), description='optional, implemented', optional=True)
        od = Command(description='optional, not implemented', optional=True)
        r1 = Parameter('default here, required by the subclass', FloatRange(0, 100), default=0, readonly=False)

    class CfgMod(CfgBase):
        """shape known to spec/ConfigRules.tla (PInfo, MInfo)"""
        oi = Parameter()
        r1 = Parameter(needscfg=True)           # tightens the inherited parameter: a value must be configured
        r2 = Parameter('required although it has a default', FloatRange(0, 100), default=1, needscfg=True,
                       readonly=False)

        def write_oi(self, value):
            self._hw('write', 'oi', value)
            return value

        def oc(self, x):
            return x

        g1 = Parameter('g1', FloatRange(0, 100), default=1, readonly=False)
        g2 = Parameter('g2', FloatRange(0, 100), default=2, readonly=False)
        h1 = Parameter('h1', FloatRange(0, 100), default=3, readonly=False)
        h2 = Parameter('h2', FloatRange(0, 100), default=4, readonly=False)

        @CommonWriteHandler(['g1', 'g2'])
        def write_grp(self, values):
            """ONE hardware function for g1 and g2: takes the configured value of the sibling along"""
            trigger = next(iter(values))           # (only the key the call was made for is there at entry)
            vals = {k: values[k] for k in ('g1', 'g2')}
            self._hw('write', trigger, vals[trigger], {k: v for k, v in vals.items() if k != trigger})
            self.g1, self.g2 = vals['g1'], vals['g2']

        def write_h1(self, value):
            """a plain write method that sends h2 together with h1"""
            h2 = self.writeDict.pop('h2', self.h2)
            self._hw('write', 'h1', value, {'h2': h2})
            self.h2 = h2
            return value

        def write_h2(self, value):
            self._hw('write', 'h2', value, {})
            return value

        mp = Property('mandatory property', IntRange(0, 5))
        op = Property('optional property', FloatRange(0, 10), default=1, extname='_op')
        a = Parameter('a', FloatRange(0, 100), default=1, readonly=False)
        b = Parameter('b', IntRange(0, 10), default=2, readonly=False)
        value = Parameter(unit='K')                 # the main unit ...
        n = Parameter('n', FloatRange(0, 100, unit='$'), needscfg=True, readonly=False)      # ... replaces '$'
        s = Parameter('s', StringType(maxchars=8), default='x', readonly=False)
        l = Parameter('l', ArrayOf(FloatRange(), 0, 3), default=[], readonly=False)
        k = Parameter('k', BLOBType(0, 4), default=b'', readonly=False)
        z = Parameter('z', FloatRange(0, 100), constant=3)
        a_limits = Limit()

        def _hw(self, *ev):
            self.__dict__.setdefault('hwlog', []).append(ev)

        def write_a(self, value):
            self._hw('write', 'a', value)
            return value

        def write_n(self, value):
            self._hw('write', 'n', value)
            if self.__dict__.get('probing'):     # (the later range-check probes of the harness)
                return value
            if value == 6.5:        # a driver that refuses: still handed over exactly once
                raise HardwareError('the hardware refuses 6.5')
            if value == 7.5:
                raise ValueError('a bug in the driver')
            return value

        def write_s(self, value):
            self._hw('write', 's', value)
            return value

        def read_a(self):
            self._hw('read', 'a')
            return self.a

        def read_value(self):
            self._hw('read', 'value')
            return 0

        def doPoll(self):
            self._hw('poll')
            super().doPoll()

        @Command(IntRange(0, 5), result=IntRange(0, 5))
        def c(self, x):
            """a command"""
            return x

    from frappy.io import HasIO
    from frappy.modules import Module

    class CfgModU(CfgMod):
        """never polled: gets a thread only for the configured writes"""
        enablePoll = False

    class CfgModOnIO(HasIO, CfgModU):
        """never polled, served by the poll thread of its io module"""

    class CfgModPIO(HasIO, CfgMod):
        """polled by the poll thread of its io module"""

    class CfgIO(Module):
        """fixture: the io module (polled itself)"""

    class CfgIOU(Module):
        """fixture: an io module that is not polled itself"""
        enablePoll = False

    m = types.ModuleType(MODNAME)
    for c in (CfgMod, CfgModU, CfgModOnIO, CfgModPIO, CfgIO, CfgIOU):
        c.__module__ = MODNAME
        setattr(m, c.__name__, c)
    sys.modules[MODNAME] = m
    return m


# ------------------------------------------------------------------ gamma: entries -> python

def _sized(ty, n):
    """a string / list / bytes value of n half units = n // 2 items"""
    k = n // 2
    return {'str': ('abcdefghij' * 8)[:k], 'list': [0.5 * i for i in range(k)], 'tuple': [0.5 * i for i in range(k)],
            'bytes': b'x' * k}[ty]


def _pyval(e):
    v = e['v']
    ty, n = v['ty'], v['n']
    if ty in ('list', 'bytes') or (ty == 'str' and e['par'] in LENGTH and e['prop'] in ('value', 'default', 'constant')):
        return _sized(ty, n)
    if ty == 'int':
        return n // 2 if n % 2 == 0 else n / 2
    if ty == 'float':
        return n / 2.0
    if ty == 'bool':
        return bool(n)
    if ty == 'pair':
        return tuple(x // 2 if x % 2 == 0 else x / 2 for x in (v['n'], v['m']))
    if e['prop'] == 'unit':
        return {1: 'mm', 2: 'K'}[n]
    if e['prop'] == 'group':
        return GROUPS[n]
    if e['prop'] == 'visibility':
        return VIS[n]
    return 'abc'


def _grouped(entries):
    """[(par, bare value | {prop: value})] in a deterministic order; a group given in form 'G' becomes
    a Group(...) keyword of the Mod (returned as (group name, 'group', [members]))"""
    by, groups = {}, {}
    for e in sorted(entries, key=lambda e: (e['par'], e['prop'])):
        if e['prop'] == 'group' and e['form'] == 'G':
            groups.setdefault(_pyval(e), []).append(e['par'])
            by.setdefault(e['par'], [])          # Group() needs a Param of the member
        else:
            by.setdefault(e['par'], []).append(e)
    res = [(g, 'group', members) for g, members in sorted(groups.items())]
    for par, es in by.items():
        if len(es) == 1 and es[0]['prop'] == 'value' and es[0]['form'] == 'B':
            res.append((par, True, _pyval(es[0])))
        else:
            names = dict(zip(('min', 'max'), LENGTH.get(par, ('min', 'max'))))      # min -> minchars ...
            res.append((par, False, {names.get(e['prop'], e['prop']): _pyval(e) for e in es}))
    return res


KINDCLS = {'polled': 'CfgMod', 'unpolled': 'CfgModU', 'onio': 'CfgModOnIO', 'pio': 'CfgModPIO'}
IONAME = 'io1'


def _mod_source(name, entries, kind='polled'):
    args = ['io=%r' % IONAME] if kind in ('onio', 'pio') else []
    for par, bare, val in _grouped(entries):
        if bare == 'group':
            args.append('%s=Group(%s)' % (par, ', '.join(map(repr, val))))
        elif bare:
            args.append(f'{par}={val!r}')
        else:
            args.append('%s=Param(%s)' % (par, ', '.join(f'{k}={v!r}' for k, v in val.items())))
    cls = 'Missing_' + name if kind == 'noclass' else KINDCLS[kind]
    return "Mod(%r, '%s.%s', 'module %s'%s)\n" % (name, MODNAME, cls, name, ''.join(', ' + a for a in args))


def _mod_cfgdict(entries):
    """the dict the server would hand to the constructor, built by the real config DSL"""
    from frappy.config import Group, Mod, Param
    kw = {}
    for par, bare, val in _grouped(entries):
        kw[par] = Group(*val) if bare == 'group' else val if bare else Param(**val)
    d = dict(Mod('m', MODNAME + '.CfgMod', 'a module', **kw))
    d.pop('name')
    d.pop('cls')
    return d


# ------------------------------------------------------------------ alpha: module -> state

def _tick(x):
    if isinstance(x, bool):
        return {'ty': 'bool', 'n': int(x)}
    if isinstance(x, (str, tuple, list, bytes)):
        return {'ty': type(x).__name__, 'n': 2 * len(x)}
    if x is None:
        return {'ty': 'NoneType', 'n': -99999}
    if isinstance(x, (int, float)) and x * 2 == int(x * 2) and abs(x) < 1e8:
        return {'ty': type(x).__name__, 'n': int(x * 2)}
    return {'ty': type(x).__name__, 'n': -99999}


def _lim(x):
    return int(x * 2) if x * 2 == int(x * 2) and abs(x) < 1e8 else -99999


def project(obj, entries, node=False):
    """state of an accepted module in the vocabulary of ConfigRules.Exp"""
    use_wrapper = not any(e['par'].endswith('_limits') for e in entries)
    st = {k: {} for k in ('start', 'lo', 'hi', 'unit', 'vis', 'group', 'constant', 'readonly', 'exported', 'probes',
                          'writes', 'mprops', 'window', 'repeat')}
    for p in PARAMS:
        po = obj.parameters[p]
        info = po.for_export()['datainfo']
        st['start'][p] = _tick(po.value)
        lo, hi = LENGTH.get(p, ('min', 'max'))
        st['lo'][p] = _lim(info.get(lo, 0 if p in LENGTH else -1e9))
        st['hi'][p] = _lim(info.get(hi, 1e9))
        st['unit'][p] = UNITS.get(info.get('unit', ''), -1)
        st['vis'][p] = int(po.visibility)
        st['group'][p] = {v: k for k, v in GROUPS.items()}.get(po.group, -1)
        st['constant'][p] = _tick(po.constant)
        st['readonly'][p] = bool(po.readonly)
        st['exported'][p] = bool(po.export)
    if not node:     # (a started node has consumed writeDict: there the driver log is judged instead)
        st['writes'] = {p: _tick(v) for p, v in obj.writeDict.items() if p in PARAMS}
    else:
        del st['writes']
    st['mprops'] = {'mp': _tick(obj.mp), 'op': _tick(obj.op), 'export': _tick(bool(obj.export)),
                    'omit_unchanged_within': _tick(obj.omit_unchanged_within)}
    # Applied(omit_unchanged_within): the derived window of every parameter and its effect on the update stream
    st['window'] = {p: int(round(obj.parameters[p].omit_unchanged_within * 10)) for p in PARAMS}
    po, seen = obj.parameters['b'], []
    saved = po.value, po.timestamp, po.readerror
    obj.addCallback('b', lambda *a: seen.append(a))      # (callbacks see what the update stream sees, exported or not)
    try:
        t0 = 1e9
        obj.announceUpdate('b', 7 if po.value != 7 else 6, timestamp=t0)     # a change: always delivered
        del seen[:]
        res = []
        for dt in (0.01, 0.3):
            obj.announceUpdate('b', po.value, timestamp=t0 + dt)
            res.append(bool(seen))
            del seen[:]
        st['repeat'] = res
    finally:
        obj.paramCallbacks['b'].pop()
        po.value, po.timestamp, po.readerror = saved
    obj.probing = True
    for p in PARAMS:      # later range checks (last: they change the value)
        pr = []
        for n in (st['lo'][p] - 2, st['lo'][p], st['hi'][p], st['hi'][p] + 2):
            val = n // 2 if n % 2 == 0 else n / 2
            if p in LENGTH:
                if n < 0:                      # there is no value of negative length to offer
                    pr.append({'n': n, 'ok': False})
                    continue
                val = _sized({'s': 'str', 'l': 'list', 'k': 'bytes'}[p], n)
            try:
                if use_wrapper and hasattr(obj, 'write_' + p):    # (a class level constant has no write wrapper)
                    getattr(obj, 'write_' + p)(val)
                else:
                    obj.parameters[p].datatype.validate(val)
                ok = True
            except Exception:
                ok = False
            pr.append({'n': n, 'ok': ok})
        st['probes'][p] = pr
    return st


class Log:
    """logger stub with the parent chain SecNode expects; remembers error lines"""
    handlers = []

    def __init__(self, parent=None, lines=None):
        self.parent = parent or self
        self.lines = lines if lines is not None else []

    def getChild(self, *args):
        return Log(self, self.lines)

    def addHandler(self, *args):
        pass

    def setLevel(self, *args):
        pass

    def debug(self, *args, **kw):
        pass

    info = debug

    def error(self, fmt, *args, **kw):
        try:
            self.lines.append(str(fmt) % args if args else str(fmt))
        except Exception:
            self.lines.append(str(fmt))

    warning = exception = error

    def log(self, level, fmt, *args, **kw):
        pass


def run_module(entries):
    """module level: the real constructor on the dict built by the real Mod()/Param()"""
    mods = _classes()
    srv = ServerStub()
    cfgdict = _mod_cfgdict(entries)
    before = _digest(cfgdict)
    ev = {'ev': 'module', 'cfg': entries}
    try:
        obj = mods.CfgMod('m', Log(), dict(cfgdict), srv)     # (SecNode hands a shallow copy to the constructor)
    except Exception as e:
        obj = None
        ev.update(out='rejected', st={}, error=f'{type(e).__name__}: {e}'[:300])
    if obj is not None:
        ev.update(out='accepted', st=project(obj, entries))
    after = _digest(cfgdict)
    ev['cfgb'] = hashlib.sha1(before.encode()).hexdigest()[:12]
    ev['cfga'] = hashlib.sha1(after.encode()).hexdigest()[:12]
    if before != after:
        ev['config_before'], ev['config_after'] = before[:1500], after[:1500]
    return ev


# ------------------------------------------------------------------ node level

def _file_source(i, f, share, io=None):
    """text of one *_cfg.py; share: a Param(...) used by several modules of the file is ONE object;
    io: class of the io module (fixture, defined in the first file) when a module needs one"""
    lines = ["Node('equipment%d', 'node from file %d', 'tcp://0')\n" % (i + 1, i + 1)]
    if io:
        lines.append("Mod(%r, '%s.%s', 'the io module')\n" % (IONAME, MODNAME, io))
    mods = [_mod_source(mod['m'], mod['cfg'], mod.get('kind', 'polled')) for mod in f]
    if share:
        exprs = re.findall(r'Param\([^()]*\)', ''.join(mods))
        for k, ex in enumerate(sorted({e for e in exprs if exprs.count(e) > 1})):
            lines.append('shared%d = %s\n' % (k, ex))
            mods = [m.replace(ex, 'shared%d' % k) for m in mods]
    return ''.join(lines + mods)


def _digest(cfg):
    """canonical text of a loaded configuration (frame clause: processing must not change it)"""
    return json.dumps(cfg, sort_keys=True, default=repr)


def _observe_run(srv, files, trace):
    """one real Server._processCfg() on srv: append the observed events"""
    before = _digest(srv.module_cfg)
    try:
        srv._processCfg()
        outcome = 'running'
    except SystemExit:
        outcome = 'refused'
    except Exception as e:      # an observation, not a harness failure
        outcome = 'crashed: %s' % type(e).__name__
    sec = srv.secnode
    allmods = {m: o for m, o in sec.modules.items() if o is not None}
    mods = {m: o for m, o in allmods.items() if m != IONAME}          # (the io module is a fixture)
    registered = sorted(m for m in sec.modules if m != IONAME)
    started = [m for m, o in mods.items() if o.startModuleDone]
    if outcome == 'refused' and started:
        # evidence only: give the poll threads that were started a moment to touch the hardware
        t0 = time.time()
        while time.time() - t0 < 0.3 and not all(getattr(mods[m], 'hwlog', None) for m in started):
            time.sleep(0.005)
    hw = {m: list(getattr(o, 'hwlog', [])) for m, o in mods.items()}
    try:
        sec.shutdown_modules()
    except Exception:           # (a node in a broken state: stop the threads we know of)
        for o in allmods.values():
            o.stopPollThread()
    errors = list(sec.errors)
    merged = {}
    for f in files:
        for mod in f:
            merged.setdefault(mod['m'], mod['cfg'])
    for m in srv.module_cfg:
        if m == IONAME:
            continue
        if m in mods:
            trace.append({'ev': 'create', 'm': m, 'out': 'accepted', 'st': project(mods[m], merged[m], node=True),
                          'orig': mods[m].original_id is not None})
        else:
            trace.append({'ev': 'create', 'm': m, 'out': 'rejected', 'st': {}, 'orig': False})
    if outcome == 'refused':
        named = sorted({m for line in errors for m in re.findall(r'(?<![A-Za-z0-9])m\d+\b', line)})
        trace.append({'ev': 'refuse', 'reported': named, 'registered': registered, 'started': sorted(started),
                      'hw_before_exit': {m: [list(map(str, e)) for e in hw[m] if e[0] == 'write'] for m in started},
                      'errors': errors[:12]})
    elif outcome != 'running':
        trace.append({'ev': 'crash', 'error': outcome, 'registered': registered})
    else:
        for m in started:
            trace.append({'ev': 'start', 'm': m})
        for m in started:
            seen_poll = False
            for e in hw[m]:
                if e[0] == 'write':
                    trace.append({'ev': 'write', 'm': m, 'p': e[1], 'v': _tick(e[2]),
                                  'vals': {q: _tick(v)['n'] for q, v in (e[3] if len(e) > 3 else {}).items()}})
                elif not seen_poll:
                    seen_poll = True
                    trace.append({'ev': 'poll', 'm': m})
        trace.append({'ev': 'running', 'registered': registered})
    after = _digest(srv.module_cfg)
    ev = {'ev': 'cfgkept', 'before': hashlib.sha1(before.encode()).hexdigest()[:12],
          'after': hashlib.sha1(after.encode()).hexdigest()[:12]}
    if before != after:
        ev['config_before'], ev['config_after'] = before[:1500], after[:1500]
    trace.append(ev)


def run_node(files, mode='plain', iopolled=True):
    """files: [[{'m': name, 'cfg': [entries]}, ...], ...] -> trace (list of events)
    mode 'share': a Param(...) used by several modules of a file is one object;
    mode 'twice': the loaded configuration is processed a second time (what Server.run does after restart())"""
    _classes()
    import signal
    from frappy.lib import generalConfig
    from frappy.server import Server
    for f in files:
        for mod in f:
            mod.setdefault('kind', 'polled')
    d = tempfile.mkdtemp(prefix='c10-')
    paths = []
    for i, f in enumerate(files):
        p = os.path.join(d, 'node%d_cfg.py' % i)
        with open(p, 'w') as fh:
            needs_io = i == 0 and any(mod.get('kind') in ('onio', 'pio') for ff in files for mod in ff)
            fh.write(_file_source(i, f, mode == 'share', ('CfgIO' if iopolled else 'CfgIOU') if needs_io else None))
        paths.append(p)
    saved_cfg = dict(generalConfig._config or {})
    generalConfig.testinit(confdir=[Path(d)], piddir=Path(d), **{k: v for k, v in saved_cfg.items() if k not in ('confdir', 'piddir')})
    saved_signal, saved_err = signal.signal, sys.stderr
    signal.signal = lambda *a: None
    sys.stderr = io.StringIO()
    trace = []
    try:
        srv = Server('verifnode', Log(), cfgfiles=paths)
        for k in range(2 if mode == 'twice' else 1):
            trace.append({'ev': 'node', 'files': files, 'mode': mode, 'run': k + 1, 'iopolled': iopolled})
            _observe_run(srv, files, trace)
    finally:
        signal.signal, sys.stderr = saved_signal, saved_err
        generalConfig.testinit(**saved_cfg)
        shutil.rmtree(d, ignore_errors=True)
    return trace


def _run_node_case(case):
    return run_node(case['files'], case.get('mode', 'plain'), case.get('iopolled', True))


# ------------------------------------------------------------------ random configurations (code -> spec)

def _num(rnd, lo, hi, kinds=('int', 'int', 'float')):
    ty = rnd.choice(kinds)
    if ty == 'int':
        return {'ty': 'int', 'n': 2 * rnd.randint(lo // 2, hi // 2), 'm': 0}
    return {'ty': 'float', 'n': rnd.randint(lo, hi), 'm': 0}


def random_cfg(rnd, healthy=0.5):
    """a random module configuration; with probability `healthy` without deliberate errors"""
    es = {}

    def put(par, prop, v, form='P'):
        es[(par, prop)] = {'par': par, 'prop': prop, 'form': form, 'v': v}
    clean = rnd.random() < healthy
    put('mp', 'value', _num(rnd, 0, 10, ('int',)), rnd.choice('BP'))
    put('n', 'value', _num(rnd, 0, 200), rnd.choice('BP'))
    put('r1', 'value', _num(rnd, 0, 200), rnd.choice('BP'))
    put('r2', 'value', _num(rnd, 0, 200), rnd.choice('BP'))
    for p, (lo, hi) in (('a', (0, 200)), ('b', (0, 20)), ('n', (0, 200))):
        kinds = ('int',) if p == 'b' else ('int', 'float')
        if rnd.random() < 0.4:
            put(p, 'max', _num(rnd, lo + (hi - lo) // 2, hi + 40, kinds))
        if rnd.random() < 0.4:
            put(p, 'min', _num(rnd, lo - 20, lo + (hi - lo) // 2 - 2, kinds))
        if p != 'n' and rnd.random() < 0.6:
            put(p, 'value', _num(rnd, lo + (hi - lo) // 2 - 4, lo + (hi - lo) // 2, kinds), rnd.choice('BP'))
        if p != 'b' and rnd.random() < 0.2:
            put(p, 'unit', {'ty': 'str', 'n': rnd.choice([1, 2]), 'm': 0})
        if rnd.random() < 0.15:
            put(p, 'visibility', {'ty': 'str', 'n': rnd.choice([1, 2, 3]), 'm': 0})
        if rnd.random() < 0.1:
            put(p, 'readonly', {'ty': 'bool', 'n': rnd.choice([0, 1]), 'm': 0})
        if rnd.random() < 0.1:
            put(p, 'export', {'ty': 'bool', 'n': rnd.choice([0, 1]), 'm': 0})
    for p, ty in (('s', 'str'), ('l', 'list'), ('k', 'bytes')):      # lengths: value and limits in ONE Param
        if rnd.random() < 0.5:
            put(p, 'value', {'ty': ty, 'n': 2 * rnd.randint(0, 12), 'm': 0}, rnd.choice('BPP'))
            if rnd.random() < 0.7:
                put(p, 'max', {'ty': 'int', 'n': 2 * rnd.randint(1, 14), 'm': 0})
            if rnd.random() < 0.2:
                put(p, 'min', {'ty': 'int', 'n': 2 * rnd.randint(0, 3), 'm': 0})
    if rnd.random() < 0.2:
        put('op', 'value', _num(rnd, 0, 20), 'B')
    if rnd.random() < 0.15:
        lo = rnd.randint(0, 40)
        put('a_limits', 'value', {'ty': 'pair', 'n': 2 * lo, 'm': 2 * (lo + rnd.randint(40, 60))}, 'B')
        es.pop(('a', 'value'), None)
    if not clean:
        for _ in range(rnd.randint(1, 3)):
            k = rnd.randrange(12)
            p = rnd.choice(('a', 'b', 'n'))
            if k == 0:
                put(p, 'value', {'ty': 'str', 'n': 0, 'm': 0}, rnd.choice('BP'))
            elif k == 1:
                put(rnd.choice(['zz', 'yy']), 'value', _num(rnd, 0, 10), 'B')
            elif k == 2:
                put(p, rnd.choice(['foo', 'bar']), _num(rnd, 0, 10))
            elif k == 3:
                es.pop(('mp', 'value'), None)
            elif k == 4:
                p = rnd.choice(['n', 'r1', 'r2'])
                es.pop((p, 'value'), None)
                if rnd.random() < 0.5:          # only a default given for the required value
                    put(p, 'default', _num(rnd, 0, 200))
            elif k == 5:
                put(p, 'min', _num(rnd, 300, 340, ('int',)))
            elif k == 6:
                put(p, 'value', _num(rnd, 240, 280, ('int',)), rnd.choice('BP'))     # outside: loose
            elif k == 7:
                put('b', 'value', {'ty': 'float', 'n': 2 * rnd.randint(0, 9) + 1, 'm': 0}, 'B')
            elif k == 8:
                put(p, 'max', {'ty': 'str', 'n': 0, 'm': 0})
            elif k == 9:
                put('mp', 'value', rnd.choice([{'ty': 'str', 'n': 0, 'm': 0}, {'ty': 'int', 'n': 30, 'm': 0}]), 'B')
            elif k == 10:
                put('c', rnd.choice(['foo', 'visibility']), {'ty': 'int', 'n': rnd.choice([2, 4, 6, 20]), 'm': 0})
            else:
                put('a', 'visibility', {'ty': 'str', 'n': 9, 'm': 0})
    return list(es.values())


def _random_module_trace(seed):
    rnd = random.Random(seed)
    return [run_module(random_cfg(rnd, 0.4)) for _ in range(8)]


def _random_node_trace(seed):
    rnd = random.Random(seed)
    n = rnd.randint(2, 4)
    mods = [{'m': 'm%d' % (k + 1), 'cfg': random_cfg(rnd, 0.8),
             'kind': rnd.choice(['polled', 'polled', 'unpolled', 'onio', 'pio'])} for k in range(n)]
    if rnd.random() < 0.5:
        files = [mods]
    else:
        cut = rnd.randint(1, n - 1)
        second = mods[cut:]
        if rnd.random() < 0.5:
            second = [{'m': 'm1', 'cfg': random_cfg(rnd, 0.3), 'kind': 'polled'}] + second
        files = [mods[:cut], second]
    if rnd.random() < 0.4:      # several modules configured from ONE Param object
        src = next((e for e in mods[0]['cfg'] if e['par'] == 'a' and e['form'] == 'P'), None)
        if src is not None:
            for mod in mods[1:]:
                mod['cfg'] = [e for e in mod['cfg'] if e['par'] != 'a'] + \
                    [dict(e) for e in mods[0]['cfg'] if e['par'] == 'a']
    return run_node(files, rnd.choice(['plain', 'share', 'share', 'twice']), rnd.random() < 0.7)


# ------------------------------------------------------------------ check

def _cmp_module(beh, got):
    """compare one executed module configuration with what TLC printed; -> (clause, detail) or None"""
    if got['out'] not in beh['allowed']:
        return ('bad config accepted: ' + beh['why'] if got['out'] == 'accepted'
                else 'healthy configuration rejected'), {'allowed': beh['allowed'], 'observed': got['out'],
                                                         'error': got.get('error')}
    if got['cfgb'] != got['cfga']:
        return 'processing changed the configuration', {'before': got.get('config_before'), 'after': got.get('config_after')}
    if got['out'] != 'accepted':
        return None
    exp, st = beh['exp'], got['st']
    for k, v in (exp['constant'] or {}).items():        # same order of clauses as ConfigRules.StateViol
        if st['start'].get(k) != v:
            return 'cache of a constant parameter = described constant', {'param': k, 'expected': v,
                                                                          'observed': st['start'].get(k)}
    for field in ('start', 'lo', 'hi', 'unit', 'vis', 'group', 'constant', 'readonly', 'exported', 'probes', 'writes',
                  'mprops', 'window'):
        want = exp[field] or {}
        for k, v in want.items():
            have = st[field].get(k)
            if field == 'writes':
                if have is None:
                    return field, {'param': k, 'expected': 'registered for writing', 'observed': sorted(st['writes'])}
            elif have != v:
                name = 'Applied(omit_unchanged_within): parameter window' if field == 'window' else field
                return name, {'param': k, 'expected': v, 'observed': have}
    if list(st['repeat']) != list(exp['repeat']):
        return 'Applied(omit_unchanged_within): repeated update', {'expected': exp['repeat'], 'observed': st['repeat']}
    return None


def _entry_kinds(beh):
    return sorted({c['class'] for c in beh['classes'] if c['class'] not in ('inside',)} |
                  {'missing:' + m for m in beh['missing']})


ORDER_FEATURE = 'default/constant with a length override in one Param'


def _feature(cfg):
    """signature piece: the configuration gives a default / constant of a string, array or blob parameter together
    with a min/max length override (the judgement then depends on the keyword order inside Param(...))"""
    for p in LENGTH:
        props = {e['prop'] for e in cfg if e['par'] == p}
        if props & {'default', 'constant'} and props & {'min', 'max'}:
            return {'feature': ORDER_FEATURE}
    return {}


def _judge(chk, traces, tag, sources):
    verdicts, st, tr = validate_traces('Trace_Config', traces, 'Trace_Config.cfg', timeout=900, chunk=2000)
    chk.states += st
    chk.transitions += tr
    for i, v in sorted(verdicts.items()):
        if v is None:
            continue
        l, clause = v
        ev = traces[i][l - 1] if 0 < l <= len(traces[i]) else {}
        if clause.startswith('DEV:'):
            sig = {'module': 'Config', 'deviation': clause[4:]}
        else:
            sig = {'module': 'Config', 'event': ev.get('ev'), 'clause': clause}
            if ev.get('ev') == 'module':
                sig.update(_feature(ev['cfg']))
        chk.violation(sig, {'source': tag, 'case': sources[i], 'failed_at': l, 'event': ev, 'clause': clause})


def run(chk):
    quick = chk.tier == 'quick'
    chk.rule = ('module level: every configuration of Gen_Config (subsets of the entry catalogue with pairwise '
                'different keys + base entries present/missing) through the real Mod()/Param() and the real '
                'constructor, outcome and projected state compared with ConfigRules.Allowed/Exp as printed by TLC; '
                'node level: every node of Gen_ConfigNode as real config files through load_config + '
                'Server._processCfg + poll threads, recorded start-up validated by Trace_Config; plus seeded random '
                'configurations (random numbers, 2-4 modules, merged files). distinct = configuration; '
                'non-trivial = at least one non-base entry or a missing base entry')
    for m in ('ConfigRules', 'Config', 'MC_Config', 'Gen_Config', 'Gen_ConfigNode', 'Trace_Config'):
        sany(m)
    chk.add_tlc(model_check('MC_Config', 'MC_Config_quick.cfg' if quick else 'MC_Config_thorough.cfg', timeout=900))

    # 1 spec -> code, module level
    r, behs = emit_behaviours('Gen_Config', 'Gen_Config_quick.cfg' if quick else 'Gen_Config_thorough.cfg',
                              maximal_only=False, timeout=900)
    chk.add_tlc(r)
    results = pool_map(run_module, [b['cfg'] for b in behs])
    for b, got in zip(behs, results):
        chk.impl_traces += 1
        chk.case(json.dumps(sorted(json.dumps(e, sort_keys=True) for e in b['cfg'])), len(b['cfg']) != 2 or b['missing'])
        bad = _cmp_module(b, got)
        if bad:
            clause, detail = bad
            sig = {'module': 'Config', 'event': 'module', 'clause': clause, 'kinds': _entry_kinds(b), **_feature(b['cfg'])}
            chk.violation(sig, {'source': 'Gen_Config', 'cfg': b['cfg'], 'allowed': b['allowed'], **detail})
    if behs:
        k = len(behs) // 2
        chk.sample({'module_cfg': behs[k]['cfg'], 'allowed': behs[k]['allowed'], 'observed': results[k]['out']})

    # 2 spec -> code, node level (judged by Trace_Config)
    r, nodes = emit_behaviours('Gen_ConfigNode', 'Gen_ConfigNode_quick.cfg' if quick else 'Gen_ConfigNode_thorough.cfg',
                               maximal_only=False, timeout=900)
    chk.add_tlc(r)
    files = [{'files': n['files'], 'mode': n['mode'], 'iopolled': n['iopolled']} for n in nodes]
    traces = pool_map(_run_node_case, files)
    for n, tr in zip(nodes, traces):
        chk.impl_traces += 1
        chk.case(json.dumps(n['files'], sort_keys=True), True)
        # alpha(gamma(x)) = x: the node saw the modules TLC configured
        runs = 2 if n['mode'] == 'twice' else 1
        if sorted(e['m'] for e in tr if e['ev'] == 'create') != sorted(list(n['allowed']) * runs):
            chk.violation({'module': 'Config', 'clause': 'harness: modules seen by the node'}, {'files': n['files']})
    _judge(chk, traces, 'Gen_ConfigNode', files)
    if traces:
        chk.sample({'node_trace': [{k: v for k, v in e.items() if k not in ('st', 'files')} for e in traces[len(traces) // 2]]})

    # 3 code -> spec, random
    nm, nn = (150, 150) if quick else (3000, 2500)
    seeds = [chk.seed * 7919 + i for i in range(nm)]
    mtraces = pool_map(_random_module_trace, seeds)
    chk.impl_traces += 8 * nm
    for s in seeds:
        chk.case('rm%d' % s, True)
    _judge(chk, mtraces, 'random modules', [{'random_module_seed': s} for s in seeds])
    seeds = [chk.seed * 104729 + i for i in range(nn)]
    ntraces = pool_map(_random_node_trace, seeds)
    chk.impl_traces += nn
    for s in seeds:
        chk.case('rn%d' % s, True)
    _judge(chk, ntraces, 'random nodes', [{'random_node_seed': s} for s in seeds])
    chk.exhaustive = False
    chk.assumptions.append('one configured class shape (CfgMod); error texts are only searched for module names')


def replay(chk, rep):
    d = rep['detail']
    if 'cfg' in d:
        print('configuration:', _mod_source('m', d['cfg']).strip())
        got = run_module(d['cfg'])
        print('allowed', d.get('allowed'), 'observed', got['out'], got.get('error', ''))
        print(json.dumps(got['st'], indent=1)[:3000])
        return 0
    case = d['case']
    if isinstance(case, dict) and 'random_module_seed' in case:
        tr = _random_module_trace(case['random_module_seed'])
    elif isinstance(case, dict) and 'random_node_seed' in case:
        tr = _random_node_trace(case['random_node_seed'])
    else:
        tr = _run_node_case(case) if isinstance(case, dict) else run_node(case)
    for i, e in enumerate(tr, 1):
        if e['ev'] == 'node':
            print('--- run', e.get('run'), 'mode', e.get('mode'))
            for k, f in enumerate(e['files']):
                print('file', k + 1)
                print('    ' + _file_source(k, f, e.get('mode') == 'share').replace('\n', '\n    ').rstrip())
        elif e['ev'] == 'module':
            print(i, 'module', _mod_source('m', e['cfg']).strip(), '->', e['out'], e.get('error', ''))
        else:
            print(i, {k: v for k, v in e.items() if k != 'st'})
    print('clause:', d['clause'], 'at event', d['failed_at'])
    return 0
