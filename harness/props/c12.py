"""C12 - Client cache and callbacks mirror the node end to end.

spec/ClientCache.tla.  Binding:
  spec -> code : every behaviour of Gen_ClientCache (exhaustive to the depth bound over identifier /
                 data-part / callback classes, plus TLC -simulate behaviours of greater depth) is
                 replayed on a real SecopClient whose real receive loop (_SecopClient__rxthread)
                 reads from a scripted connection; cache, registered callbacks, waiting requests,
                 callback invocations and the cache seen by a released caller are compared with
                 the state TLC printed after every step.
  code -> spec : seeded random histories over bigger descriptions / value and error catalogues are
                 recorded and validated by Trace_ClientCache; end-to-end records
                 {sent, driver_received, driver_returned, client_cache} from a real node over real TCP
                 and from a proxy node in front of it are judged by the same TLC run (law
                 DriverReceived = Sent, ClientCache = DriverReturned).
"""
import hashlib
import json
import random
import socket
import threading
import time as _time

from ..core import MachineryError, model_check, pool_map, run_tlc, sany, validate_traces
from ..env import LoggerStub, boot

META = {
    'text': 'TLC model-checks the cache/callback design (all message classes x identifier classes x data-part '
            'shapes x registration patterns to the depth bound); every behaviour TLC enumerates or samples is '
            'replayed on a real SecopClient driven through its real receive loop on a scripted connection, with '
            'cache, registered callbacks, callback invocations and released callers compared after each step; '
            'recorded random histories and end-to-end records of real nodes (TCP server, dispatcher, generated '
            'driver modules, proxy node) are validated by TLC against Trace_ClientCache. Bounded (depth, 2-3 '
            'modules, value/error catalogues), exhaustive inside the bound.',
    'note': 'Trusted: TLC; the alpha/gamma tables in harness/props/c12.py (abstract value ids <-> JSON / python '
            'values, scripted connection, patched clock of frappy.client). The depth-bounded design check runs with one TLC '
            'worker (TLCGet("level") is only exact then). The end-to-end part runs in wall-clock time over loopback TCP '
            '(TCP_NODELAY set on the listening socket), repeats a request that ran into a time-out / lost connection up to '
            '3 times and judges value equality only. Not covered: nodeStateChange / descriptiveDataChange / '
            'unhandledMessage callbacks, ordering of callbacks inside one message, concurrency of the tx/rx threads (C11).',
    'tech': 'TLA+ spec (ClientCache.tla) + TLC model checking; spec->code replay of TLC behaviours (exhaustive + '
            'simulated); code->spec TLC trace validation incl. end-to-end law',
    'ref': 'DESIGN.md section 5 C12',
}

T0 = 1700000000.0
NOT = 999
UNDEF = ['undef', 0, 'none', 'none']

# ------------------------------------------------------------------ gamma / alpha tables
# parameter name -> exported name, datainfo, wire value per wire id, python value expected after import
PTAB = {
    'value': ('value', {'type': 'double', 'min': -100, 'max': 100},
              {'w1': 1.5, 'w2': 3, 'w3': -2.25, 'wbad': 'abc'},
              {'w1': 1.5, 'w2': 3.0, 'w3': -2.25}),
    'target': ('target', {'type': 'double'},     # same wire catalogue as 'value' (bare identifiers resolve to either)
               {'w1': 1.5, 'w2': 3, 'w3': -2.25, 'wbad': 'abc'},
               {'w1': 1.5, 'w2': 3.0, 'w3': -2.25}),
    # custom accessibles whose name is underscore + a predefined name keep the underscore as internal name
    '_target': ('_target', {'type': 'double'},
                {'w1': 1.5, 'w2': 3, 'w3': -2.25, 'wbad': 'abc'}, {'w1': 1.5, 'w2': 3.0, 'w3': -2.25}),
    '_value': ('_value', {'type': 'double'},
               {'w1': 1.5, 'w2': 3, 'w3': -2.25, 'wbad': 'abc'}, {'w1': 1.5, 'w2': 3.0, 'w3': -2.25}),
    'x': ('_x', {'type': 'enum', 'members': {'a': 1, 'b': 2, 'c': 5}},
          {'w1': 1, 'w2': 5, 'w3': 2, 'wbad': 7},
          {'w1': ('enum', 1, 'a'), 'w2': ('enum', 5, 'c'), 'w3': ('enum', 2, 'b')}),
    'y': ('_y', {'type': 'struct', 'members': {'a': {'type': 'int', 'min': 0, 'max': 9}, 'b': {'type': 'string'}},
                 'optional': ['b']},
          {'w1': {'a': 1, 'b': 's'}, 'w2': {'a': 2}, 'w3': {'a': 0, 'b': ''}, 'wbad': {'zz': 1}},
          {'w1': {'a': 1, 'b': 's'}, 'w2': {'a': 2}, 'w3': {'a': 0, 'b': ''}}),
    's': ('s', {'type': 'tuple', 'members': [{'type': 'int', 'min': 0, 'max': 9}, {'type': 'bool'}]},
          {'w1': [1, True], 'w2': [2, False], 'w3': [9, True], 'wbad': 'no'},
          {'w1': (1, True), 'w2': (2, False), 'w3': (9, True)}),
}
# error class id -> SECoP name on the wire; python class expected (None: any generic SECoPError)
# (the whole SECoP error table; InternalError is the generic class an unknown name is rebuilt to as well)
ETAB = {'ProtocolError': 'ProtocolError', 'NoSuchModule': 'NoSuchModuleError', 'NoSuchParameter': 'NoSuchParameterError',
        'NoSuchCommand': 'NoSuchCommandError', 'CommandFailed': 'CommandFailedError', 'CommandRunning': 'CommandRunningError',
        'ReadOnly': 'ReadOnlyError', 'RangeError': 'RangeError', 'WrongType': 'WrongTypeError', 'BadJSON': 'BadJSONError',
        'CommunicationFailed': 'CommunicationFailedError', 'TimeoutError': 'TimeoutSECoPError', 'HardwareError': 'HardwareError',
        'IsBusy': 'IsBusyError', 'IsError': 'IsErrorError', 'Disabled': 'DisabledError', 'Impossible': 'ImpossibleError',
        'ReadFailed': 'ReadFailedError', 'OutOfRange': 'OutOfRangeError', 'NotImplemented': 'NotImplementedSECoPError',
        'InternalError': None, 'Bogus': None, 'BadValue': None}
# tp: frappy's leading "Class: text" convention (both readings allowed by the spec); tm / th: the name of an error class
# followed by ': ' in the MIDDLE of the text, tv: leading name of a python exception that is no SECoP error class -
# all three are plain texts for the property: class = the reported class, text preserved
TEXTS = {'t1': 'sensor failed', 't2': 'device: no answer (code 5)', 'tp': 'RangeError: sensor failed',
         'tm': 'device said RangeError: sensor failed', 'th': 'failed with HardwareError: sensor failed',
         'tv': 'ValueError: sensor failed'}


def norm(v):
    """type-faithful canonical form of a python value (alpha)"""
    if type(v).__name__ == 'EnumMember':
        return ['enum', int(v), v.name]
    if isinstance(v, bool):
        return ['bool', v]
    if isinstance(v, int):
        return ['int', v]
    if isinstance(v, float):
        return ['float', repr(v)]
    if isinstance(v, str):
        return ['str', v]
    if isinstance(v, (bytes, bytearray)):
        return ['bytes', bytes(v).hex()]
    if isinstance(v, (tuple, list)):
        return ['seq', [norm(x) for x in v]]
    if isinstance(v, dict):
        return ['dict', {str(k): norm(x) for k, x in v.items()}]
    if v is None:
        return ['none']
    return ['?', repr(v)]


def _norm_expected(x):
    if isinstance(x, tuple) and x and x[0] == 'enum':
        return ['enum', x[1], x[2]]
    if isinstance(x, tuple):
        return ['seq', [_norm_expected(i) for i in x]]
    if isinstance(x, dict):
        return ['dict', {k: _norm_expected(i) for k, i in x.items()}]
    return norm(x)


# description variant "b": the same names with other datatypes (another node with an equally named module); only wire
# value w2 is importable, and it gives ANOTHER python value than under variant "a" (abstract value id 'w2b')
_INT = {'type': 'int', 'min': -100, 'max': 100}
PTAB_B = {
    'value': (_INT, 3), 'target': (_INT, 3), '_target': (_INT, 3), '_value': (_INT, 3),
    'x': ({'type': 'enum', 'members': {'other': 5}}, ('enum', 5, 'other')),
    'y': ({'type': 'struct', 'members': {'a': {'type': 'double', 'min': 2, 'max': 9}}}, {'a': 2.0}),
    's': ({'type': 'tuple', 'members': [{'type': 'enum', 'members': {'two': 2}}, {'type': 'bool'}]}, (('enum', 2, 'two'), False)),
}
EXPECT = {p: {json.dumps(_norm_expected(v), sort_keys=True): w for w, v in tab[3].items()} for p, tab in PTAB.items()}
for _p, (_di, _v) in PTAB_B.items():
    EXPECT[_p][json.dumps(_norm_expected(_v), sort_keys=True)] = 'w2b'
TEXT_ID = {v: k for k, v in TEXTS.items()}


def a_value(pname, v):
    k = json.dumps(norm(v), sort_keys=True)
    return EXPECT.get(pname, {}).get(k, '?' + k)


def _eq_probe(e):
    """a rebuilt error must be comparable (readParameter compares the reply's error with the cached one) and equal
    to a second rebuild from the same report"""
    try:
        again = type(e)(*e.args)
        if not (e == again) or e != again:
            return '?not equal to a second rebuild (%s)' % type(e).__name__
    except Exception as x:
        return '?comparison raises %s (%s)' % (type(x).__name__, type(e).__name__)
    return None


def a_error(e):
    from frappy.errors import SECoPError
    cls = None
    for eid, cname in ETAB.items():
        if cname and type(e).__name__ == cname:
            cls = eid
    if cls is None:
        cls = 'generic' if isinstance(e, SECoPError) else '?' + type(e).__name__
    cls = _eq_probe(e) or cls
    txt = e.args[0] if len(e.args) == 1 else repr(e.args)
    return cls, TEXT_ID.get(txt, '?' + str(txt))


def a_entry(pname, value, ts, err):
    """cache entry / callback arguments -> [val, ts, cls, text]"""
    tick = ts - T0 if isinstance(ts, (int, float)) and not isinstance(ts, bool) else None
    if tick is not None and tick == int(tick) and 0 <= tick < 9000:
        tick = int(tick)
    else:   # not representable as a tick: a value no specification entry carries (TLC compares integers only)
        tick = 9998
    if err is not None:
        cls, txt = a_error(err)
        return ['null' if value is None else '?' + repr(value), tick, cls, txt]
    return [a_value(pname, value), tick, 'none', 'none']


def g_desc(desc, variant='a'):
    """set of (module, parameter) -> descriptive data of a generated node"""
    mods = {}
    for m, p in sorted(desc):
        acc = mods.setdefault(m, {'accessibles': {}, 'description': m, 'interface_classes': [],
                                  'implementation': 'gen', 'features': []})['accessibles']
        acc[PTAB[p][0]] = {'description': p, 'datainfo': PTAB_B[p][0] if variant == 'b' else PTAB[p][1], 'readonly': False}
    for md in mods.values():
        for c in DESC_CMDS:     # predefined command name, the same with an underscore (custom), a custom one
            md['accessibles'][c] = {'description': 'a command', 'datainfo': {'type': 'command'}}
    return {'modules': mods, 'equipment_id': 'gen', 'description': 'generated', 'firmware': 'x'}


DESC_CMDS = ['cmd', 'stop', '_stop']      # = DescCmds of the cfg files; wire name = internal name


def g_ident(ident):
    m, p = ident
    if p == '':
        return m
    return '%s:%s' % (m, PTAB[p][0] if p in PTAB else p)


def g_line(msg):
    """abstract message -> line on the wire"""
    p = msg['ident'][1]
    tab = PTAB[p if p in PTAB else 'value']
    q = {} if msg['t'] == NOT else {'t': T0 + msg['t']}
    shape = msg['shape']
    if shape == 'okq':     # well formed, with qualifiers the client does not know
        q = dict(q, e=0.25, x_extra=['any', {'thing': None}])
        shape = 'ok'
    if msg['action'] in ('update', 'reply', 'changed'):
        v = tab[2][msg['w']]
        data = {'ok': [v, q], 'short': [v], 'scalar': 5, 'badq': [v, 3], 'badt': [v, {'t': 'yesterday'}],
                'badtext': [v, None]}.get(shape)
    else:
        name, x = msg['en'], TEXTS[msg['tx']]
        data = {'ok': [name, x, q], 'short': [name, x], 'scalar': 5, 'badq': [name, x, 3],
                'badt': [name, x, {'t': 'yesterday'}], 'badtext': [name, 5, {}]}.get(shape)
    line = '%s %s' % (msg['action'], g_ident(msg['ident']))
    if shape != 'nodata':
        line += ' ' + json.dumps(data)
    return line.encode('utf-8')


def cbkey(cb):
    return (tuple(cb['level']), cb['kind'], cb['beh'])


# ------------------------------------------------------------------ message level world

class _Clock:
    """what frappy.client sees as the time module"""

    def __init__(self):
        self.tick = 0

    def time(self):
        return T0 + self.tick

    def __getattr__(self, name):
        return getattr(_time, name)


class _RecEvent:
    """the Event of a waiting request: remembers what the released caller finds in the cache"""

    def __init__(self, world):
        self.world = world
        self.seen = None

    def set(self):
        if self.seen is None and not self.world.finished:
            self.seen = self.world.a_cache()
            self.world.released.append(self)

    def wait(self, timeout=None):
        return True

    def is_set(self):
        return self.seen is not None


class _ScriptIO:
    """scripted connection: every readline() is 'the previous line has been processed completely'"""

    def __init__(self, world):
        self.world = world

    def readline(self, timeout=None):
        return self.world.next_line()

    def send(self, data):
        self.world.sent.append(data)

    writeline = send

    def shutdown(self):
        pass

    def disconnect(self):
        pass


class MsgWorld:
    """a real SecopClient, its real receive loop, a scripted connection, a controlled clock"""

    def __init__(self, desc, variant='a'):
        boot()
        import frappy.client as fc

        class Client(fc.SecopClient):
            activate = False

            def __del__(self):
                pass

        self.fc = fc
        self.clock = _Clock()
        self.client = Client('fake://peer', log=LoggerStub('client'))
        self.other = Client('fake://other', log=LoggerStub('other'))    # another client object of the same process
        self.variant = variant
        self.client.io = _ScriptIO(self)
        self.client._running = True
        self.sent = []
        self.finished = False
        self.funcs = {}     # cbkey -> function
        self.calls = []     # invocations since the last observation
        self.released = []
        self.obs = []
        self.pending = None  # step whose effects are being collected
        self.ident_of = {}
        self.peeked = []
        self.handled_errors = 0
        self.skipped = []
        self.describe(desc)
        self.names0, self.names = self.names, None

    # -- gamma
    def describe(self, desc, variant=None):
        self.desc = sorted(tuple(k) for k in desc)
        self.variant = variant or self.variant
        self.client._init_descriptive_data(g_desc(self.desc, self.variant))
        self.names = self.a_names()      # reported with the next observation

    def make_cb(self, cb):
        key = cbkey(cb)
        world = self
        beh = cb['beh']

        if cb['kind'] == 'handleError':
            def fn(exc):
                world.handled_errors += 1
                world.react(beh)
        elif cb['kind'] == 'updateEvent':
            def fn(module, parameter, value, timestamp, readerror):
                world.calls.append({'cb': cb, 'm': module, 'p': parameter, 'e': a_entry(parameter, value, timestamp, readerror)})
                world.react(beh)
        else:
            def fn(module, parameter, item):
                ok = type(item).__name__ == 'CacheItem'
                e = a_entry(parameter, item.value, item.timestamp, item.readerror) if ok else ['?' + repr(item), 0, '?', '?']
                world.calls.append({'cb': cb, 'm': module, 'p': parameter, 'e': e})
                world.react(beh)
        fn.__name__ = cb['kind']
        fn.cb = cb
        self.funcs[key] = fn
        return fn

    def react(self, beh):
        if beh == 'raise':
            raise ValueError('callback fails')
        if beh == 'oneshot':
            raise self.fc.UnregisterCallback()

    @staticmethod
    def level_key(level):
        m, p = level
        return None if m == '' else (m if p == '' else (m, p))

    # -- alpha
    def a_cache(self):
        res = []
        for (m, p), item in self.client.cache.items():
            res.append([m, p] + a_entry(p, item[0], item[1], item[2]))
        return sorted(res)

    def a_cbs(self):
        res = []
        for kind in ('updateEvent', 'updateItem', 'handleError'):
            for key, lst in self.client.callbacks[kind].items():
                for fn in lst:
                    cb = getattr(fn, 'cb', None)
                    if kind == 'handleError' and getattr(fn, '__self__', None) is self.client:
                        continue    # the client's own handler
                    lv = ['', ''] if key is None else ([key, ''] if isinstance(key, str) else list(key))
                    if cb is None:
                        res.append([lv, kind, '?foreign'])
                    elif lv != list(cb['level']) or kind != cb['kind']:
                        res.append([lv, kind, '?misfiled ' + cb['beh']])
                    else:
                        res.append([list(cb['level']), cb['kind'], cb['beh']])
        return sorted(res, key=json.dumps)

    def a_names(self):
        """the client's two name maps, identifiers written as the (module, internal name) gamma sends them for"""
        back = {}
        for m, _ in self.desc:
            for p, tab in PTAB.items():
                back['%s:%s' % (m, tab[0])] = [m, p]
            for c in DESC_CMDS:
                back['%s:%s' % (m, c)] = [m, c]
        idmap = sorted([[m, p], back.get(ident, ['?', ident])] for (m, p), ident in self.client.identifier.items())
        intmap = sorted([back.get(ident, ['?', ident]), [m, p]] for ident, (m, p) in self.client.internal.items())
        return {'idmap': idmap, 'intmap': intmap}

    def a_waiting(self):
        res = []
        for key in self.client.active_requests:
            res.append([key[0], list(self.ident_of.get(key[1], ('?', str(key[1]))))] if key else ['?', ['?', '?']])
        return sorted(res)

    def observe(self):
        o = {'cache': self.a_cache(), 'cbs': self.a_cbs(), 'waiting': self.a_waiting(), 'calls': self.calls,
             'released': bool(self.released), 'seen': self.released[0].seen if self.released else []}
        self.calls = []
        self.released = []
        if self.names:
            o['names'], self.names = self.names, None
        return o

    # -- driving
    def next_line(self):
        if self.pending is not None:
            self.obs.append(self.observe())
            self.pending = None
        while True:
            st = self.pull()
            if st is None:
                break
            act = st.get('act') or st.get('ev')
            if act == 'recv':
                self.pending = st
                return g_line(st['msg'])
            if act == 'idle':       # nothing on the line within the time-out of the connection
                self.pending = st
                return None
            if act == 'register':
                self.do_registers(self.group(st))
                continue
            if st.get('maybe') and not self.enabled(act, st):
                self.skipped.append(st)
                continue
            self.do(act, st)
            self.obs.append(self.observe())
        self.finished = True
        self.client._shutdown.set()
        raise self.fc.ConnectionClosed()

    def enabled(self, act, st):
        """random steps marked 'maybe' are only legal in some states (unregister of a callback that is gone,
        a second request with an equal key): decided on the real client's state when the step is due"""
        if act == 'unregister':
            cb = st['cb']
            return [list(cb['level']), cb['kind'], cb['beh']] in self.a_cbs()
        if act == 'expect':
            return (st['rk'][0], g_ident(st['rk'][1])) not in self.client.active_requests
        return True

    def pull(self):
        if self.peeked:
            return self.peeked.pop(0)
        return next(self.steps, None)

    def group(self, st):
        """consecutive Register steps on the same key with different callback names are concretised as ONE
        real register_callback(key, cb1, cb2) call (must be equivalent to registering one after the other);
        a step marked 'single' keeps its own call"""
        grp = [st]
        while not st.get('single'):
            nxt = self.pull()
            if nxt is None:
                break
            if ((nxt.get('act') or nxt.get('ev')) == 'register' and not nxt.get('single')
                    and nxt['cb']['level'] == st['cb']['level']
                    and nxt['cb']['kind'] not in [g['cb']['kind'] for g in grp]):
                grp.append(nxt)
            else:
                self.peeked.insert(0, nxt)
                break
        return grp

    def do_registers(self, grp):
        kwds = {}
        for st in grp:    # keyword order = order of the steps
            kwds[st['cb']['kind']] = self.make_cb(st['cb'])
        key = self.level_key(grp[0]['cb']['level'])
        if isinstance(key, str):      # both calling conventions: callback name from the keyword / from __name__
            self.client.register_callback(key, *kwds.values())
        else:
            self.client.register_callback(key, **kwds)
        o = self.observe()
        mine = [cbkey(st['cb']) for st in grp]
        for i, st in enumerate(grp):
            last = i == len(grp) - 1
            calls = [c for c in o['calls'] if cbkey(c['cb']) == mine[i] or (last and cbkey(c['cb']) not in mine)]
            # the state between two callbacks of one call is not observable: only the calls of this callback
            self.obs.append(dict(o, calls=calls, merged=not last, group=len(grp)))

    def do(self, act, st):
        c = self.client
        if act == 'unregister':
            fn = self.funcs[cbkey(st['cb'])]
            key = self.level_key(st['cb']['level'])
            if isinstance(key, str):
                c.unregister_callback(key, fn)
            else:
                c.unregister_callback(key, **{st['cb']['kind']: fn})
        elif act == 'expect':
            ra, ident = st['rk']
            wi = g_ident(ident)
            self.ident_of[wi] = tuple(ident)
            c.active_requests[(ra, wi)] = [({'reply': 'read', 'changed': 'change'}[ra], wi, None), _RecEvent(self), None]
        elif act == 'tick':
            self.clock.tick = st['now'] if 'now' in st else st['exp']['n']
        elif act in ('describe', 'descr'):
            self.describe(st['desc'], st.get('variant'))
        elif act == 'other':    # the other client of the process is told (another) description with the same module names
            self.other._init_descriptive_data(g_desc(sorted(tuple(k) for k in st['desc']), st['variant']))
            self.names = self.a_names()
        else:
            raise MachineryError('unknown step %r' % (st,))

    def run(self, steps):
        """execute the steps through the real receive loop; one observation per step"""
        self.steps = iter(steps)
        saved = self.fc.time
        self.fc.time = self.clock
        try:
            self.client._SecopClient__rxthread()
        finally:
            self.fc.time = saved
            self.client._running = False
        # not finished: the receive loop gave up before the end of the script - an observable outcome
        self.stopped = not self.finished
        return self.obs


# ------------------------------------------------------------------ spec -> code

def _exp_obs(st):
    """the state TLC printed after the step, in the shape MsgWorld.observe() produces"""
    e = st['exp']
    last = e['l']
    o = {'cache': sorted(e['c']),
         'cbs': sorted(e['b'], key=json.dumps),
         'waiting': sorted([w[0], list(w[1])] for w in e['w'])}
    if last['kind'] == 'recv':
        o['calls'] = sorted((c + list(last['key']) + last['view'] for c in last['calls']), key=json.dumps)
        o['released'] = last['released']
        if last['released'] and last['handled']:
            o['seen'] = o['cache']
    elif last['kind'] == 'register':
        cache = {(c[0], c[1]): c[2:] for c in e['c']}
        o['calls'] = sorted((last['cb'] + list(k) + cache[tuple(k)] for k in last['ikeys']), key=json.dumps)
    return o


def _got_obs(o, exp):
    g = {'cache': o['cache'], 'cbs': exp['cbs'] if o.get('merged') else o['cbs'], 'waiting': o['waiting']}
    if 'calls' in exp:
        g['calls'] = sorted(([list(c['cb']['level']), c['cb']['kind'], c['cb']['beh'], c['m'], c['p']] + c['e']
                             for c in o['calls']), key=json.dumps)
    elif o['calls']:
        g['calls'] = o['calls']
    if 'released' in exp:
        g['released'] = o['released']
    if 'seen' in exp:
        g['seen'] = o['seen']
    return g


def _replay(beh):
    """replay one TLC behaviour; returns None or the first mismatch"""
    try:
        w = MsgWorld(beh[0]['desc'], beh[0].get('variant', 'a'))
        obs = w.run(beh[1:])
    except MachineryError:
        raise
    except Exception as e:   # the receive loop or a registration raised: an observable outcome
        return {'step': -1, 'action': {'act': 'exception'}, 'expected': {}, 'observed': {'exception': repr(e)}}
    names_bad = None
    if 'ids' in beh[0] and (w.names0['idmap'] != sorted(beh[0]['ids']) or w.names0['intmap'] != sorted(beh[0]['ids'])):
        # reported if nothing else differs (a wrong name map usually shows in cache / callback keys, too)
        names_bad = {'step': -1, 'action': {'act': 'descr'}, 'expected': {'names': sorted(beh[0]['ids'])},
                     'observed': {'names': w.names0}}
    for i, (st, o) in enumerate(zip(beh[1:], obs)):
        exp = _exp_obs(st)
        got = _got_obs(o, exp)
        if 'ids' in st:     # both name maps are the identity on the described accessibles
            exp['names'] = {'idmap': sorted(st['ids']), 'intmap': sorted(st['ids'])}
            got['names'] = o.get('names')
        if got != exp:
            return {'step': i, 'action': {k: v for k, v in st.items() if k != 'exp'}, 'expected': exp, 'observed': got}
    if len(obs) != len(beh) - 1:
        return {'step': len(obs), 'action': {'act': 'end'}, 'expected': {'steps': len(beh) - 1}, 'observed': {'steps': len(obs)}}
    return names_bad


def _msg_class(st):
    """stable class of a step for signatures"""
    if (st.get('act') or st.get('ev')) != 'recv':
        a = st.get('act') or st.get('ev')
        if 'cb' in st:
            return '%s %s/%s/%s' % (a, 'node' if st['cb']['level'][0] == '' else 'module' if st['cb']['level'][1] == '' else 'param',
                                    st['cb']['kind'], st['cb']['beh'])
        return a
    m = st['msg']
    ident = 'bare' if m['ident'][1] == '' else 'full'
    data = m['shape'] if m['shape'] != 'ok' else ('rejected value' if m['w'] == 'wbad' and not m['action'].startswith('error') else
                                                  'no t' if m['t'] == NOT else 't')
    return '%s %s %s' % (m['action'], ident, data)


# ------------------------------------------------------------------ code -> spec, message level

R_MODS = ['m1', 'm2', 'm3']
R_PNAMES = ['value', 'target', 'x', 'y', 's', '_target', '_value']
R_ENAMES = list(ETAB)
R_SHAPES = ['short', 'scalar', 'badq', 'badt', 'nodata', 'badtext']


def _rand_desc(rnd):
    d = set()
    for m in R_MODS[:rnd.randint(1, 3)]:
        for p in rnd.sample(R_PNAMES, rnd.randint(1, 4)):
            d.add((m, p))
    return sorted(d)


def _random_trace(seed_n):
    seed, n = seed_n
    rnd = random.Random(seed)
    desc = _rand_desc(rnd)
    w = MsgWorld(desc, rnd.choice(['a', 'a', 'b']))
    steps = []
    regs = []
    now = 0
    waiting = set()
    for _ in range(n):
        r = rnd.random()
        if r < 0.62:
            known = rnd.random() < 0.75 and desc
            if known:
                m, p = rnd.choice(desc)
                if p in ('value', 'target') and rnd.random() < 0.3:
                    p = ''
            else:
                m, p = rnd.choice(R_MODS + ['zz']), rnd.choice(R_PNAMES + ['zz', 'cmd', ''])
            iserr = rnd.random() < 0.3
            action = rnd.choice(['error_update', 'error_read', 'error_change']) if iserr else rnd.choice(['update', 'update', 'reply', 'changed'])
            shape = rnd.choice(['ok', 'ok', 'okq']) if rnd.random() < 0.85 else rnd.choice(R_SHAPES)
            if action == 'error_change':
                shape = 'ok'
            msg = {'action': action, 'ident': [m, p], 'shape': shape, 'w': 'w1', 't': NOT, 'en': 'HardwareError', 'tx': 't1'}
            if shape in ('ok', 'okq'):
                msg['t'] = rnd.choice([NOT, rnd.randint(0, 30), max(0, now - rnd.randint(0, 3)), now])
                if iserr:
                    msg['en'] = rnd.choice(R_ENAMES)
                    msg['tx'] = rnd.choice(sorted(TEXTS))
                else:
                    msg['w'] = rnd.choice(['w1', 'w2', 'w3', 'w1', 'w2', 'w3', 'wbad'])
            if action == 'error_change':
                msg['t'] = NOT
            steps.append({'ev': 'recv', 'msg': msg})
        elif r < 0.76:
            lv = rnd.choice([['', ''], [rnd.choice(R_MODS), ''], list(rnd.choice(desc)) if desc else ['m1', 'value'],
                             [rnd.choice(R_MODS), rnd.choice(R_PNAMES)]])
            cb = {'level': lv, 'kind': rnd.choice(['updateEvent', 'updateItem']), 'beh': rnd.choice(['ok', 'ok', 'raise', 'oneshot'])}
            if rnd.random() < 0.12:   # a user's own error handler, well behaved or not
                cb = {'level': ['', ''], 'kind': 'handleError', 'beh': rnd.choice(['ok', 'raise'])}
                lv = cb['level']
            if cbkey(cb) not in {cbkey(c) for c in regs}:
                regs.append(cb)
                steps.append({'ev': 'register', 'cb': cb, 'single': rnd.random() < 0.5})
                if not steps[-1]['single'] and rnd.random() < 0.8:
                    # ONE register_callback call with two callbacks (one-shot + permanent mixes)
                    cb2 = {'level': lv, 'kind': 'updateItem' if cb['kind'] == 'updateEvent' else 'updateEvent',
                           'beh': rnd.choice(['ok', 'ok', 'raise', 'oneshot'])}
                    if cbkey(cb2) not in {cbkey(c) for c in regs}:
                        regs.append(cb2)
                        steps.append({'ev': 'register', 'cb': cb2})
        elif r < 0.82 and regs:
            cb = regs.pop(rnd.randrange(len(regs)))
            steps.append({'ev': 'unregister', 'cb': cb, 'maybe': True})
        elif r < 0.90:
            m, p = rnd.choice(desc) if desc and rnd.random() < 0.8 else (rnd.choice(R_MODS + ['zz']), rnd.choice(R_PNAMES + ['zz']))
            if p in ('value', 'target') and rnd.random() < 0.3:
                p = ''
            rk = [rnd.choice(['reply', 'changed']), [m, p]]
            steps.append({'ev': 'expect', 'rk': rk, 'maybe': True})
        elif r < 0.94:
            now = min(20, now + rnd.randint(1, 4))
            steps.append({'ev': 'tick', 'now': now})
        elif r < 0.97:
            for _ in range(rnd.choice([1, 1, 2, 6])):    # 5 silent periods in a row make the client send a ping
                steps.append({'ev': 'idle'})
        elif rnd.random() < 0.5:
            desc = _rand_desc(rnd)
            steps.append({'ev': 'descr', 'desc': [list(k) for k in desc], 'variant': rnd.choice(['a', 'b'])})
        else:   # another client object of the process is told a description with the same module names
            steps.append({'ev': 'other', 'desc': [list(k) for k in _rand_desc(rnd)], 'variant': rnd.choice(['a', 'b'])})
    return _record(w, steps)


def _record(w, steps):
    """run the steps through the real receive loop and write down what TLC has to explain"""
    first_desc, first_variant = w.desc, w.variant
    obs = w.run(steps)
    done = [st for st in steps if not any(st is x for x in w.skipped)]
    trace = [dict({'ev': 'descr', 'desc': [list(k) for k in first_desc], 'variant': first_variant, 'cache': []}, **w.names0)]
    for st, o in zip(done, obs):
        ev = {k: v for k, v in st.items() if k not in ('maybe', 'single')}
        ev['cache'] = [{'m': c[0], 'p': c[1], 'e': _rec(c[2:])} for c in o['cache']]
        ev['cbs'] = [{'level': c[0], 'kind': c[1], 'beh': c[2]} for c in o['cbs']]
        ev['waiting'] = o['waiting']
        if st['ev'] == 'recv':
            ev['calls'] = [{'cb': c['cb'], 'm': c['m'], 'p': c['p'], 'e': _rec(c['e'])} for c in o['calls']]
            ev['released'] = o['released']
            ev['seen'] = [{'m': c[0], 'p': c[1], 'e': _rec(c[2:])} for c in o['seen']]
        elif st['ev'] in ('descr', 'other'):
            ev.update(o.get('names') or {'idmap': [], 'intmap': []})
        elif st['ev'] == 'register':
            ev['icalls'] = [{'m': c['m'], 'p': c['p'], 'e': _rec(c['e'])} for c in o['calls']
                            if cbkey(c['cb']) == cbkey(st['cb'])]
            ev['foreign'] = len(o['calls']) - len(ev['icalls'])    # calls of callbacks not being registered
            ev['merged'] = bool(o.get('merged'))
        trace.append(ev)
    if w.stopped:
        trace.append({'ev': 'receive loop stopped', 'after': len(obs)})
    return trace


def _rec(e):
    return {'val': e[0], 'ts': e[1], 'err': {'cls': e[2], 'text': e[3]}}


def _sweep_trace(seed):
    """deterministic part of the histories: one error_update, error_read (with a waiting request) and error_change per
    error class name of the SECoP table (and unknown names), with callbacks registered on all three levels"""
    rnd = random.Random(seed)
    w = MsgWorld([('m1', 'value'), ('m1', 'target'), ('m2', 'x')])
    steps = [{'ev': 'register', 'cb': {'level': ['', ''], 'kind': 'updateItem', 'beh': 'ok'}, 'single': True},
             {'ev': 'register', 'cb': {'level': ['m1', ''], 'kind': 'updateEvent', 'beh': 'ok'}, 'single': True},
             {'ev': 'register', 'cb': {'level': ['m1', 'value'], 'kind': 'updateEvent', 'beh': 'ok'}, 'single': True}]
    now = 0
    for en in R_ENAMES:
        def msg(action, ident, t):
            return {'ev': 'recv', 'msg': {'action': action, 'ident': ident, 'shape': 'ok', 'w': 'w1', 't': t, 'en': en,
                                          'tx': rnd.choice(['t1', 't2', 'tm', 'th', 'tv'])}}
        for tx in sorted(TEXTS):      # every class x every kind of text
            steps.append({'ev': 'recv', 'msg': {'action': rnd.choice(['error_update', 'error_read']), 'ident': ['m2', 'x'],
                                                'shape': 'ok', 'w': 'w1', 't': NOT, 'en': en, 'tx': tx}})
        steps += [{'ev': 'expect', 'rk': ['reply', ['m1', 'value']]}, msg('error_read', ['m1', 'value'], now),
                  msg('error_update', ['m2', 'x'], NOT),
                  {'ev': 'expect', 'rk': ['changed', ['m1', 'target']]}, msg('error_change', ['m1', 'target'], NOT),
                  {'ev': 'recv', 'msg': {'action': 'update', 'ident': ['m1', 'value'], 'shape': 'ok', 'w': rnd.choice(['w1', 'w2']),
                                         't': NOT, 'en': 'HardwareError', 'tx': 't1'}}]
        if rnd.random() < 0.4 and now < 20:
            now += 1
            steps.append({'ev': 'tick', 'now': now})
    return _record(w, steps)


# ------------------------------------------------------------------ end to end (real nodes, real TCP)

class _TLog(LoggerStub):
    """logger tree in which Module.setRemoteLogging finds a RemoteLogHandler"""
    propagate = True

    def __init__(self, name='log', parent=None):
        super().__init__(name)
        self.parent = parent
        self.handlers = []

    def getChild(self, name, *args):
        return _TLog(self.name + '.' + name, self)


OTHER_NODE = False    # datatypes of the equally named parameters of ANOTHER node (same module name, same process)


def _datatypes():
    from frappy.datatypes import ArrayOf, BLOBType, BoolType, EnumType, FloatRange, IntRange, ScaledInteger, \
        StringType, StructOf, TupleOf
    if OTHER_NODE:
        return dict(_datatypes_own(), **{
            'double': IntRange(-1000, 1000), 'int': FloatRange(-50, 50), 'int64': FloatRange(), 'uint64': FloatRange(),
            'scaled': ScaledInteger(0.5, -5, 5), 'enum': EnumType('e', off=10, low=11, high=15), 'string': BLOBType(0, 12),
            'blob': StringType(0, 8), 'bool': IntRange(0, 1), 'array': ArrayOf(StringType(0, 3), 0, 4),
            'struct': StructOf(optional=['b', 'c'], a=StringType(0, 3), b=IntRange(0, 9), c=BoolType()), 'tuple': TupleOf(StringType(0, 3), BoolType())})
    return _datatypes_own()


def _datatypes_own():
    from frappy.datatypes import ArrayOf, BLOBType, BoolType, EnumType, FloatRange, IntRange, ScaledInteger, \
        StringType, StructOf, TupleOf
    return {
        'double': FloatRange(-1000, 1000),
        'int': IntRange(-50, 50),
        'int64': IntRange(-2 ** 63, 2 ** 63 - 1),
        'uint64': IntRange(0, 2 ** 64 - 1),
        'scaled': ScaledInteger(0.01, -5, 5),
        'bool': BoolType(),
        'enum': EnumType('e', off=0, low=1, high=5),
        'string': StringType(0, 12, isUTF8=True),
        'blob': BLOBType(0, 8),
        'array': ArrayOf(IntRange(0, 9), 0, 4),
        'tuple': TupleOf(IntRange(0, 9), StringType(0, 4), BoolType()),
        'struct': StructOf(optional=['b', 'c'], a=IntRange(0, 9), b=StringType(0, 4), c=FloatRange()),
        'arrstruct': ArrayOf(StructOf(optional=['q'], p=BoolType(), q=IntRange(0, 9)), 0, 3),
        'tupnest': TupleOf(EnumType('t', x=1, y=2), ArrayOf(FloatRange(), 0, 2)),
        'tupscaled': TupleOf(ScaledInteger(0.01, -5, 5), StringType(0, 4)),
        'tupblob': TupleOf(BLOBType(0, 8), IntRange(0, 9)),
        'arrscaled': ArrayOf(ScaledInteger(0.01, -5, 5), 0, 3),
        'structsb': StructOf(a=ScaledInteger(0.01, -5, 5), b=BLOBType(0, 8)),
        'bigblob': BLOBType(0, 200000), 'bigstring': StringType(0, 200000), 'bigarray': ArrayOf(IntRange(0, 9), 0, 100000),
    }


BIGKINDS = ['bigblob', 'bigstring', 'bigarray']     # frames of tens of kB
KINDS = ['int64', 'uint64', 'double', 'int', 'scaled', 'bool', 'enum', 'string', 'blob', 'array', 'tuple', 'struct', 'arrstruct', 'tupnest',
         # containers whose members have a wire form different from the internal one
         'tupscaled', 'tupblob', 'arrscaled', 'structsb']
SCALE = {'scaled': 0.01}
ENUMS = {'enum': {'off': 0, 'low': 1, 'high': 5}, 'tupnest.0': {'x': 1, 'y': 2}}


CONTAINERS = {'tupscaled': [(0, 'scaled'), (1, 'string')], 'tupblob': [(0, 'blob'), (1, 'digit')],
              'arrscaled': [(0, 'scaled')], 'structsb': [('a', 'scaled'), ('b', 'blob')]}
TEXTSAFE = False   # doubles whose display text (6 significant digits) is exact: the text form itself belongs to C02


def _gen_value(kind, rnd, partial=True, path=None):
    """a valid value of the kind, as abstract tree (what TLC compares) and the concrete form a caller passes"""
    path = path or kind

    def atom(txt, conc):
        return {'j': 'atom', 'v': txt}, conc
    if kind in BIGKINDS:     # compared by length and digest
        n = rnd.randint(20000, 60000)
        raw = bytes(rnd.getrandbits(8) for _ in range(n // 8)) * 8
        if kind == 'bigblob':
            return atom(_digest('x', raw), raw)
        if kind == 'bigstring':
            txt = ''.join(chr(32 + b % 95) for b in raw)
            return atom(_digest('t', txt.encode()), txt)
        digits = [b % 10 for b in raw]
        return atom(_digest('a', bytes(digits)), digits)
    if kind == 'double':
        v = rnd.choice([0.0, 1.5, -2.25, 1000.0, -1000.0, 0.1, 1e-9, round(rnd.uniform(-1000, 1000), rnd.randint(0, 6))])
        if TEXTSAFE:
            v = rnd.choice([0.0, 1.5, -2.25, 1000.0, -1000.0, 0.1, 1e-9, 0.000125, round(rnd.uniform(-99, 99), 3)])
        return atom('f:' + repr(float(v)), rnd.choice([v, int(v)]) if v == int(v) else v)
    if kind == 'cdouble':
        v = rnd.choice([0.0, 2.5, -1e9, 1e300, 5e-324, round(rnd.uniform(-1e6, 1e6), 3)])
        if TEXTSAFE:
            v = rnd.choice([0.0, 2.5, -1e9, 1e300, 1e-300, 123456.0, round(rnd.uniform(-99, 99), 3)])
        return atom('f:' + repr(float(v)), v)
    if kind in ('int64', 'uint64'):     # exact integers beyond 2^53 (not representable as float)
        anchors = [53, 62] + ([63] if kind == 'uint64' else [])
        v = rnd.choice([2 ** 53 + 1, 2 ** 62 + 1, 2 ** 63 - 1, 2 ** rnd.choice(anchors) + rnd.randint(-5, 5) | 1, rnd.randint(0, 9)]
                       + ([2 ** 63 + 1, 2 ** 64 - 1] if kind == 'uint64' else [-(2 ** 53) - 1, -(2 ** 63)]))
        return atom(_bigint(v), v)
    if kind in ('int', 'digit'):
        lo, hi = (-50, 50) if kind == 'int' else (0, 9)
        v = rnd.choice([lo, hi, 0, rnd.randint(lo, hi)])
        return atom('i:%d' % v, v)
    if kind == 'scaled':
        k = rnd.choice([-500, 500, 0, 1, 130, rnd.randint(-500, 500)])
        return atom('s:%d' % k, k * 0.01 if rnd.random() < 0.5 else k / 100)
    if kind == 'bool':
        v = rnd.random() < 0.5
        return atom('b:%s' % v, rnd.choice([v, int(v)]))
    if kind == 'enum':
        members = ENUMS[path]
        name = rnd.choice(sorted(members))
        return atom('e:%d' % members[name], rnd.choice([name, members[name]]))
    if kind == 'string':
        if path == 'string':   # the only UTF-8 string of the catalogue
            v = rnd.choice(['', 'a', 'x y', 'é€', '"q\\', 'abcdefghijkl', 'line\nbreak'])
        else:
            v = rnd.choice(['', 'a', 'x y', '"q\\', 'abcd', '{"}'])
        return atom('t:' + v, v)
    if kind == 'blob':
        v = rnd.choice([b'', b'\x00', b'\xff\xfe', bytes(rnd.randrange(256) for _ in range(rnd.randint(0, 8)))])
        return atom('x:' + v.hex(), v)
    if kind == 'array':
        items = [_gen_value('digit', rnd) for _ in range(rnd.randint(0, 4))]
        return {'j': 'seq', 'e': [a for a, _ in items]}, rnd.choice([list, tuple])(c for _, c in items)
    if kind == 'tuple':
        items = [_gen_value('digit', rnd), _gen_value('string', rnd, path='tuple.1'), _gen_value('bool', rnd)]
        return {'j': 'seq', 'e': [a for a, _ in items]}, rnd.choice([list, tuple])(c for _, c in items)
    if kind == 'struct':
        ab, co = {}, {}
        for f, k in (('a', 'digit'), ('b', 'string'), ('c', 'cdouble')):
            if f == 'a' or not partial or rnd.random() < 0.6:
                ab[f], co[f] = _gen_value(k, rnd, path='struct.' + f)
        return {'j': 'struct', 'm': ab}, co
    if kind == 'arrstruct':
        items = []
        for _ in range(rnd.randint(0, 3)):
            ab, co = {}, {}
            ab['p'], co['p'] = _gen_value('bool', rnd)
            if not partial or rnd.random() < 0.6:
                ab['q'], co['q'] = _gen_value('digit', rnd)
            items.append(({'j': 'struct', 'm': ab}, co))
        return {'j': 'seq', 'e': [a for a, _ in items]}, [c for _, c in items]
    if kind in CONTAINERS:
        spec = CONTAINERS[kind]
        if kind == 'arrscaled':
            items = [_gen_value('scaled', rnd) for _ in range(rnd.randint(0, 3))]
            return {'j': 'seq', 'e': [a for a, _ in items]}, rnd.choice([list, tuple])(c for _, c in items)
        items = [(f, _gen_value(k, rnd, path='tuple.1')) for f, k in spec]
        if kind == 'structsb':
            return {'j': 'struct', 'm': {f: a for f, (a, _) in items}}, {f: c for f, (_, c) in items}
        return {'j': 'seq', 'e': [a for _, (a, _) in items]}, rnd.choice([list, tuple])(c for _, (_, c) in items)
    if kind == 'tupnest':
        e = _gen_value('enum', rnd, path='tupnest.0')
        arr = [_gen_value('cdouble', rnd) for _ in range(rnd.randint(0, 2))]
        return ({'j': 'seq', 'e': [e[0], {'j': 'seq', 'e': [a for a, _ in arr]}]}, (e[1], [c for _, c in arr]))
    raise MachineryError('unknown kind ' + kind)


def _bigint(v):
    """an integer as symbolic position anchor + offset (TLC never sees the number)"""
    if abs(v) < 2 ** 31:
        return 'i:%d' % v
    sign = '-' if v < 0 else ''
    k = max(e for e in (31, 53, 62, 63, 64) if 2 ** e <= abs(v) + 8)
    return 'i:%s2^%d%+d' % (sign, k, abs(v) - 2 ** k)


def _digest(tag, raw):
    return '%s:%d:%s' % (tag, len(raw), hashlib.sha1(raw).hexdigest()[:16])


def a_tree(kind, v, path=None):
    """python value found at the driver / in the client cache -> abstract tree (alpha), by the declared kind"""
    path = path or kind
    try:
        if kind == 'bigblob':
            return {'j': 'atom', 'v': _digest('x', v) if isinstance(v, bytes) else '?%r' % type(v)}
        if kind == 'bigstring':
            return {'j': 'atom', 'v': _digest('t', v.encode()) if isinstance(v, str) else '?%r' % type(v)}
        if kind == 'bigarray':
            ok = isinstance(v, (tuple, list)) and all(isinstance(x, int) and not isinstance(x, bool) and 0 <= x <= 9 for x in v)
            return {'j': 'atom', 'v': _digest('a', bytes(v)) if ok else '?%r' % type(v)}
        if kind in ('double', 'cdouble'):
            return {'j': 'atom', 'v': 'f:' + repr(v)} if isinstance(v, float) else {'j': 'atom', 'v': '?%r' % (v,)}
        if kind in ('int64', 'uint64'):
            return {'j': 'atom', 'v': _bigint(v) if isinstance(v, int) and not isinstance(v, bool) else '?%r' % (v,)}
        if kind in ('int', 'digit'):
            return {'j': 'atom', 'v': 'i:%d' % v} if isinstance(v, int) and not isinstance(v, bool) else {'j': 'atom', 'v': '?%r' % (v,)}
        if kind == 'scaled':
            k = round(v / 0.01)
            return {'j': 'atom', 'v': 's:%d' % k} if abs(v - k * 0.01) < 1e-9 else {'j': 'atom', 'v': '?%r' % (v,)}
        if kind == 'bool':
            return {'j': 'atom', 'v': 'b:%s' % v} if isinstance(v, bool) else {'j': 'atom', 'v': '?%r' % (v,)}
        if kind == 'enum':
            ok = type(v).__name__ == 'EnumMember' and ENUMS[path].get(v.name) == int(v)
            return {'j': 'atom', 'v': 'e:%d' % int(v)} if ok else {'j': 'atom', 'v': '?%r' % (v,)}
        if kind == 'string':
            return {'j': 'atom', 'v': 't:' + v} if isinstance(v, str) else {'j': 'atom', 'v': '?%r' % (v,)}
        if kind == 'blob':
            return {'j': 'atom', 'v': 'x:' + v.hex()} if isinstance(v, bytes) else {'j': 'atom', 'v': '?%r' % (v,)}
        if kind == 'array':
            return {'j': 'seq', 'e': [a_tree('digit', x) for x in v]}
        if kind == 'tuple':
            return {'j': 'seq', 'e': [a_tree(k, x, 'tuple.%d' % i) for i, (k, x) in enumerate(zip(('digit', 'string', 'bool'), v))]
                    + [{'j': 'atom', 'v': '?extra'}] * max(0, len(v) - 3)}
        if kind == 'struct':
            kinds = {'a': 'digit', 'b': 'string', 'c': 'cdouble'}
            return {'j': 'struct', 'm': {f: a_tree(kinds.get(f, 'string'), x, 'struct.' + f) for f, x in dict(v).items()}}
        if kind == 'arrstruct':
            kinds = {'p': 'bool', 'q': 'digit'}
            return {'j': 'seq', 'e': [{'j': 'struct', 'm': {f: a_tree(kinds.get(f, 'string'), x) for f, x in dict(s).items()}} for s in v]}
        if kind == 'arrscaled':
            return {'j': 'seq', 'e': [a_tree('scaled', x) for x in v]}
        if kind == 'structsb':
            kinds = dict(CONTAINERS[kind])
            return {'j': 'struct', 'm': {f: a_tree(kinds.get(f, 'string'), x, 'tuple.1') for f, x in dict(v).items()}}
        if kind in CONTAINERS:
            spec = CONTAINERS[kind]
            return {'j': 'seq', 'e': [a_tree(k, x, 'tuple.1') for (_, k), x in zip(spec, v)]
                    + [{'j': 'atom', 'v': '?extra'}] * max(0, len(v) - len(spec))}
        if kind == 'tupnest':
            return {'j': 'seq', 'e': [a_tree('enum', v[0], 'tupnest.0'), {'j': 'seq', 'e': [a_tree('cdouble', x) for x in v[1]]}]
                    + [{'j': 'atom', 'v': '?extra'}] * max(0, len(v) - 2)}
    except Exception as e:
        return {'j': 'atom', 'v': '?%r (%r)' % (v, e)}
    raise MachineryError('unknown kind ' + kind)


BASE = {'value': 'double', 'target': 'double', '_target': 'double'}     # parameter name -> kind of its datatype (a predefined accessible name among the custom ones)
PKINDS = KINDS + ['value', 'target']


def _make_other_class():
    """the driver class of another node: same module / accessible names, other datatypes"""
    global OTHER_NODE
    OTHER_NODE = True
    try:
        return _make_driver_class()
    finally:
        OTHER_NODE = False


def _make_driver_class(without=()):
    """a module whose driver functions record what they receive and return / raise what the script says"""
    from frappy.datatypes import IntRange
    from frappy.modules import Module, Parameter
    from frappy.params import Command

    def scripted(self, key):
        x = self.script[key]
        if callable(x):     # a factory of exceptions: a fresh one every time
            raise x()
        return x
    attrs = {'enablePoll': False}
    for name in PKINDS + BIGKINDS:
        kind = BASE.get(name, name)
        dt, dta, dtr = (_datatypes()[kind] for _ in range(3))
        attrs[name] = Parameter('parameter of kind ' + kind, dt, readonly=False, default=dt.default)

        def w(self, value, name=name):
            self.rec.append(('w', name, value))
            return scripted(self, name)

        def r(self, name=name):
            self.rec.append(('r', name))
            return scripted(self, name)

        def mkcmd(name=name, kind=kind):
            if kind == 'struct':    # struct members arrive as keywords; defaults make them optional
                def c(self, a, b=None, c=None):
                    """command with a struct argument"""
                    value = {k: v for k, v in (('a', a), ('b', b), ('c', c)) if v is not None}
                    self.rec.append(('c', name, value))
                    return scripted(self, 'c_' + name)
            elif kind == 'structsb':
                def c(self, a, b):
                    """command with a struct argument"""
                    self.rec.append(('c', name, {'a': a, 'b': b}))
                    return scripted(self, 'c_' + name)
            else:
                def c(self, *args):
                    """command with argument and result of the kind"""
                    self.rec.append(('c', name, tuple(args) if kind in ('tuple', 'tupnest', 'tupscaled', 'tupblob') else args[0]))
                    return scripted(self, 'c_' + name)
            return c
        c = mkcmd()
        attrs['write_' + name] = w
        attrs['read_' + name] = r
        if 'c_' + name not in without and name not in BIGKINDS:
            attrs['c_' + name] = Command(dta, result=dtr)(c)

    def c_noarg(self):
        """command without argument"""
        self.rec.append(('c', 'noarg', None))
        return scripted(self, 'c_noarg')
    attrs['c_noarg'] = Command(result=IntRange(-50, 50))(c_noarg)

    # custom accessibles exported as underscore + predefined name, next to the predefined ones (the client knows
    # them as '_target' / '_stop'; not used through the proxy, which addresses remote accessibles by attribute name)
    def w_utarget(self, value):
        self.rec.append(('w', '_target', value))
        return scripted(self, '_target')

    def r_utarget(self):
        self.rec.append(('r', '_target'))
        return scripted(self, '_target')

    def stop(self):
        """predefined command name"""
        self.rec.append(('c', 'stop', None))
        return scripted(self, 'c_stop')

    def ustop(self):
        """custom command exported as _stop"""
        self.rec.append(('c', '_stop', None))
        return scripted(self, 'c__stop')
    dt = _datatypes()['double']
    attrs.update(utarget=Parameter('custom parameter exported as _target', dt, readonly=False, default=dt.default, export='_target'),
                 write_utarget=w_utarget, read_utarget=r_utarget,
                 stop=Command(result=IntRange(-50, 50))(stop),
                 ustop=Command(result=IntRange(-50, 50), export='_stop')(ustop))
    return type('GenDriver', (Module,), attrs)


def _make_aux_class():
    """a second module of node 1: its updates are published by another thread while the driver module is busy
    (updates of one module are serialised by the module's own updateLock)"""
    from frappy.datatypes import IntRange
    from frappy.modules import Module, Parameter
    return type('GenAux', (Module,), {'enablePoll': False,
                                      'int': Parameter('published concurrently', IntRange(-50, 50), readonly=False, default=0)})


class _Srv:
    restart = shutdown = None


class _Splitter:
    """node-side test fixture: a large frame is handed to the real socket in two pieces (as the kernel does with a
    full buffer) and the thread publishing updates gets its turn in between.  frappy's send_reply / send_lock stay
    in charge of the mutual exclusion of frames on a connection."""
    THRESHOLD = 8192

    def __init__(self):
        self.target = None                  # peer port of the connection to treat
        self.in_gap = False
        self.gap = threading.Event()        # first piece is out
        self.intruded = threading.Event()   # another thread wrote to the same socket between the pieces
        self.gaps = self.intrusions = 0

    def arm(self, peerport):
        self.gap.clear()
        self.intruded.clear()
        self.target = peerport

    def disarm(self):
        self.target = None


class _SplitSocket:
    def __init__(self, sock, splitter):
        self._s, self._sp = sock, splitter
        self._peer = sock.getpeername()[1]

    def __getattr__(self, name):
        return getattr(self._s, name)

    def sendall(self, data):
        sp = self._sp
        if sp.target == self._peer:
            if sp.in_gap:
                sp.intrusions += 1
                sp.intruded.set()
            elif len(data) > sp.THRESHOLD:
                half = len(data) // 2
                sp.in_gap = True
                try:
                    self._s.sendall(data[:half])
                    sp.gaps += 1
                    sp.gap.set()
                    sp.intruded.wait(0.15)  # a correct node keeps the other thread waiting for the connection's lock
                    return self._s.sendall(data[half:])
                finally:
                    sp.in_gap = False
                    sp.target = None
        return self._s.sendall(data)


class Node:
    """dispatcher + secnode + TCP interface in-process (what Server._processCfg / _interfaceThread do)"""

    def __init__(self, name, module_cfg):
        from frappy.lib.multievent import MultiEvent
        from frappy.logging import RemoteLogHandler
        from frappy.protocol.dispatcher import Dispatcher
        from frappy.protocol.interface.tcp import TCPServer
        from frappy.secnode import SecNode
        root = _TLog(name)
        root.handlers = [RemoteLogHandler()]
        srv = self.srv = _Srv()
        srv.log = root
        srv.module_cfg = module_cfg
        srv.secnode = SecNode(name, root.getChild('secnode'), {'equipment_id': name}, srv)
        srv.dispatcher = Dispatcher(name, root.getChild('dispatcher'), {}, srv)
        srv.secnode.add_secnode_property('description', 'generated node ' + name)
        srv.secnode.create_modules()
        srv.secnode.get_descriptive_data('')
        self.errors = list(srv.secnode.errors)
        self.modules = srv.secnode.modules
        ev = MultiEvent(default_timeout=30)
        for m in self.modules.values():
            m.startModule(ev)
        ev.wait()
        self.iface = TCPServer('tcp', root.getChild('tcp'), {'uri': 'tcp://0'}, srv)
        # accepted sockets inherit TCP_NODELAY: avoids 40 ms of delayed ACK per request (environment only)
        self.iface.socket.setsockopt(socket.IPPROTO_TCP, socket.TCP_NODELAY, 1)
        self.port = self.iface.server_address[1]
        self.splitter = _Splitter()
        accept = self.iface.get_request

        def get_request():
            sock, addr = accept()
            return _SplitSocket(sock, self.splitter), addr
        self.iface.get_request = get_request
        self.thread = threading.Thread(target=self.iface.serve_forever, kwargs={'poll_interval': 0.05}, daemon=True)
        self.thread.start()

    def close(self):
        try:
            self.iface.shutdown()
            self.iface.server_close()
        except Exception:
            pass
        try:
            self.srv.secnode.shutdown_modules()
        except Exception:
            pass


def _client(port, activate):
    from frappy.client import SecopClient

    class Client(SecopClient):
        def __del__(self):
            pass
    Client.activate = activate
    c = Client('tcp://localhost:%d' % port, log=LoggerStub('client'))
    c.connect(10)
    return c


def _neutralise(client):
    """SecopClient.__del__ calls disconnect(): not on objects we created"""
    try:
        type(client).__del__ = lambda self: None
    except Exception:
        pass


TRANSIENT = (TimeoutError, ConnectionError, OSError)


def _attempt(fn, before=None, tries=3):
    """the verdict is about values, never about timing: a request that ran into a time-out / lost connection
    (overloaded machine) is repeated; only a request that fails every time is reported"""
    exc = None
    for k in range(tries):
        if before:
            before()
        try:
            return fn(), None, k + 1
        except Exception as e:
            exc = e
            if not isinstance(e, TRANSIENT):
                return None, e, k + 1
            _time.sleep(0.3 * (k + 1))
    return None, exc, tries


def _caught(fn):
    """the error a request ends with (the expected outcome of a request the driver refuses)"""
    from frappy.errors import SECoPError
    try:
        fn()
    except SECoPError as e:
        return e
    return None


class _Rig:
    """runs requests against the nodes, collects the records TLC judges"""

    def __init__(self, drv, clients, pxclient, records, rnd):
        self.drv, self.clients, self.pxclient, self.records, self.rnd = drv, clients, pxclient, records, rnd
        self.slow = {}      # path -> requests that ran into a time-out every time (the client may be unusable: 10 s each)

    @staticmethod
    def item(base):
        return lambda item: (a_tree(base, item.value) if item.readerror is None
                             else {'j': 'atom', 'v': '?%r' % (item.readerror,)})

    @staticmethod
    def error(e):
        if e is None:
            return {'cls': '?no error', 'text': ''}
        return {'cls': _eq_probe(e) or type(e).__name__, 'text': e.args[0] if len(e.args) == 1 else repr(e.args)}

    @classmethod
    def readerror(cls, item):
        return cls.error(item.readerror)

    def request(self, rec, fn, conv, received=None, tries=3):
        """one request (repeated on time-outs); rec['cache'] = what the caller / the client cache ends up with"""
        path = rec['path']
        if self.slow.get(path):
            return None
        rec['ev'] = 'e2e'
        iserr = rec['op'] in ('readerr', 'writeerr')
        res, e, rec['attempts'] = _attempt(fn, before=self.drv.rec.clear, tries=tries)
        txt = None
        if e is None:
            try:
                rec['cache'] = conv(res)
            except Exception as x:      # e.g. nothing cached at all: an outcome of the implementation, not of the harness
                txt = '?unusable result %r (%r)' % (res, x)
        else:
            txt = '?raised %r' % (e,)
            if isinstance(e, TRANSIENT):
                self.slow[path] = 1
        if txt:
            rec['cache'] = {'cls': txt, 'text': ''} if iserr else {'j': 'atom', 'v': txt}
        if received:
            tag, name, base = received
            got = [r for r in self.drv.rec if r[0] == tag and r[1] == name]
            rec['nrecv'] = len(got)
            rec['received'] = ({'j': 'atom', 'v': '?nothing'} if not got else {'j': 'atom', 'v': 'none'} if base is None
                               else a_tree(base, got[-1][2]))
        self.records.append(rec)
        return res if e is None else None

    def fence(self, path, client):
        """everything the node sent before now has been processed by the client when its ping is answered"""
        if self.slow.get(path):
            return False
        _, e, _ = _attempt(lambda: client.request('ping', 'fence'))
        if e is not None:
            self.slow[path] = 1
        return e is None

    def observe(self, rec, client, mod, base):
        rec['ev'] = 'e2e'
        item = client.cache.get((mod, rec['kind']))
        if base is None:      # an error is expected
            rec['cache'] = self.readerror(item) if item is not None else {'cls': '?not cached', 'text': ''}
        else:
            rec['cache'] = self.item(base)(item) if item is not None else {'j': 'atom', 'v': '?not cached'}
        rec['attempts'] = 1
        self.records.append(rec)


def _e2e_batch(arg):
    """one rig: node 1 (driver module), node 2 (proxy module in front of it), three clients"""
    seed, n_per_kind, budget = arg[:3]
    big_rounds = arg[3] if len(arg) > 3 else 1
    boot()
    import frappy.client
    import frappy.io
    import frappy.proxy
    from frappy.errors import BadValueError, SECoPError
    rnd = random.Random(seed)
    frappy.client.SecopClient.__del__ = lambda self: None   # also the proxy's internal client
    frappy.io.HasIO.ioDict.clear()
    records = []
    notes = {}
    Drv = _make_driver_class()
    n1 = Node('n1', {'drv': {'cls': Drv, 'description': 'generated driver'},
                     'aux': {'cls': _make_aux_class(), 'description': 'publishes updates concurrently'}})
    aux = n1.modules['aux']
    if n1.errors:
        raise MachineryError('generated node does not start: %r' % (n1.errors,))
    drv = n1.modules['drv']
    drv.rec = []
    drv.script = {}
    uri = 'tcp://localhost:%d' % n1.port
    # the documented way of configuring a proxy module
    n2 = Node('n2', {'px': {'cls': 'frappy.proxy.Proxy', 'description': 'proxy', 'remote_class': Drv, 'module': 'drv', 'uri': uri}})
    notes['proxy_factory_errors'] = n2.errors
    if 'px' not in n2.modules:
        n2.close()
        frappy.io.HasIO.ioDict.clear()
        try:
            pcls = frappy.proxy.proxy_class(Drv)
        except Exception as e:
            # a remote class with a struct-argument command cannot be proxied: go on without that command
            notes['proxy_class_error'] = repr(e)
            pcls = frappy.proxy.proxy_class(_make_driver_class(without=('c_struct',)))
        n2 = Node('n2', {'px': {'cls': pcls, 'description': 'proxy', 'module': 'drv', 'uri': uri}})
        if n2.errors or 'px' not in n2.modules:
            raise MachineryError('proxy node does not start: %r' % (n2.errors,))
    nocmd = set() if 'c_struct' in n2.modules['px'].commands else {'struct'}
    clients = {}
    try:
        clients = {'direct': (_client(n1.port, False), 'drv'), 'direct_active': (_client(n1.port, True), 'drv'),
                   'proxy': (_client(n2.port, seed % 2 == 0), 'px')}
        deadline = _time.time() + 20
        pxclient = n2.modules['px_io'].secnode
        while not pxclient.online or pxclient.state != 'connected':
            if _time.time() > deadline:
                raise MachineryError('proxy did not connect to node 1: state %r' % pxclient.state)
            _time.sleep(0.01)
        # ANOTHER client object in this process talks to another node whose module has the same name and equally named
        # accessibles with other datatypes; it gets its description after the clients under test (and once more
        # half way): clients are isolated, nothing below may notice
        n3 = Node('n3', {'drv': {'cls': _make_other_class(), 'description': 'equally named module of another node'}})
        if n3.errors:
            raise MachineryError('the other node does not start: %r' % (n3.errors,))
        other = _client(n3.port, True)
        rig = _Rig(drv, clients, pxclient, records, rnd)
        active2 = clients['proxy'][0].activate
        t_end = _time.time() + budget

        def fresh(kind, partial=False, textsafe=False):
            global TEXTSAFE
            TEXTSAFE = textsafe
            try:
                return _gen_value(BASE.get(kind, kind), rnd, partial=partial)
            finally:
                TEXTSAFE = False

        # every class of the SECoP error table (rebuilt on the client by its name) and one rebuilt by frappy's
        # "Class: text" convention
        errclasses = sorted(set(SECoPError.name2class.values()) | {BadValueError}, key=lambda c: c.__name__)

        def raises(kind, cls, text, **extra):
            """read error (direct, seen by the activated client, handed on by the proxy) and write error"""
            raised = {'cls': cls.__name__, 'text': text}
            drv.script[kind] = lambda: cls(text)
            c, mod = clients['direct']
            rig.request(dict({'op': 'readerr', 'kind': kind, 'path': 'direct', 'raised': raised}, **extra),
                        lambda: c.readParameter(mod, kind), rig.readerror)
            c, mod = clients['direct_active']
            if rig.fence('direct_active', c):     # the error update reached the activated client
                rig.observe(dict({'op': 'readerr', 'kind': kind, 'path': 'direct_active', 'raised': raised}, **extra), c, mod, None)
            c, mod = clients['proxy']
            if rig.fence('proxy', pxclient):
                if active2 and rig.fence('proxy', c):     # ... and, through the proxy module, the client behind it
                    rig.observe(dict({'op': 'readerr', 'kind': kind, 'path': 'proxy', 'raised': raised, 'how': 'update'}, **extra),
                                c, mod, None)
                rig.request(dict({'op': 'readerr', 'kind': kind, 'path': 'proxy', 'raised': raised}, **extra),
                            lambda: c.readParameter(mod, kind), rig.readerror)
            for path in ('direct', 'proxy'):
                c, mod = clients[path]
                sent_c = fresh(kind)[1]
                rig.request(dict({'op': 'writeerr', 'kind': kind, 'path': path, 'raised': raised}, **extra),
                            lambda: _caught(lambda: c.setParameter(mod, kind, sent_c)), rig.error)
            drv.script[kind] = fresh(kind)[1]

        for kind in PKINDS:
            base = BASE.get(kind, kind)
            if kind == PKINDS[len(PKINDS) // 2]:
                other._init_descriptive_data(dict(other.descriptive_data))   # e.g. after a reconnect
            for i in range(n_per_kind):
                if _time.time() > t_end:
                    notes['aborted'] = 'time budget of %d s used up at kind %s' % (budget, kind)
                    break
                # -- write (setParameter) on every path
                for path, (c, mod) in clients.items():
                    if path == 'direct_active' and i % 4:
                        continue
                    sent_a, sent_c = fresh(kind, True)
                    ret_a, drv.script[kind] = fresh(kind)
                    rig.request({'op': 'write', 'kind': kind, 'path': path, 'sent': sent_a, 'returned': ret_a,
                                 'concrete': repr(sent_c)},
                                lambda: c.setParameter(mod, kind, sent_c), rig.item(base), received=('w', kind, base))
                # -- read: readParameter / getParameter
                c, mod = clients['direct']
                ret_a, drv.script[kind] = fresh(kind, textsafe=True)
                item = rig.request({'op': 'read', 'kind': kind, 'path': 'direct', 'returned': ret_a},
                                   (lambda: c.getParameter(mod, kind)) if i % 2 else (lambda: c.readParameter(mod, kind)),
                                   rig.item(base))
                # -- write of the text form of a cache item (setParameterFromString)
                if item is not None and item.readerror is None:
                    text = str(item)
                    ret2_a, drv.script[kind] = fresh(kind)
                    rig.request({'op': 'writestr', 'kind': kind, 'path': 'direct', 'sent': ret_a, 'returned': ret2_a,
                                 'concrete': repr(text)},
                                lambda: c.setParameterFromString(mod, kind, text), rig.item(base), received=('w', kind, base))
                # -- command with argument and result (execCommand), alternating direct / through the proxy
                path = 'proxy' if i % 2 and kind not in nocmd else 'direct'
                c, mod = clients[path]
                sent_a, sent_c = fresh(kind, True)
                ret_a, drv.script['c_' + kind] = fresh(kind)
                rig.request({'op': 'do', 'kind': kind, 'path': path, 'sent': sent_a, 'returned': ret_a, 'concrete': repr(sent_c)},
                            lambda: c.execCommand(mod, 'c_' + kind, sent_c), lambda res: a_tree(base, res[0]),
                            received=('c', kind, base))
                # -- spontaneous update of the driver: activated clients and the proxy follow; a read through the
                #    proxy is served from the proxy's cache.  A ping is the fence: lines are processed in order.
                if i % 2 == 0:
                    val_a, val_c = fresh(kind)
                    drv.script[kind] = val_c
                    setattr(drv, kind, val_c)
                    c, mod = clients['direct_active']
                    if rig.fence('direct_active', c):
                        rig.observe({'op': 'announce', 'kind': kind, 'path': 'direct_active', 'returned': val_a}, c, mod, base)
                    c, mod = clients['proxy']
                    if rig.fence('proxy', pxclient) and rig.fence('proxy', c):
                        if active2:
                            rig.observe({'op': 'announce', 'kind': kind, 'path': 'proxy', 'returned': val_a}, c, mod, base)
                        rig.request({'op': 'read', 'kind': kind, 'path': 'proxy', 'returned': val_a},
                                    lambda: c.readParameter(mod, kind), rig.item(base))
            # -- the driver raises: one class of the error table per kind here, every class below
            raises(kind, errclasses[(PKINDS.index(kind) + seed) % len(errclasses)],
                   rnd.choice(['sensor %s failed' % kind, 'no answer: timeout']))
        for cls in errclasses:
            texts = ['sensor failed', 'no answer: timeout (code 5)', 'failed with %s: inner reason' % cls.__name__,
                     'ValueError: invalid literal']
            # the name of another error class in the middle of the text: every batch; the others in rotation
            for text in ('device said RangeError: 5 too big', texts[seed % 4]):
                raises('int', cls, text, errclass=cls.__name__)
        # -- command without argument
        for path in ('direct', 'proxy'):
            c, mod = clients[path]
            none = {'j': 'atom', 'v': 'none'}
            ret_a, drv.script['c_noarg'] = _gen_value('int', rnd)
            rig.request({'op': 'do', 'kind': 'noarg', 'path': path, 'sent': none, 'returned': ret_a},
                        lambda: c.execCommand(mod, 'c_noarg'), lambda res: a_tree('int', res[0]), received=('c', 'noarg', None))
        # -- custom accessibles named underscore + predefined name next to the predefined ones: each is reached by its
        #    own identifier (writes, reads, commands), directly
        none = {'j': 'atom', 'v': 'none'}
        for path in ('direct', 'direct_active'):
            c, mod = clients[path]
            for name in ('_target', 'target', '_target'):
                sent_a, sent_c = fresh(name, True)
                ret_a, drv.script[name] = fresh(name)
                rig.request({'op': 'write', 'kind': name, 'path': path, 'sent': sent_a, 'returned': ret_a, 'concrete': repr(sent_c)},
                            lambda: c.setParameter(mod, name, sent_c), rig.item('double'), received=('w', name, 'double'))
            ret_a, drv.script['_target'] = fresh('_target')
            rig.request({'op': 'read', 'kind': '_target', 'path': path, 'returned': ret_a},
                        lambda: c.readParameter(mod, '_target'), rig.item('double'))
            for name in ('stop', '_stop'):
                ret_a, drv.script['c_' + name] = _gen_value('int', rnd)
                rig.request({'op': 'do', 'kind': name, 'path': path, 'sent': none, 'returned': ret_a},
                            lambda: c.execCommand(mod, name), lambda res: a_tree('int', res[0]), received=('c', name, None))
        # -- large values (the frame leaves the node in pieces) while a thread of the node publishes updates of
        #    another parameter on the same activated connection: directly, and on the proxy's connection to node 1
        watch = {'direct_active': clients['direct_active'][0], 'proxy': pxclient}
        errors, seen = [], {}
        for name, tc in list(watch.items()) + [('client2', clients['proxy'][0])]:
            tc.register_callback(None, handleError=lambda exc, name=name: errors.append(('%s: %r' % (name, exc))[:300]))
        for name, tc in watch.items():
            seen[name] = []
            tc.register_callback(('aux', 'int'), updateEvent=lambda m, p, v, t, e, name=name:
                                 seen[name].append(a_tree('int', v)['v'] if e is None else '?%r' % (e,)))
        for k in range(big_rounds):
            for kind in BIGKINDS:
                for path in ('direct_active', 'proxy'):
                    for op in ('bigwrite', 'bigread'):
                        if op == 'bigread' and path == 'proxy':
                            continue    # a proxy serves reads from its cache: nothing large on the wire to node 1
                        c, mod = clients[path]
                        tc = watch[path]
                        if not rig.fence(path, tc):
                            continue
                        del errors[:]
                        del seen[path][:]
                        vals = [_gen_value('int', rnd) for _ in range(2)]
                        sp = n1.splitter

                        def announcer():
                            sp.gap.wait(3)
                            for _, v in vals:
                                setattr(aux, 'int', v)
                        th = threading.Thread(target=announcer, daemon=True)
                        sp.arm(tc.io.connection.getsockname()[1])
                        gaps = sp.gaps
                        th.start()
                        rec = {'op': op, 'kind': kind, 'path': path}
                        if op == 'bigwrite':
                            rec['sent'], sent_c = fresh(kind)
                            rec['returned'], drv.script[kind] = fresh(kind)
                            rig.request(rec, lambda: c.setParameter(mod, kind, sent_c), rig.item(kind), received=('w', kind, kind), tries=1)
                        else:
                            rec['returned'], drv.script[kind] = fresh(kind)
                            rig.request(rec, lambda: c.readParameter(mod, kind), rig.item(kind), tries=1)
                        th.join(8)
                        sp.disarm()
                        fenced = rig.fence(path, tc)
                        item = tc.cache.get(('aux', 'int'))
                        rec.update(nerrors=len(errors), errors=errors[:3], conc_sent=[a['v'] for a, _ in vals],
                                   conc_seen=list(seen[path]), conc_last=vals[-1][0]['v'],
                                   conc_cache=rig.item('int')(item)['v'] if item is not None else '?not cached',
                                   split=sp.gaps > gaps, fenced=fenced)
        notes['split_frames'] = n1.splitter.gaps
        notes['intrusions'] = n1.splitter.intrusions
    finally:
        for c, _ in clients.values():
            try:
                c.disconnect()
            except Exception:
                pass
        try:
            n2.modules['px_io'].secnode.disconnect()
        except Exception:
            pass
        try:
            other.disconnect()
            n3.close()
        except Exception:
            pass
        n2.close()
        n1.close()
    return records, notes


# ------------------------------------------------------------------ check

def _printed(out, tag='BEH'):
    """PrintT(<<tag, ToJson(x)>>) lines -> the JSON texts (TLA+ string escapes are a subset of JSON's)"""
    pat = '<<"%s", "' % tag
    return [line[len(pat) - 1:-2] for line in out.splitlines() if line.startswith(pat) and line.endswith('">>')]


def _parse(raw):
    return json.loads(json.loads(raw))


def _acts(beh):
    return [dict({k: v for k, v in s.items() if k != 'exp'}, **({'now': s['exp']['n']} if s.get('act') == 'tick' else {}))
            for s in beh]


def _replay_raw(raw):
    """worker: parse + replay one behaviour -> (case key, non-trivial, mismatch + what is needed to report it)"""
    beh = _parse(raw)
    bad = _replay(beh)
    nontriv = any(s.get('act') == 'recv' and (s['exp']['l']['calls'] or s['exp']['l']['released']) for s in beh)
    key = hashlib.sha1(json.dumps(_acts(beh), sort_keys=True).encode()).hexdigest()
    if bad:
        st = beh[1 + bad['step']] if 0 <= bad['step'] < len(beh) - 1 else {'act': bad['action'].get('act')}
        bad['class'] = _msg_class(st)
        bad['behaviour'] = _acts(beh)
    return key, nontriv, bad


def _behaviours(chk, quick, pool):
    """start the generation runs (one JVM each, side by side); returns a function that collects them"""
    # wide alphabet to depth 2, callback-focused alphabet (one parameter, all levels / behaviours) one level deeper
    # ... and one parameter x every error class name of the SECoP table in error_update / error_read / error_change
    # ... and modules with custom accessibles named underscore + predefined name, with / without the plain one
    cfgs = (('Gen_ClientCache_quick.cfg', 'Gen_ClientCache_cb_quick.cfg', 'Gen_ClientCache_err.cfg', 'Gen_ClientCache_names.cfg',
             'Gen_ClientCache_iso.cfg')
            if quick else
            ('Gen_ClientCache_thorough.cfg', 'Gen_ClientCache_cb_thorough.cfg', 'Gen_ClientCache_err.cfg', 'Gen_ClientCache_names.cfg',
             'Gen_ClientCache_iso.cfg'))
    gens = [(cfg, pool.submit(run_tlc, 'Gen_ClientCache', cfg, workers=1, timeout=1200, heap='4g' if quick else '6g')) for cfg in cfgs]
    # deeper behaviours sampled by TLC's simulator from the same generation spec
    n, depth, scfg = (16, 10, 'Gen_ClientCache_sim_quick.cfg') if quick else (400, 14, 'Gen_ClientCache_sim_thorough.cfg')
    simrun = pool.submit(run_tlc, 'Gen_ClientCache', scfg, workers=1, timeout=900, simulate='num=%d' % n,
                         depth=depth + 1, seed=chk.seed + 1, deadlock=False)

    def collect():
        behs = []
        for cfg, fut in gens:
            r = fut.result()
            if r.violated or not r.ok:
                raise MachineryError('behaviour emission Gen_ClientCache/%s failed: %s\n%s' % (cfg, r.violated or r.error, r.out[-1500:]))
            chk.add_tlc(r)
            behs += _printed(r.out)
        rs = simrun.result()
        if rs.violated or rs.rc != 0:
            raise MachineryError('simulation of Gen_ClientCache failed: %s\n%s' % (rs.violated or rs.error, rs.out[-1500:]))
        sim = _printed(rs.out)
        chk.notes['generated_behaviours'] = len(behs)
        chk.notes['simulated_behaviours'] = len(sim)
        if not behs or not sim:
            raise MachineryError('no behaviours emitted')
        return behs, sim
    return collect


def run(chk):
    quick = chk.tier == 'quick'
    chk.rule = ('message level: all action sequences of Gen_ClientCache to the depth bound (5 message classes x 7 '
                'identifier classes x data-part classes x registrations on 3 levels / 2 kinds / 3 behaviours x waiting '
                'requests x clock x re-description) plus simulated deeper behaviours, replayed through the real receive '
                'loop with state comparison after every step; seeded random histories over random descriptions validated '
                'by Trace_ClientCache; end to end: (datatype kind, valid value) cases through node and proxy node judged '
                'by TLC. A case is distinct by its action sequence / (kind, value, path); non-trivial = at least one '
                'handled message reaching a registered callback or a released caller, resp. every end-to-end write')
    t0 = _time.time()
    stage = chk.notes.setdefault('stage_s', {})

    def lap(name):
        nonlocal t0
        stage[name] = round(_time.time() - t0, 1)
        t0 = _time.time()
    from concurrent.futures import ThreadPoolExecutor
    with ThreadPoolExecutor(8) as pool:     # the JVMs run side by side (each TLC run has one worker)
        list(pool.map(sany, ('ClientCache', 'Gen_ClientCache', 'Trace_ClientCache')))
        lap('sany')
        # 1 design check
        # one worker: TLCGet("level") in the depth bound is only exact (and the run deterministic) without parallel workers
        mc = pool.submit(model_check, 'ClientCache', 'MC_ClientCache_quick.cfg' if quick else 'MC_ClientCache_thorough.cfg',
                         workers=1, timeout=1100, heap='4g' if quick else '6g')
        # 2 spec -> code
        collect = _behaviours(chk, quick, pool)
        behs, sim = collect()
        lap('generate')
        chk.add_tlc(mc.result())
        lap('model_check')
    allb = behs + sim
    res = pool_map(_replay_raw, allb)
    lap('replay')
    for key, nontriv, bad in res:
        chk.impl_traces += 1
        chk.case(key, nontriv)
        if bad:
            sig = {'module': 'ClientCache', 'step': bad.pop('class'),
                   'diff': sorted(k for k in set(bad['expected']) | set(bad['observed'])
                                  if bad['expected'].get(k) != bad['observed'].get(k))}
            chk.violation(sig, bad)
    chk.sample({'behaviour': _acts(_parse(behs[len(behs) // 2]))})

    # 3 code -> spec, message level + end to end, one TLC run
    n = 300 if quick else 4000
    traces = pool_map(_random_trace, [(chk.seed * 100003 + i, 40 if quick else 60) for i in range(n)])
    traces += [_sweep_trace(chk.seed + k) for k in range(1 if quick else 4)]
    lap('random_traces')
    nbatch, per_kind = (4, 6) if quick else (16, 50)
    e2e = pool_map(_e2e_batch, [(chk.seed * 7919 + i, per_kind, 40 if quick else 500, 1 if quick else 3) for i in range(nbatch)])
    aborted = [n['aborted'] for _, n in e2e if n.get('aborted')]
    lap('end_to_end')
    records = [r for recs, _ in e2e for r in recs]
    e2e_traces = [[{k: v for k, v in r.items() if k not in ('concrete', 'attempts', 'how', 'errors', 'split', 'fenced', 'errclass')}] for r in records]   # one record = one trace
    n0 = e2e[0][1] if e2e else {}
    if n0.get('proxy_class_error'):
        chk.violation({'module': 'E2E', 'site': 'proxy_class', 'clause': 'a command with a struct argument can be proxied'},
                      {'error': n0['proxy_class_error'],
                       'reproduce': "frappy.proxy.proxy_class(cls) for a Module class with @Command(StructOf(a=IntRange()), ...) def cmd(self, a)"})
    elif n0.get('proxy_factory_errors'):
        chk.violation({'module': 'E2E', 'site': 'proxy factory', 'clause': 'proxy node can be configured'},
                      {'errors': n0['proxy_factory_errors'],
                       'config': "Mod('px', 'frappy.proxy.Proxy', 'proxy', remote_class=<class>, module='drv', uri='tcp://...')"})
    verdicts, st, tr = validate_traces('Trace_ClientCache', traces + e2e_traces, 'Trace_ClientCache.cfg', timeout=1100,
                                      chunk=4000 if quick else 1200)   # one JVM in quick; bounded JSON per JVM (heap) in thorough
    chk.states += st
    chk.transitions += tr
    lap('trace_validation')
    kinds_seen = set()
    for i, v in verdicts.items():
        chk.impl_traces += 1
        if i < len(traces):
            trc = traces[i]
            chk.case('rt%d' % i, True)
            if v is not None:
                l = v[0]
                ev = trc[l - 1] if 0 < l <= len(trc) else None
                chk.violation({'module': 'ClientCache', 'step': _msg_class(ev) if ev else None, 'clause': v[1]},
                              {'trace': trc[:l], 'failed_at': l, 'event': ev, 'seed': chk.seed * 100003 + i})
        else:
            r = records[i - len(traces)]
            kinds_seen.add((r['kind'], r['path'], r['op']))
            chk.case(json.dumps([r['kind'], r['path'], r['op'], r.get('sent'), r.get('returned')], sort_keys=True),
                     r['op'] == 'write')
            if v is not None:
                chk.violation({'module': 'E2E', 'kind': r['kind'], 'op': r['op'], 'clause': v[1], 'shape': _diff_shape(r),
                               'via': 'proxy' if r['path'] == 'proxy' else 'direct', **({'errclass': r['errclass']} if 'errclass' in r else {})},
                              {'record': r, 'path': r['path']})
    required = [('write', 'direct'), ('write', 'direct_active'), ('write', 'proxy'), ('read', 'direct'), ('read', 'proxy'),
                ('writestr', 'direct'), ('do', 'direct'), ('do', 'proxy'), ('announce', 'direct_active'),
                ('readerr', 'direct'), ('readerr', 'proxy'), ('writeerr', 'direct'), ('writeerr', 'proxy')]
    missing = [(k, p, op) for k in PKINDS for op, p in required if (k, p, op) not in kinds_seen
               and not (n0.get('proxy_class_error') and (k, p, op) == ('struct', 'proxy', 'do'))]
    chk.notes['split_frames'] = sum(n.get('split_frames', 0) for _, n in e2e)
    chk.notes['frames_intruded'] = sum(n.get('intrusions', 0) for _, n in e2e)
    if not chk.notes['split_frames'] and not chk.violations:
        raise MachineryError('no large frame left a node in pieces: the concurrent-publishing exchanges are vacuous')
    if (missing or aborted) and not chk.violations:
        raise MachineryError('end-to-end cases missing (vacuous): %r %r' % (missing[:5], aborted[:1]))
    chk.sample({'trace_prefix': traces[0][:3]})
    chk.sample({'e2e_record': e2e[0][0][0]})
    chk.exhaustive = False
    chk.assumptions.append('end-to-end part runs in wall-clock time over loopback TCP; its verdict is value equality only')


def _truncated(rcv, snt):
    """received equals sent except that some array is cut to a proper prefix (classification for the signature)"""
    if rcv.get('j') != snt.get('j'):
        return None
    if snt['j'] == 'atom':
        return False if rcv['v'] == snt['v'] else None
    if snt['j'] == 'struct':
        res = False
        for f, x in snt['m'].items():
            if f not in rcv['m']:
                return None
            t = _truncated(rcv['m'][f], x)
            if t is None:
                return None
            res = res or t
        return res
    if len(rcv['e']) > len(snt['e']):
        return None
    res = len(rcv['e']) < len(snt['e'])
    for a, b in zip(rcv['e'], snt['e']):
        t = _truncated(a, b)
        if t is None:
            return None
        res = res or t
    return res


def _diff_shape(r):
    if r['op'] == 'write' and r.get('nrecv') and _truncated(r['received'], r['sent']):
        return 'array truncated to a prefix'
    c = r.get('cache') or {}
    if str(c.get('v', c.get('text', ''))).startswith(('?raised Timeout', '?raised Connection', 'Timeout', 'Connection')):
        return 'no reply in %d attempts' % r.get('attempts', 1)
    return 'other'


def replay(chk, rep):
    d = rep['detail']
    if 'behaviour' in d:
        beh = d['behaviour']
        w = MsgWorld(beh[0]['desc'], beh[0].get('variant', 'a'))
        obs = w.run(beh[1:])
        for s, o in zip(beh[1:], obs):
            print(s, '->', json.dumps(o, default=str))
        print('expected at step', d['step'], ':', json.dumps(d['expected']))
        print('observed            :', json.dumps(d['observed']))
    elif 'trace' in d:
        w = MsgWorld(d['trace'][0]['desc'], d['trace'][0].get('variant', 'a'))
        steps = [{k: v for k, v in e.items() if k in ('ev', 'msg', 'cb', 'rk', 'now', 'desc', 'variant')} for e in d['trace'][1:]]
        prev = False
        for st, e in zip(steps, d['trace'][1:]):     # same grouping of registrations as in the recorded run
            if st['ev'] == 'register':
                st['single'] = not (e.get('merged') or prev)
                prev = bool(e.get('merged'))
        for s, o in zip(steps, w.run(steps)):
            print(s, '->', json.dumps(o, default=str))
        print('rejected at event', d['failed_at'])
    else:
        print(json.dumps(d, indent=1))
    return 0
