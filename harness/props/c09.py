"""C09 - module classes, instances and configurations are isolated from each other.

spec/ClassModel.tla (frame condition + functional dependence of the description on the key
= class chain, configuration, own mutations; the merge result itself is NOT prescribed).
  spec -> code : every program Gen_ClassModel enumerates (hierarchies, override kinds, instances,
                 configurations, mutations, all operation orders) is executed with real classes
                 (type(name, bases, body)) and real Module instances; after EVERY operation all live
                 classes and instances are re-described and the description interned.
  code -> spec : the recorded description maps (TLC programs, grouped so that permutations of one
                 program share a trace, and seeded random bigger programs run in two orders) are
                 judged by TLC with Trace_ClassModel: Frame, Functional, OrderIndependent.
"""
import hashlib
import json
import os
import random

from ..core import emit_behaviours, model_check, pool_map, sany, validate_traces
from ..env import LoggerStub, ServerStub, boot

META = {
    'text': 'TLC model-checks the frame/functional-dependence design (ClassModel.tla: Frame, KeyFrame, Functional, '
            'Lawful, OrderIndependent) and enumerates programs of class definitions (single, diamond, plain mixin; '
            'overrides by Parameter(props), new datatype, inherit=False, bare value, None, plain method, Command, '
            'bare module property), instantiations with configurations and run-time mutations in all operation '
            'orders; each program is executed on real frappy classes/instances, every live class and instance is '
            're-described after every operation (for_export, property values, accessible order, exported module '
            'properties, verdicts of validate on boundary probes) and TLC (Trace_ClassModel) judges the recorded '
            'description maps. Bounded (<= 4 classes, <= 3 instances, <= 2 mutations exhaustively; random programs '
            'up to 6 classes), exhaustive inside the bound.',
    'note': 'Trusted: TLC; the describe/concretise tables of harness/props/c09.py. The description is what the '
            'tables observe (class name / implementation property normalised away); behaviour of read/write '
            'methods beyond datatype validation is not part of the description. Plain mixins have no description '
            'of their own (they are observed through the module classes built on them).',
    'tech': 'TLA+ spec (ClassModel.tla) + TLC model checking; TLC-generated programs replayed on real classes; '
            'TLC trace validation of recorded description maps (frame condition, functional dependence)',
    'ref': 'DESIGN.md section 5 C09',
}

PROBES = (-1e9, -9, -8, -6, -5, -4, -3, -1, 0, 1, 3, 4, 5, 6, 7, 8, 9, 10, 11, 20, 21, 30, 31, 50, 51, 100, 101, 1e9, 2.5,
          'x', 'abcde', 'abcdefg')

# ------------------------------------------------------------------ gamma: abstract -> real

def _cmd_c(self, a):
    """cmd c"""
    return a


def _cmd_c2(self, a):
    """c overridden"""
    return a


def _cmd_struct(self, a, b=0):
    """command with a struct argument (b optional)"""
    return a + b


def _plain_c(self, a):
    """plain method"""
    return a


def _body_items(body):
    """class namespace entries for an abstract body (fresh objects on every call)"""
    from frappy.core import ArrayOf, Command, FloatRange, IntRange, Parameter, StringType
    ns = {}
    p = body.get('p', '-')
    tab = {
        'new': lambda: Parameter('param p', FloatRange(0, 100, unit='K'), default=1, readonly=False),
        'newint': lambda: Parameter('param p int', IntRange(0, 7), default=1, readonly=False, group='g2'),
        # arrays with DIFFERENT member types, datatype properties of the member given on the parameter
        'arrf': lambda: Parameter('float array', ArrayOf(FloatRange(), 0, 4), unit='K', min=0, max=300, default=[],
                                  readonly=False),
        'arri': lambda: Parameter('int array', ArrayOf(IntRange(0, 100), 0, 4), max=50, default=[], readonly=False),
        'arrs': lambda: Parameter('string array', ArrayOf(StringType(maxchars=6), 0, 4), default=[], readonly=False),
        'props': lambda: Parameter(max=50),
        'props2': lambda: Parameter(min=4, unit='V'),
        'ppty': lambda: Parameter('other description', group='gC'),
        'empty': lambda: Parameter(),          # "override without change"
        'dt': lambda: Parameter(datatype=IntRange(0, 10)),
        'noinh': lambda: Parameter('p fresh', FloatRange(-5, 5), inherit=False),
        'bare': lambda: 7,
        'bare3': lambda: 3,
        'none': lambda: None,
    }
    if p != '-':
        ns['p'] = tab[p]()
    q = body.get('q', '-')          # a second custom parameter (random driver only)
    qtab = {
        'new': lambda: Parameter('param q', StringType(maxchars=8), default='a', readonly=False),
        'ppty': lambda: Parameter(visibility=2),
        'props': lambda: Parameter(maxchars=4),
        'bare': lambda: 'zz',
        'none': lambda: None,
    }
    if q != '-':
        ns['q'] = qtab[q]()
    v = body.get('v', '-')          # the predefined parameter 'value' (main unit)
    vtab = {
        'unit': lambda: Parameter(unit='mm'),
        'lim': lambda: Parameter(min=-8, max=8),
        'dt': lambda: Parameter(datatype=FloatRange(-20, 20, unit='A')),
    }
    if v != '-':
        ns['value'] = vtab[v]()
    c = body.get('c', '-')
    ctab = {
        'cmd': lambda: Command(IntRange(0, 5), result=IntRange(0, 5))(_cmd_c),
        'cprops': lambda: Command(visibility=2)(_cmd_c2),
        'cgroup': lambda: Command(group='cg')(_cmd_c2),
        'cnoinh': lambda: Command(IntRange(0, 3), inherit=False)(_cmd_c2),
        'method': lambda: _plain_c,
        'none': lambda: None,
    }
    if c != '-':
        ns['c'] = ctab[c]()
    w = body.get('w', '-')          # overrides of parameters with composite datatypes (defined in every root)
    wtab = {
        'arrmax': lambda: {'arr': Parameter(max=5)},            # ArrayOf forwards it to its member
        'scmax': lambda: {'sc': Parameter(max=4)},
        'txt': lambda: {'txt': Parameter('another text')},
        'enum': lambda: {'en': 1},
    }
    if w != '-':
        ns.update(wtab[w]())
    m = body.get('m', '-')       # MODULE properties overridden by a bare class attribute or by a new Property(...)
    from frappy.core import Property
    mtab = {
        'bare': lambda: {'visibility': 'expert'},
        'bare2': lambda: {'visibility': 'advanced'},
        'group': lambda: {'group': 'modgroup'},
        'group2': lambda: {'group': 'othergroup'},
        'slow': lambda: {'slowinterval': 30},
        'slow2': lambda: {'slowinterval': 60},
        'cust': lambda: {'cust': 3},
        'cust2': lambda: {'cust': 5},
        'prop': lambda: {'group': Property('optional group the module belongs to', StringType(), default='',
                                           extname='group', value='propgroup')},
    }
    if m != '-':
        ns.update(mtab[m]())
    return ns


def _composites():
    """parameters whose datatype keeps its mutable state in MEMBER datatypes (fixed part of every root class)"""
    from frappy.core import ArrayOf, Command, EnumType, FloatRange, IntRange, Parameter, ScaledInteger, StructOf, \
        TupleOf
    from frappy.datatypes import LimitsType, TextType
    from frappy.params import Limit
    from frappy.core import Property
    return {
        'cust': Property('a custom module property', IntRange(0, 9), default=0, extname='_cust'),
        'txt': Parameter('a text', TextType(), default=''),
        'sc': Parameter('scaled', ScaledInteger(0.5, 0, 10, unit='$'), default=0, readonly=False),
        'en': Parameter('an enum', EnumType('mode', off=0, on=1), default=0, readonly=False),
        'p_limits': Limit(),
        # limits of a parameter whose unit contains '$' (Writable.target): wired to the INSTANCE's datatype of target
        'target_max': Limit(),
        'target_limits': Limit(),
        'lim': Parameter('limits', LimitsType(FloatRange(unit='$')), default=(0, 0), readonly=False),
        'tup': Parameter('a tuple', TupleOf(FloatRange(unit='$'), IntRange(0, 9)), default=(0, 0), readonly=False),
        'arr': Parameter('an array', ArrayOf(FloatRange(unit='$'), 0, 3), default=[], readonly=False),
        'sct': Parameter('a struct', StructOf(x=FloatRange(unit='$')), default={'x': 0}, readonly=False),
        # caller supplied mutable constructor arguments: the optional list of a struct (parameter and command argument)
        'sco': Parameter('a struct with optional members', StructOf(optional=['y'], x=FloatRange(), y=IntRange(0, 9)),
                         default={'x': 0, 'y': 0}, readonly=False),
        'cs': Command(StructOf(a=IntRange(0, 5), b=IntRange(0, 5)), result=IntRange())(_cmd_struct),
    }


CFGS = {
    'pmaxK': {'p': {'max': 30, 'value': 4}, 'value': {'unit': 'K'}},
    'pvalmm': {'p': {'value': 5}, 'value': {'unit': 'mm'}},
    'arrmax': {'arr': {'max': 7}, 'value': {'unit': 'K'}},
    'pmax40': {'p': {'max': 40}},                 # member property of an array through the configuration
    'pminval': {'p': {'min': 1, 'value': [2, 3]}},
    'plim': {'p_limits': {'value': (2, 9)}},
    'scmax': {'sc': {'max': 6}},
    '-': {},
    'pmax': {'p': {'max': 30}},
    'pmin': {'p': {'min': 10}},
    'punit': {'p': {'unit': 'mm'}},
    'pvis': {'p': {'visibility': 'expert'}},
    'pexp': {'p': {'export': False}},
    'pval': {'p': {'value': 5}},
    'vunit': {'value': {'unit': 'Hz'}},
    'mvis': {'visibility': {'value': 'advanced'}},
    'cvis': {'c': {'visibility': 2}},
    'qmax': {'q': {'maxchars': 6}},
    'pmax_pval': {'p': {'max': 30, 'value': 4}},
}


def _mutate(obj, mut):
    if mut == 'setmax':
        obj.parameters['p'].datatype.setProperty('max', 20)
    elif mut == 'setmin':
        obj.parameters['p'].datatype.setProperty('min', 3)
    elif mut == 'setunit':
        obj.parameters['p'].datatype.setProperty('unit', 'Hz')
    elif mut == 'reginput':
        obj.register_input('ctl', lambda *a: None)
    elif mut == 'reginput2':
        obj.register_input('ctl2', lambda *a: None)
    elif mut == 'pvis':
        obj.parameters['p'].setProperty('visibility', 3)
    elif mut == 'cmdarg':
        obj.commands['c'].argument.setProperty('max', 3)
    elif mut == 'limmember':
        obj.parameters['lim'].datatype.members[0].setProperty('max', 5)
    elif mut == 'tupmember':
        obj.parameters['tup'].datatype.members[1].setProperty('max', 5)
    elif mut == 'arrmember':
        obj.parameters['arr'].datatype.members.setProperty('min', -3)
    elif mut == 'sctmember':
        obj.parameters['sct'].datatype.members['x'].setProperty('unit', 'V')
    elif mut == 'sctopt':         # in-place edits of mutable parts of ONE instance's datatype
        obj.parameters['sco'].datatype.optional.append('x')
    elif mut == 'sctoptrm':
        obj.parameters['sco'].datatype.optional.remove('y')
    elif mut == 'cmdopt':
        obj.commands['cs'].argument.optional.append('a')
    elif mut == 'sctdictadd':
        from frappy.core import BoolType
        obj.parameters['sct'].datatype.members['flag'] = BoolType()
    elif mut == 'tmaxprop':       # run-time change of one instance's limit datatype
        obj.parameters['target_max'].datatype.setProperty('max', 50)
    elif mut == 'tlimprop':
        obj.parameters['target_limits'].datatype.members[0].setProperty('min', -7)
    elif mut == 'scmember':
        obj.parameters['sc'].datatype.setProperty('max', 5)
    elif mut == 'enumname':
        obj.parameters['en'].datatype.set_name('renamed')
    elif mut == 'statustext':
        obj.parameters['status'].datatype.members[1].setProperty('maxchars', 10)
    elif mut == 'cmdres':
        obj.commands['c'].result.setProperty('min', 2)
    elif mut == 'tgtmin':
        obj.parameters['target'].datatype.setProperty('min', -3)
    else:
        raise KeyError(mut)


# ------------------------------------------------------------------ alpha: real -> description

_TEXTS = {}      # description id -> canonical text (for the replay / violation detail)


def _intern(obj):
    txt = json.dumps(obj, sort_keys=True, default=repr)
    did = 'd' + hashlib.sha1(txt.encode()).hexdigest()[:12]
    _TEXTS[did] = txt
    return did


_VERDICTS = {}


def _verdicts(dt):
    """verdicts of validate on the boundary probes (memoised on the datatype's complete content)"""
    try:
        key = (type(dt).__name__, repr(dt.export_datatype()), repr(dt.propertyValues))
    except Exception:
        key = None
    if key in _VERDICTS:
        return _VERDICTS[key]
    res = _verdicts_raw(dt)
    if key is not None:
        _VERDICTS[key] = res
    return res


def _members(dt):
    m = getattr(dt, 'members', None)
    if m is None:
        return []
    if isinstance(m, dict):
        return [m[k] for k in sorted(m)]
    return list(m) if isinstance(m, (tuple, list)) else [m]


def _verdicts_raw(dt):
    inner = _members(dt)
    if inner:       # composite: the limits live in the member datatypes
        res = '|'.join(_verdicts(m) for m in inner)
        if isinstance(getattr(dt, 'members', None), dict):      # struct: which members may be left out
            full = {k: m.default for k, m in dt.members.items()}
            for k in sorted(full):
                try:
                    dt.validate({q: v for q, v in full.items() if q != k})
                    res += '+'
                except Exception:
                    res += '-'
        return res
    res = []
    for v in PROBES:
        try:
            dt.validate(v)
            res.append('1')
        except Exception:
            res.append('0')
    return ''.join(res)


def _acc(a):
    from frappy.params import PREDEFINED_ACCESSIBLES, Parameter
    d = {'kind': type(a).__name__}
    try:
        d['export'] = a.for_export()
    except Exception as e:
        d['export'] = '!' + type(e).__name__
    d['props'] = {k: repr(v) for k, v in a.propertyValues.items() if k != 'export'}
    ex = a.export       # True = automatic name: normalised lazily by frappy (fixExport), so observe the effective name
    if ex is True:
        ex = a.name if a.name in PREDEFINED_ACCESSIBLES else '_' + a.name
    d['exportname'] = ex
    if isinstance(a, Parameter):
        dt = a.propertyValues.get('datatype')
        if dt is not None:
            d['probe'] = _verdicts(dt)
    else:
        for k in ('argument', 'result'):
            dt = a.propertyValues.get(k)
            if dt is not None:
                d['probe_' + k] = _verdicts(dt)
        d['func'] = getattr(a.func, '__name__', None)
    return d


def describe_class(cls):
    return _intern({
        'order': list(cls.accessibles),
        'acc': {n: _acc(a) for n, a in cls.accessibles.items()},
        'modprops': {pn: [repr(po.default), repr(po.value)] for pn, po in cls.propertyDict.items()},
        'configurables': {k: sorted(v) if isinstance(v, dict) else '' for k, v in cls.configurables.items()},
    })


def describe_instance(obj):
    acc = {}
    for n, a in obj.accessibles.items():
        d = _acc(a)
        if n in obj.parameters:
            d['value'] = repr(a.value)
            d['readerror'] = type(a.readerror).__name__
        acc[n] = d
    ex = dict(obj.exportProperties())
    ex.pop('implementation', None)       # the class name is not part of the description
    # behaviour: what a change request of p is answered (the write wrapper validates with the instance's datatype)
    po, wf = obj.parameters.get('p'), getattr(obj, 'write_p', None)
    if po is not None and wf is not None:
        saved = po.value, po.timestamp, po.readerror
        res = []
        for v in (-6, -1, 0, 3, 5, 7, 10, 11, 20, 21, 30, 31, 50, 51, 100, 101):
            try:
                wf(v)
                res.append('1')
            except Exception:
                res.append('0')
        po.value, po.timestamp, po.readerror = saved
        acc['p']['write'] = ''.join(res)
    return _intern({
        'order': list(obj.accessibles), 'acc': acc, 'modprops': ex,
        'allprops': {pn: repr(obj.propertyValues.get(pn, po.default)) for pn, po in obj.propertyDict.items()
                     if pn != 'implementation'},
        'names': sorted(obj.accessiblename2attr.items(), key=repr), 'writedict': sorted(obj.writeDict),
        'inputs': sorted(getattr(obj, 'inputCallbacks', None) or ()),
    })


# ------------------------------------------------------------------ the world

class World:
    """one run: real classes and instances created from abstract operations"""

    def __init__(self):
        boot()
        self.srv = ServerStub()
        self.cls = {}       # id -> class (also refused ones: None)
        self.inst = {}
        self.mixins = set()
        self.bad = []
        self.n = 0
        # the retained configuration (like Server.module_cfg): ONE object per configuration, every instance
        # is created from a shallow copy of it (as SecNode does), so the nested dicts are shared
        self.retained = {k: json.loads(json.dumps(v)) for k, v in CFGS.items()}

    def conf(self):
        return hashlib.sha1(json.dumps(self.retained, sort_keys=True, default=repr).encode()).hexdigest()[:12]

    def roots(self):
        from frappy.core import Writable
        from frappy.mixins import HasControlledBy
        return (HasControlledBy, Writable)

    def defclass(self, x, bases, body):
        from frappy.modulebase import Module
        bs = tuple(self.cls[b] for b in bases)
        if body.get('mixin'):
            self.mixins.add(x)
        elif not any(issubclass(b, Module) for b in bs):
            bs = bs + self.roots()
        self.n += 1
        try:        # (writing down the class body is part of the definition: it may be refused as well)
            ns = _body_items(body)
            if not bases and not body.get('mixin') and not str(body.get('p', '')).startswith('arr'):
                ns.update(_composites())        # (the array roots stay plain: they are compared in fresh processes)
            ns['__module__'] = 'verif.c09'
            self.cls[x] = type('K%d' % self.n, bs, ns)
        except Exception as e:
            self.cls[x] = None
            self.bad.append(x)
            return '!' + type(e).__name__
        return None

    def instantiate(self, x, c, cfg):
        cfgdict = dict(self.retained[cfg]) if isinstance(cfg, str) else json.loads(json.dumps(cfg))
        cfgdict['description'] = 'an instance'
        try:
            self.inst[x] = self.cls[c](x, LoggerStub(x), cfgdict, self.srv)
        except Exception as e:
            self.inst[x] = None
            self.bad.append(x)
            return '!' + type(e).__name__
        return None

    def mutate(self, x, mut):
        try:
            _mutate(self.inst[x], mut)
        except Exception as e:
            return '!' + type(e).__name__
        return None

    def describe(self, errs):
        d = {'_': '_'}
        for x, c in self.cls.items():
            d[x] = errs[x] if c is None else 'mixin' if x in self.mixins else _safely(describe_class, c)
        for x, o in self.inst.items():
            d[x] = errs[x] if o is None else _safely(describe_instance, o)
        return d


def _safely(fn, obj):
    try:
        return fn(obj)
    except Exception as e:      # an object that can not even be described is an observation too
        return _intern({'undescribable': type(e).__name__})


def _canon(v):
    return v if isinstance(v, str) else json.dumps(v, sort_keys=True)


_TABLE_CLASSES = []


def _tables():
    """digest of the CLASS level property tables of all datatype / accessible classes (frame clause: defining or
    instantiating a module class never changes what another class may declare)"""
    if not _TABLE_CLASSES:
        import frappy.datatypes as fd
        import frappy.params as fp
        for mod in (fd, fp):
            for name, c in sorted(vars(mod).items()):
                if isinstance(c, type) and isinstance(getattr(c, 'propertyDict', None), dict):
                    _TABLE_CLASSES.append((name, c))
    res = [(name, [(k, type(v.datatype).__name__, repr(v.default), v.mandatory, v.extname)
                   for k, v in c.propertyDict.items()]) for name, c in _TABLE_CLASSES]
    return hashlib.sha1(repr(res).encode()).hexdigest()[:12]


def run_program(ops):
    """execute one program in a fresh world -> list of trace events (ids as given)"""
    w = World()
    errs = {}
    prev = {'_': '_'}
    events = []
    tabs = _tables()
    for op in ops:
        act, x = op['act'], op['x']
        needed = list(op.get('bases', [])) + ([op['c']] if act == 'instantiate' else []) + \
            ([x] if act == 'mutate' else [])
        if any(n in w.bad for n in needed):
            break                      # the program uses an object the implementation refused: stop here
        if act == 'defclass':
            err = w.defclass(x, op['bases'], op['body'])
            ev = {'ev': act, 'x': x, 'bases': list(op['bases']), 'body': _canon(op['body']),
                  'mixin': bool(op['body'].get('mixin')),
                  'bare': any(str(op['body'].get(f, '-')).startswith('bare') for f in 'pq') or op['body'].get('w') == 'enum'}
        elif act == 'instantiate':
            err = w.instantiate(x, op['c'], op['cfg'])
            ev = {'ev': act, 'x': x, 'c': op['c'], 'cfg': _canon(op['cfg'])}
        else:
            w.mutate(x, op['mut'])     # a refused mutation is just a mutation (the description tells)
            err = None
            ev = {'ev': act, 'x': x, 'mut': _canon(op['mut'])}
        if err:
            errs[x] = err
        cur = w.describe(errs)
        ev['desc'] = cur
        if act == 'instantiate' or not events:       # (only creating an instance touches the configuration)
            conf = w.conf()
        ev['conf'] = conf
        ev['tabsb'] = tabs
        tabs = ev['tabsa'] = _tables()
        ev['bad'] = list(w.bad)
        # hint for the trace specification (TLC decides whether the deviation is admissible)
        ev['dev'] = any(cur.get(y) != d for y, d in prev.items() if y != x)
        events.append(ev)
        prev = cur
    return events


def run_group(programs):
    """several programs (runs) in one trace, separated by reset: the law must hold across runs"""
    trace = []
    for i, ops in enumerate(programs):
        if i:
            trace.append({'ev': 'reset', 'x': '', 'desc': {'_': '_'}, 'bad': [], 'dev': False, 'conf': ''})
        trace += run_program(ops)
    texts = {}
    for ev in trace:
        for d in ev['desc'].values():
            if d in _TEXTS:
                texts[d] = _TEXTS[d]
    return trace, texts


def _run_group_notexts(programs):
    return run_group(programs)[0]


def _run_forked(ops):
    """run_program in a FRESH copy of this (pristine) process: nothing an earlier program did to class level
    state of frappy can be seen, so 'B built alone' really is alone"""
    r, w = os.pipe()
    pid = os.fork()
    if pid == 0:
        try:
            os.close(r)
            try:
                out = json.dumps(run_program(ops))
            except BaseException as e:       # (reported by the parent as a harness failure)
                import traceback
                out = json.dumps({'error': traceback.format_exc()[-1500:] or repr(e)})
            with os.fdopen(w, 'w') as f:
                f.write(out)
        finally:
            os._exit(0)
    os.close(w)
    with os.fdopen(r) as f:
        data = f.read()
    os.waitpid(pid, 0)
    res = json.loads(data)
    if isinstance(res, dict):
        raise RuntimeError('forked run failed: ' + res['error'])
    return res


def _alone(ops):
    """for a program of unrelated root classes: the sub-programs that build each root class alone"""
    roots = [o['x'] for o in ops if o['act'] == 'defclass' and not o['bases']]
    res = []
    for x in roots:
        mine, sub = {x}, []
        for o in ops:
            if (o['act'] == 'defclass' and (o['x'] == x or set(o['bases']) & mine and set(o['bases']) <= mine)) or \
                    (o['act'] == 'instantiate' and o['c'] in mine) or (o['act'] == 'mutate' and o['x'] in mine):
                mine.add(o['x'])
                sub.append(o)
        res.append(sub)
    return res


def run_isolated_group(ops):
    """one trace: the whole program, then every root class built alone, each run in a fresh process.
    The law of Trace_ClassModel then demands outcome(B alone) = outcome(B after A)"""
    boot()
    programs = [ops] + [s for s in _alone(ops) if s != ops]
    trace = []
    for i, p in enumerate(programs):
        if i:
            trace.append({'ev': 'reset', 'x': '', 'desc': {'_': '_'}, 'bad': [], 'dev': False, 'conf': ''})
        trace += _run_forked(p)
    return programs, trace


# ------------------------------------------------------------------ random programs (code -> spec)

P_ROOT = ['new', 'newint']
P_DER = ['props', 'props2', 'ppty', 'empty', 'dt', 'noinh', 'bare', 'bare3', 'none', 'new']
Q_DER = ['ppty', 'props', 'bare', 'none']
V_DER = ['unit', 'lim', 'dt']
C_DER = ['cmd', 'cprops', 'cgroup', 'method', 'none']
MUTS = ['setmax', 'setmin', 'setunit', 'reginput', 'reginput2', 'pvis', 'cmdarg', 'cmdres', 'statustext', 'tgtmin',
        'limmember', 'tupmember', 'arrmember', 'sctmember', 'scmember', 'enumname',
        'sctopt', 'sctoptrm', 'cmdopt', 'sctdictadd', 'tmaxprop', 'tlimprop']


def random_program(rnd, nclasses, ninst, nmut):
    ops = []
    classes, modcls = [], []
    for n in range(1, nclasses + 1):
        x = 'k%d' % n
        r = rnd.random()
        if not classes or r < 0.2:
            if rnd.random() < 0.35:
                body = {'mixin': True, 'p': rnd.choice(['props', 'props2', 'ppty', 'new', '-']),
                        'q': rnd.choice(['-', 'ppty']), 'c': '-', 'm': '-', 'v': rnd.choice(['-', '-', 'unit'])}
                if body['p'] == '-' and body['q'] == '-':
                    body['p'] = 'props'
            else:
                body = {'mixin': False, 'p': rnd.choice(P_ROOT), 'q': rnd.choice(['new', '-']), 'c': 'cmd',
                        'm': '-', 'v': '-'}
                modcls.append(x)
            bases = []
        else:
            k = 1 if len(classes) < 2 or rnd.random() < 0.45 else 2
            bases = rnd.sample(classes, k)
            body = {'mixin': False, 'p': '-', 'q': '-', 'c': '-', 'm': '-', 'v': '-'}
            for _ in range(rnd.choice([0, 1, 1, 2])):
                f = rnd.choice('ppqvcmw')
                body[f] = rnd.choice({'p': P_DER, 'q': Q_DER, 'v': V_DER, 'c': C_DER, 'm': ['bare', 'bare2', 'group', 'group2', 'slow', 'slow2', 'cust', 'cust2', 'prop'],
                                      'w': ['arrmax', 'scmax', 'txt', 'enum']}[f])
            modcls.append(x)
        classes.append(x)
        ops.append({'act': 'defclass', 'x': x, 'bases': bases, 'body': body})
    insts = []
    for n in range(1, ninst + 1):
        if not modcls:
            break
        x = 'i%d' % n
        if insts and rnd.random() < 0.4:
            prev = rnd.choice(insts)
            ops.append({'act': 'instantiate', 'x': x, 'c': prev['c'], 'cfg': prev['cfg']})
        else:
            ops.append({'act': 'instantiate', 'x': x, 'c': rnd.choice(modcls), 'cfg': rnd.choice(sorted(CFGS))})
        insts.append(ops[-1])
    for _ in range(nmut):
        if insts:
            ops.append({'act': 'mutate', 'x': rnd.choice(insts)['x'], 'mut': rnd.choice(MUTS)})
    return ops


def shuffled(rnd, ops):
    """a random other order that respects the dependencies (bases / class / instance first);
    mutations of one instance keep their relative order"""
    todo = list(ops)
    done, out = set(), []
    while todo:
        ready = []
        seen_mut = set()
        for op in todo:
            need = list(op.get('bases', [])) + ([op['c']] if op['act'] == 'instantiate' else []) + \
                ([op['x']] if op['act'] == 'mutate' else [])
            if op['act'] == 'mutate':
                if op['x'] in seen_mut:
                    continue
                seen_mut.add(op['x'])
            if all(n in done for n in need):
                ready.append(op)
        op = rnd.choice(ready)
        todo.remove(op)
        out.append(op)
        if op['act'] != 'mutate':
            done.add(op['x'])
    return out


def _random_group(seed):
    rnd = random.Random(seed)
    ops = random_program(rnd, rnd.randint(3, 6), rnd.randint(2, 4), rnd.randint(0, 3))
    return [ops, shuffled(rnd, ops), shuffled(rnd, ops)]


def _random_trace(seed):
    return _run_group_notexts(_random_group(seed))


# ------------------------------------------------------------------ check

def _group_key(beh):
    def content(s):
        return json.dumps([s['act'], s.get('body'), s.get('cfg'), s.get('mut'), len(s.get('bases', []))],
                          sort_keys=True)
    return json.dumps(sorted(content(s) for s in beh))


def _ops(beh):
    return [{k: v for k, v in s.items() if k != 'exp'} for s in beh]


def _shape(trace, l):
    """signature pieces of the rejected event (stable, specific to the history class)"""
    ev = trace[l - 1] if 0 < l <= len(trace) else {}
    prev = {}
    for e in reversed(trace[:max(l - 1, 0)]):
        prev = e['desc']
        break
    if l >= 2 and trace[l - 2]['ev'] == 'reset':
        prev = {}
    changed = sorted(y for y, d in prev.items() if y != ev.get('x') and ev.get('desc', {}).get(y) != d)
    kinds = sorted({'class' if y.startswith('k') else 'instance' for y in changed})
    return ev, {'op': ev.get('ev'), 'nbases': len(ev.get('bases', [])) if ev.get('ev') == 'defclass' else None,
                'victims': kinds}


def _judge(chk, traces, sources, tag):
    verdicts, st, tr = validate_traces('Trace_ClassModel', traces, 'Trace_ClassModel.cfg', timeout=900, chunk=1500)
    chk.states += st
    chk.transitions += tr
    for i, v in sorted(verdicts.items()):
        if v is None:
            continue
        l, clause = v
        ev, shape = _shape(traces[i], l)
        if clause.startswith('DEV:'):
            sig = {'module': 'ClassModel', 'deviation': clause[4:]}
        else:
            sig = {'module': 'ClassModel', 'clause': clause, **shape}
        chk.violation(sig, {'source': tag, 'programs': sources[i], 'failed_at': l,
                            'event': {k: ev.get(k) for k in ('ev', 'x', 'bases', 'body', 'c', 'cfg', 'mut')},
                            'clause': clause, **shape})
    return verdicts


def run(chk):
    import time
    quick = chk.tier == 'quick'
    t0 = time.time()
    phases = chk.notes.setdefault('phase_s', {})

    def phase(name):
        nonlocal t0
        phases[name] = round(time.time() - t0, 1)
        t0 = time.time()
    chk.rule = ('every program of Gen_ClassModel (classes x override kinds x base sequences x instances x '
                'configurations x mutations, all operation orders, to the depth bound) executed on real '
                'classes/instances with all live descriptions recorded after every operation; programs with the '
                'same multiset of operations share one trace (runs separated by reset) so that TLC checks the '
                'law across orders; plus seeded random programs (3-6 classes, 3 accessibles) each run in three '
                'orders. A case is distinct by its operation sequence; non-trivial = at least two classes or '
                'instances related by inheritance / equal key')
    for m in ('ClassModel', 'Gen_ClassModel', 'Trace_ClassModel'):
        sany(m)
    # the harness' own fixture must work (a refused class is an observation - but not for the plain root)
    probe = _run_forked([{'act': 'defclass', 'x': 'k1', 'bases': [],
                          'body': {'mixin': False, 'p': 'new', 'c': 'cmd', 'm': '-', 'w': '-'}},
                         {'act': 'instantiate', 'x': 'i1', 'c': 'k1', 'cfg': '-'}])
    if len(probe) != 2 or probe[-1]['bad']:
        from ..core import MachineryError
        raise MachineryError('C09 fixture: the plain root class / instance can not be created: %r' % probe[-1]['desc'])
    # the override kinds the property quantifies over must be definable at all (a refused class is a lawful
    # observation for the specification, which leaves legality open - but not for the documented kinds)
    for kind, field in (('Parameter(inherit=False)', {'p': 'noinh'}), ('Command(inherit=False)', {'c': 'cnoinh'}),
                        ('bare value', {'p': 'bare'}), ('None', {'p': 'none'}), ('plain method', {'c': 'method'})):
        body = {'mixin': False, 'p': '-', 'c': '-', 'm': '-', 'w': '-'}
        body.update(field)
        ops = [{'act': 'defclass', 'x': 'k1', 'bases': [],
                'body': {'mixin': False, 'p': 'new', 'c': 'cmd', 'm': '-', 'w': '-'}},
               {'act': 'defclass', 'x': 'k2', 'bases': ['k1'], 'body': body}]
        res = _run_forked(ops)
        chk.impl_traces += 1
        if res[-1]['bad']:
            chk.violation({'module': 'ClassModel', 'clause': 'documented override kind can not be defined', 'kind': kind},
                          {'programs': [ops], 'failed_at': 2, 'clause': 'documented override kind can not be defined',
                           'error': res[-1]['desc'].get('k2')})
    chk.add_tlc(model_check('ClassModel', 'MC_ClassModel_quick.cfg' if quick else 'MC_ClassModel_thorough.cfg',
                            timeout=1000))
    # spec -> code: TLC's programs
    behs = []
    for cfg in (('Gen_ClassModel_quick.cfg', 'Gen_ClassModel_quick_hier.cfg', 'Gen_ClassModel_quick_mprop.cfg') if quick else
                ('Gen_ClassModel_thorough.cfg', 'Gen_ClassModel_thorough_hier.cfg',
                 'Gen_ClassModel_thorough_mprop.cfg')):
        r, part = emit_behaviours('Gen_ClassModel', cfg, maximal_only=False, timeout=1000)
        chk.add_tlc(r)
        behs += part
    phase('sany+mc+gen')
    # class isolation against process-wide state: pairs of unrelated classes (arrays with different member types,
    # member properties on the parameter / in the configuration), both orders, each run in a fresh process
    r, iso = emit_behaviours('Gen_ClassModel', 'Gen_ClassModel_quick_iso.cfg' if quick else 'Gen_ClassModel_thorough_iso.cfg',
                             maximal_only=False, timeout=600)
    chk.add_tlc(r)
    isoprogs, isotraces = [], []
    for b in iso:
        progs, tr = run_isolated_group(_ops(b))
        isoprogs.append(progs)
        isotraces.append(tr)
        chk.impl_traces += len(progs)
        chk.case(json.dumps(_ops(b), sort_keys=True), True)
    phase('isolated')
    groups = {}
    for b in behs:
        groups.setdefault(_group_key(b), []).append(_ops(b))
    glist = []
    for g in groups.values():
        for j in range(0, len(g), 8):
            glist.append(g[j:j + 8])
    traces = pool_map(_run_group_notexts, glist)
    phase('replay')
    for b in behs:
        chk.impl_traces += 1
        chk.case(json.dumps(_ops(b), sort_keys=True),
                 any(s['exp']['same'] or s.get('bases') for s in b))
    # alpha(gamma(x)) = x : the live set TLC expects is the live set observed (or the program was cut short
    # at an object the implementation refused)
    for g, tr in zip(glist, traces):
        runs, cur = [], []
        for ev in tr:
            if ev['ev'] == 'reset':
                runs.append(cur)
                cur = []
            else:
                cur.append(ev)
        runs.append(cur)
        for ops, evs in zip(g, runs):
            if len(evs) < len(ops) and not (evs and evs[-1]['bad']):
                chk.violation({'module': 'ClassModel', 'clause': 'harness: program cut short'}, {'program': ops})
    _judge(chk, traces + isotraces, glist + isoprogs, 'Gen_ClassModel')      # (one JVM for both)
    phase('judge')
    if traces:
        chk.sample({'program': glist[len(glist) // 2][0], 'desc_after_last_op': traces[len(glist) // 2][-1]['desc']})
    # code -> spec: random programs beyond the catalogue
    n = 200 if quick else 3000
    seeds = [chk.seed * 1000003 + i for i in range(n)]
    rtraces = pool_map(_random_trace, seeds)
    phase('random')
    for s in seeds:
        chk.impl_traces += 3
        chk.case('rnd%d' % s, True)
    _judge(chk, rtraces, [{'random_group_seed': s} for s in seeds], 'random')
    phase('judge_random')
    chk.sample({'random_program': _random_group(seeds[0])[0][:4]})
    chk.exhaustive = False
    chk.assumptions.append('descriptions are what describe_class/describe_instance observe; class names are '
                           'normalised away; plain mixins are observed through the module classes built on them')


def _debug_keys(trace):
    """(debug aid for replay only) the key of every event's target, as the specification defines it"""
    defs, insts, keys = {}, {}, []

    def ckey(c):
        order = []

        def visit(k):
            if k not in order:
                order.append(k)
                for b in defs[k][0]:
                    visit(b)
        visit(c)
        return tuple((defs[k][1], tuple(order.index(b) for b in defs[k][0])) for k in order)
    for ev in trace:
        if ev['ev'] == 'reset':
            defs, insts = {}, {}
            keys.append(None)
        elif ev['ev'] == 'defclass':
            defs[ev['x']] = (ev['bases'], ev['body'])
            keys.append(('C', ckey(ev['x'])))
        else:
            if ev['ev'] == 'instantiate':
                insts[ev['x']] = [ev['c'], ev['cfg'], ()]
            else:
                insts[ev['x']][2] += (ev['mut'],)
            c, f, m = insts[ev['x']]
            keys.append(('I', ckey(c), f, m))
    return keys


def _diff(a, b, path=''):
    if isinstance(a, dict) and isinstance(b, dict):
        for k in sorted(set(a) | set(b)):
            _diff(a.get(k), b.get(k), path + '/' + str(k))
    elif a != b:
        print('   ', path, ':', a, '  <>  ', b)


def replay(chk, rep):
    d = rep['detail']
    progs = d['programs']
    if isinstance(progs, dict):
        progs = _random_group(progs['random_group_seed'])
    trace, texts = run_group(progs)
    l = d['failed_at']
    keys = _debug_keys(trace)
    for j in range(l - 1):
        if keys[j] == keys[l - 1] and trace[j]['desc'].get(trace[j]['x']) != trace[l - 1]['desc'].get(trace[l - 1]['x']):
            print('event', j + 1, 'and event', l, 'create objects with equal key but different descriptions:')
            da, db = trace[j]['desc'][trace[j]['x']], trace[l - 1]['desc'][trace[l - 1]['x']]
            _diff(json.loads(texts.get(da, '"%s"' % da)), json.loads(texts.get(db, '"%s"' % db)))
            break
    for i, ev in enumerate(trace, 1):
        print(i, {k: v for k, v in ev.items() if k not in ('desc',)}, ev['desc'])
    ev = trace[l - 1]
    before = trace[l - 2]['desc'] if l >= 2 and trace[l - 2]['ev'] != 'reset' else {}
    print('clause', d['clause'], 'at event', l, ev['ev'], ev['x'])
    for y, old in before.items():
        if y != ev['x'] and ev['desc'].get(y) != old:
            print('entry', y, 'changed although the operation addresses', ev['x'])
            a, b = json.loads(texts[old]), json.loads(texts[ev['desc'][y]])
            for k in a.get('acc', {}):
                if a['acc'][k] != b.get('acc', {}).get(k):
                    print('  accessible', k, '\n    before', a['acc'][k], '\n    after ', b['acc'].get(k))
    return 0
