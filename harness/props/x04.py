"""X04 (growth module) - the multi event (frappy/lib/multievent.py) and what its callers rely on.

spec/MultiEventX.tla      the contract over observable events: every public call takes effect atomically between its
                          begin and its return; wait() == True needs a moment with nothing outstanding and no queued
                          action left, and comes at that moment (no lost wake-up); wait() == False comes exactly at
                          min(time-out of the caller, largest deadline of the outstanding sub-events); waiting_for() /
                          deadline() are one consistent view; queued actions run exactly once, in order, by the thread
                          that makes the MultiEvent set (or by queue() itself), an action that raises drops the rest.
spec/MultiEventXCode.tla  the file line by line (one step per source line, lock, threading.Event flag, set iteration
                          that raises when the set changes size, attributes that raise until assigned) with switches
                          "as it stood" / "repaired" (repairs b07a78a, 520ac94, cc1957e, model-checked first); TLC: the
                          repaired design satisfies the statements (safety and, under fairness, termination), every
                          single switch set back violates the one it is needed for.
Binding:
  spec -> code  every behaviour of Gen_MultiEventX (a driver thread making complete calls, up to two threads blocked in
                wait(), clock ticks) is replayed on the REAL MultiEvent under the deterministic scheduler (virtual
                time); after each step results, waiting_for(), deadline(), is_set(), the actions run and the state of
                the blocked waiters are compared with what TLC printed.
  code -> spec  the real class with 2-4 threads, every source line of multievent.py a preemption point: all schedules
                with a bounded number of preemptions + random ones, of a scenario catalogue (the server's start-up
                pattern, creation while waiting, queue() racing with the last set, re-use after clear, time-outs,
                triggers fired twice) + random scripts; every execution is recorded (begin / return of each call with
                virtual time, actions run, threads blocked for ever) and TLC searches the effect points
                (Trace_MultiEventX).  A trace that needs a named deviation (Dev_*: what the code did before the
                repairs) is a violation unless an open finding carries that deviation.
Python concretises, schedules and projects; the verdicts are TLC's.
"""
import json
import random
import re

from .. import detsched as ds
from ..core import (REPO, MachineryError, emit_behaviours, model_check, pool_map, run_parallel, run_tlc, sany,
                    validate_traces)
from ..env import boot

META = {
    'text': 'TLC model-checks a line-by-line model of frappy/lib/multievent.py (lock, Event flag, iteration over the '
            'shared set, attribute initialisation order) against the statements: wait() returns True only when at some '
            'moment of the call no sub-event was outstanding and no queued action was left, False not before and not '
            'after min(own time-out, largest deadline of the outstanding sub-events), no lost wake-up (safety in '
            'virtual time and termination under fairness), waiting_for() / deadline() are consistent views, a queued '
            'action runs exactly once (also when queue() races with the last set), clear / re-use, triggers fired '
            'twice, set() / clear() of the MultiEvent itself refused; the repaired design holds, each repair switch '
            'set back (and a lock-less mutation) must fail; behaviours of this model, projected to observable events, '
            'are judged by the observable contract (repaired: accepted as they are; as it stands: exactly the named '
            'deviations of the code before the repairs b07a78a / 520ac94 / cc1957e). '
            'Every behaviour of Gen_MultiEventX to the depth bound is replayed on the real class (driver + blocked '
            'waiters under a deterministic scheduler, virtual time) with results and projected state compared after '
            'each step; executions of the real class with 2-4 threads under all schedules with bounded preemptions '
            '(every source line a preemption point) and random schedules are validated by TLC against the observable '
            'contract (Trace_MultiEventX: TLC searches the effect points of the calls). The assumptions of '
            'frappy/server.py (wait with the default time-outs never raises, ends at the largest start deadline, '
            'waiting_for() then names exactly the modules not yet started) are stated in the model and checked on '
            'the real class in the server scenarios.',
    'note': 'Bounded: 3 threads x 1-4 calls and 3-4 clock ticks in the design model; generated behaviours of depth '
            '6-8 over 3 sub-events, 2 actions, time-outs {none, 0, 2, 3}; schedules with at most 2 (thorough 3) '
            'preemptions per scenario plus random ones; virtual time in whole seconds, reading the clock costs '
            'nothing (a thread that is runnable never sees time pass). Actions that call back into the MultiEvent '
            '(re-entrancy through the RLock) are not covered. Trusted: TLC, harness/detsched.py (its Event returns '
            'the flag at wake-up, threading.Event returns whether it was notified - the contract accepts both), the '
            'alpha / gamma glue in harness/props/x04.py. The start of the real Server is driven by C15 '
            '(harness/lifeworld.py), not repeated here.',
    'tech': 'TLA+ specs (MultiEventX contract, MultiEventXCode line-level design model) + TLC model checking with '
            'must-fail switches; spec->code replay of all TLC behaviours; code->spec TLC trace validation '
            '(linearisation search) of enumerated and random schedules of the real class under a deterministic '
            'scheduler with line-level preemption',
    'ref': 'growth module X04 (not one of the 20 listed properties)',
}

T0 = 1000000.0                      # scheduler clock at the start of a run
MONO0 = T0 - ds.MONO_OFFSET         # what time.monotonic() says then
INF = 1000000                       # "none" in the specification (time-outs, deadlines)
NODL = -1                           # deadline() with nothing outstanding
THREADS = ('main', 'a', 'b', 'c', 'd', 'w1', 'w2')
TARGET = 'frappy/lib/multievent.py'


# ------------------------------------------------------------------ the class under the scheduler

def load_multievent():
    """MultiEvent derives from threading.Event at import time: execute the CURRENT source of the file with the
    scheduler's threading / time instead (same file name, so that line tracing applies)"""
    boot()
    path = REPO / TARGET
    src = path.read_text()
    if 'import threading\n' not in src or 'import time\n' not in src:
        raise MachineryError('frappy/lib/multievent.py no longer imports threading / time as modules')
    src = src.replace('import threading\n', 'from harness.detsched import FAKE_THREADING as threading\n', 1)
    src = src.replace('import time\n', 'from harness.detsched import FAKE_TIME as time\n', 1)
    ns = {'__name__': 'frappy.lib.multievent_x04'}
    exec(compile(src, str(path), 'exec'), ns)       # noqa: S102
    return ns


FAR = 99999999                      # a time / deadline that is neither "none" nor plausible


def _ticks(x):
    if abs(x) > 1e7:
        return FAR
    r = round(x)
    return int(r) if abs(x - r) < 1e-6 else -7


def _dl(v):
    """absolute monotonic deadline -> ticks since the start / INF / NODL"""
    if v is None or v >= 1e98:
        return INF
    if v == 0:
        return NODL
    return _ticks(v - MONO0)


def _dlcall(v):
    """result of MultiEvent.deadline(): None = no limit, 0 = nothing outstanding"""
    if v is None:
        return INF
    if v == 0:
        return NODL
    return _ticks(v - MONO0)


def _to(v):
    return INF if v is None else v


class _Sched(ds.Scheduler):
    """remembers which threads were still blocked when a run ended"""
    blocked_names = ()

    def teardown(self):
        self.blocked_names = [n for n in self.order if not self.threads[n].finished]
        super().teardown()


class World:
    """one real MultiEvent + scripted threads; records the observable events"""

    def __init__(self, sc, strategy, lines=True, max_steps=6000):
        self.ns = load_multievent()
        self.sc = sc
        self.s = _Sched(strategy, max_steps=max_steps, trace_files=(TARGET,) if lines else ())
        self.dto = sc.get('dto')
        self.m = None
        self.ev = {}            # id -> _SingleEvent
        self.trig = {}          # id -> callable from get_trigger
        self.trace = []
        self.crashes = {}

    # -- event log
    def log(self, **e):
        me = self.s.me()
        e['th'] = me.name if me else 'ctl'
        e['vt'] = _ticks(self.s.now - T0)
        self.trace.append(e)

    def begin(self, op, e='', a='', to=0, name=''):
        self.log(ev='begin', op=op, e=e, a=a, to=to, name=name)

    def ret(self, op, exc='', ires=0, bres=False, sres=()):
        self.log(ev='ret', op=op, exc=exc, ires=ires, bres=bool(bres), sres=sorted(sres))

    def action(self, a):
        kind = self.sc.get('actions', {}).get(a, 'ok')

        def run():
            self.log(ev='act', a=a, raises=kind == 'raise')
            if kind == 'slow':
                self.ns['time'].sleep(2)
            if kind == 'raise':
                raise ValueError(a)
        return run

    # -- one public call
    def call(self, op):
        kind = op[0]
        m = self.m
        res = {}
        try:
            if kind in ('new', 'trig'):
                _, e, to, name = op
                self.begin('new', e=e, to=to or 0, name=name or '')
                if kind == 'new':
                    obj = m.new(to, name)
                else:
                    f = m.get_trigger(to, name)
                    obj = f.__self__
                    self.trig[e] = f
                self.ev[e] = obj
                res = {'ires': _dl(obj.deadline)}
                kind = 'new'
            elif kind == 'set':
                self.begin('set', e=op[1])
                (self.trig.get(op[1]) or self.ev[op[1]].set)()
            elif kind == 'clear':
                self.begin('clear', e=op[1])
                self.ev[op[1]].clear()
            elif kind == 'queue':
                self.begin('queue', a=op[1])
                m.queue(self.action(op[1]))
            elif kind == 'wait':
                self.begin('wait', to=_to(op[1]))
                res = {'bres': m.wait(op[1]) if op[1] is not None else m.wait()}
            elif kind == 'wfor':
                self.begin('wfor')
                res = {'sres': m.waiting_for()}
            elif kind == 'deadline':
                self.begin('deadline')
                res = {'ires': _dlcall(m.deadline())}
            elif kind == 'isset':
                self.begin('isset', e=op[1])
                res = {'bres': self.ev[op[1]].is_set()}
            elif kind == 'mset':
                self.begin('mset')
                res = {'bres': m.is_set()}
            elif kind == 'setname':
                self.begin('setname', name=op[1])
                m.name = op[1] or None
            elif kind in ('mforce', 'mclear'):      # set() / clear() of the MultiEvent itself
                self.begin(kind)
                (m.set if kind == 'mforce' else m.clear)()
            else:
                raise MachineryError(f'unknown operation {op}')
        except ds.SchedAbort:
            raise
        except MachineryError:
            raise
        except Exception as e:      # noqa
            self.ret(kind, exc=type(e).__name__)
            return
        self.ret(kind, **res)

    def body(self, name):
        for op in self.sc['threads'][name]:
            if op[0] == 'sleep':
                self.ns['time'].sleep(op[1])
            elif op[0] == 'spawn':
                for n in op[1]:
                    self.s.spawn(n, self.body, n)
            else:
                self.call(tuple(op))

    def run(self):
        s = self.s
        self.m = self.ns['MultiEvent'](self.dto)
        self.trace.append({'ev': 'cfg', 'dto': _to(self.dto or None)})
        later = {n for ops in self.sc['threads'].values() for op in ops if op[0] == 'spawn' for n in op[1]}
        for n in self.sc['threads']:
            if n not in later:
                s.spawn(n, self.body, n)
        s.run()
        for n, t in s.threads.items():
            if t.exc is not None:
                self.crashes[n] = f'{type(t.exc).__name__}: {t.exc}'
        if s.deadlock:
            for n in s.order:
                if n in s.blocked_names:            # blocked for ever
                    self.trace.append({'ev': 'stuck', 'th': n, 'vt': _ticks(s.now - T0)})
        if s.livelock:
            self.crashes['scheduler'] = 'step limit exceeded'
        self.trace.append({'ev': 'end', 'vt': _ticks(s.now - T0)})
        return self


def run_scenario(sc, strategy, lines=True):
    return World(sc, strategy, lines).run()


# ------------------------------------------------------------------ spec -> code: replay of Gen_MultiEventX

def _others_quiet(s, me):
    for t in s.threads.values():
        if t is me or t.finished:
            continue
        if t.pred is None or t.pred() or (t.deadline is not None and t.deadline <= s.now):
            return False
    return True


def replay_behaviour(beh, dto):
    """execute the steps of one behaviour on the real class; returns None or a dict describing the first mismatch
    (mismatches of the is_set() view alone are collected separately: `isset_bad`)"""
    ns = load_multievent()
    s = ds.Scheduler(ds.GuidedStrategy(()), max_steps=20000)
    bad = {}
    isset_bad = []
    state = {'ran': [], 'wl': {}, 'ev': {}}

    def action(a, raises):
        def run():
            state['ran'].append(a)
            if raises:
                raise ValueError(a)
        return run

    def waiter(name, to):
        try:
            res = m.wait(None if to == INF else to)
        except ds.SchedAbort:
            raise
        except Exception as e:      # noqa
            res = type(e).__name__
        n = state['wl'].get(name, {'n': 0})['n']
        state['wl'][name] = {'n': n + 1, 'res': res, 'vt': _ticks(s.now - T0)}

    def settle():
        me = s.me()
        s.block(lambda: _others_quiet(s, me), None, 'settle')

    def observe():
        try:
            names = sorted(m.waiting_for())
        except Exception as e:      # noqa
            names = [type(e).__name__]
        return {'pend': names, 'dl': _dlcall(m.deadline()), 'mset': bool(m.is_set()), 'ran': list(state['ran']),
                'now': _ticks(s.now - T0), 'nq': len(m._actions),
                'isset': sorted(e for e, o in state['ev'].items() if o.is_set()),
                'blocked': sorted(n.split('#')[0] for n, t in s.threads.items() if n != 'main' and not t.finished),
                'wl': {k: dict(v) for k, v in state['wl'].items()}}

    def driver():
        for k, st in enumerate(beh):
            act = st['act']
            got = {}
            try:
                if act == 'new':
                    # "treat 0 as None": give the explicit 0 for every second sub-event
                    to = st['to'] or (0 if st['e'] == 'e2' else None)
                    if st['e'] == 'e3' and not st['name'] and not st['to']:
                        obj = m.get_trigger().__self__
                    else:
                        obj = m.new(to, st['name'] or None)
                    state['ev'][st['e']] = obj
                    got['ires'] = _dl(obj.deadline)
                elif act == 'set':
                    state['ev'][st['e']].set()
                elif act == 'clear':
                    state['ev'][st['e']].clear()
                elif act == 'queue':
                    m.queue(action(st['a'], st['a'] in RAISING))
                elif act == 'setname':
                    m.name = st['name'] or None
                elif act in ('mforce', 'mclear'):
                    try:
                        (m.set if act == 'mforce' else m.clear)()
                        got['exc'] = 'accepted'
                    except ValueError:
                        pass
                elif act == 'tick':
                    ns['time'].sleep(1)
                elif act == 'wait':
                    if st['th'] == 'main':
                        waiter('main', st['to'])
                    else:
                        s.spawn(st['th'], waiter, st['th'], st['to'])
            except ds.SchedAbort:
                raise
            except Exception as e:      # noqa
                got['exc'] = type(e).__name__
            settle()
            obs = observe()
            exp = st['exp']
            if act == 'new' and 'exc' not in got and got['ires'] != st['ires']:
                bad.update(step=k, act=act, field='deadline', expected=st['ires'], observed=got['ires'])
                return
            if 'exc' in got:
                bad.update(step=k, act=act, field='exception', expected='', observed=got['exc'])
                return
            want = {'pend': sorted(exp['pend']), 'dl': exp['dl'], 'mset': exp['mset'], 'ran': list(exp['ran']),
                    'now': exp['now'], 'nq': exp['nq'], 'blocked': sorted(x for x in exp['blocked'] if x != 'main'),
                    'wl': {w: v for w, v in exp['wl'].items() if v['n'] > 0}}
            for f in ('pend', 'dl', 'mset', 'ran', 'nq', 'now', 'blocked', 'wl'):
                if obs[f] != want[f]:
                    bad.update(step=k, act=act, field=f, expected=want[f], observed=obs[f])
                    return
            if obs['isset'] != sorted(exp['isset']):
                isset_bad.append({'step': k, 'expected': sorted(exp['isset']), 'observed': obs['isset']})

    # "treat 0 as None": every second behaviour without default time-out gives 0 to the constructor
    m = ns['MultiEvent']((0 if len(json.dumps(beh)) % 2 else None) if dto == INF else dto)
    s.spawn('main', driver)
    s.run()
    t = s.threads['main']
    if t.exc is not None and not bad:
        bad.update(step=-1, act='?', field='harness', expected='', observed=f'{type(t.exc).__name__}: {t.exc}')
    if s.livelock and not bad:
        bad.update(step=-1, act='?', field='livelock', expected='', observed='')
    return (bad or None), isset_bad


RAISING = ('a2',)


def _replay_job(args):
    beh, dto = args
    return replay_behaviour(beh, dto)


# ------------------------------------------------------------------ code -> spec: scenarios

def _sc(dto, actions=None, **threads):
    return {'dto': dto, 'actions': actions or {}, 'threads': {k: [list(o) for o in v] for k, v in threads.items()}}


SCEN = {
    # frappy/server.py, start_events: one trigger per poll thread, created by the main thread under the name of the
    # module, default time-out; the poll threads fire them; the main thread waits and asks who is missing
    'server': _sc(30, main=[('setname', 'module m1'), ('trig', 'e1', None, None), ('setname', 'module m2'),
                            ('trig', 'e2', None, None), ('setname', ''), ('spawn', ['a', 'b']), ('wait', None), ('wfor',)],
                  a=[('set', 'e1')], b=[('set', 'e2')]),
    'server3': _sc(30, main=[('trig', 'e1', None, 'm1'), ('trig', 'e2', None, 'm2'), ('trig', 'e3', 10, 'm3'),
                             ('spawn', ['a', 'b', 'c']), ('wait', None), ('wfor',), ('deadline',)],
                   a=[('set', 'e1')], b=[('sleep', 2), ('set', 'e2')], c=[('set', 'e3')]),
    # one module does not get ready: the wait ends at the deadline, waiting_for() names it, a second wait gives up at once
    'server_late': _sc(30, main=[('trig', 'e1', None, 'module m1'), ('trig', 'e2', None, 'module m2'), ('spawn', ['a', 'b']),
                                 ('wait', None), ('wfor',), ('wait', None), ('deadline',), ('mset',)],
                       a=[('sleep', 1), ('set', 'e1')], b=[('sleep', 40), ('set', 'e2')]),
    # interfaces_started (12 s): the interface thread reports after 10 s
    'iface': _sc(12, main=[('trig', 'e1', None, None), ('spawn', ['a']), ('wait', None), ('mset',), ('wfor',)],
                 a=[('sleep', 10), ('set', 'e1')]),
    # protocol/router.py: no deadlines, wait(10), one node never connects
    'router': _sc(None, main=[('new', 'e1', None, None), ('new', 'e2', None, None), ('spawn', ['a', 'b']), ('wait', 10), ('wfor',)],
                  a=[('sleep', 3), ('set', 'e1')], b=[('sleep', 11), ('set', 'e2')]),
    # a sub-event is created while another thread waits / asks
    'new_race': _sc(None, main=[('new', 'e1', None, 'first'), ('spawn', ['a', 'b', 'w1'])],
                    a=[('new', 'e2', 2, 'second'), ('set', 'e2')], b=[('set', 'e1')], w1=[('wait', 1), ('wfor',), ('deadline',)]),
    'new_default': _sc(5, main=[('new', 'e1', 0, None), ('spawn', ['a', 'w1'])],
                       a=[('setname', 'dflt'), ('new', 'e2', None, None), ('set', 'e1'), ('set', 'e2')], w1=[('wfor',), ('wait', None)]),
    # queue() races with the last set, a waiter looks on; a2 raises (a3 is dropped when both wait in the same flush)
    'queue_race': _sc(None, {'a2': 'raise'}, main=[('new', 'e1', None, None), ('spawn', ['a', 'b', 'w1'])],
                      a=[('queue', 'a1'), ('set', 'e1')], b=[('queue', 'a2'), ('queue', 'a3')], w1=[('wait', None), ('mset',)]),
    'queue2': _sc(None, main=[('new', 'e1', None, None), ('spawn', ['a', 'b', 'c'])],
                  a=[('set', 'e1')], b=[('queue', 'a1')], c=[('queue', 'a2'), ('wait', 0)]),
    # re-use: set, clear, set again, fire twice
    'reuse': _sc(None, main=[('new', 'e1', None, None), ('spawn', ['a', 'b', 'w1'])],
                 a=[('set', 'e1'), ('clear', 'e1'), ('sleep', 1), ('set', 'e1'), ('set', 'e1')],
                 b=[('queue', 'a1'), ('isset', 'e1')], w1=[('wait', 1), ('wait', None)]),
    'twice': _sc(None, main=[('trig', 'e1', 5, None), ('spawn', ['a', 'b', 'w1'])],
                 a=[('set', 'e1')], b=[('set', 'e1'), ('isset', 'e1')], w1=[('wait', 5)]),
    # mixed deadlines: min(own time-out, largest deadline of what is outstanding when wait() looks)
    'timeouts': _sc(None, main=[('new', 'e1', 5, None), ('new', 'e2', 10, None), ('new', 'e3', None, None), ('spawn', ['a', 'w1', 'w2'])],
                    a=[('sleep', 6), ('set', 'e3')], w1=[('wait', 3), ('wait', None)], w2=[('sleep', 7), ('wait', None), ('deadline',)]),
    'zero_default': _sc(0, main=[('new', 'e1', None, None), ('trig', 'e2', 0, 'x'), ('new', 'e3', 4, None), ('deadline',), ('spawn', ['a', 'w1'])],
                        a=[('sleep', 5), ('set', 'e3'), ('deadline',), ('set', 'e1')], w1=[('wait', None), ('wfor',), ('wait', 2)]),
    # set() / clear() of the MultiEvent itself are refused and change nothing
    'direct': _sc(None, main=[('new', 'e1', 5, None), ('spawn', ['a', 'b', 'w1'])],
                  a=[('mforce',), ('set', 'e1'), ('mclear',)], b=[('mclear',), ('queue', 'a1')], w1=[('wait', None), ('mset',)]),
    'stuck': _sc(None, main=[('new', 'e1', None, None), ('spawn', ['w1', 'a'])], w1=[('wait', None)], a=[('wait', 2), ('deadline',)]),
    # an action that takes time (it runs under the lock): creation and waiting meanwhile
    'slow_action': _sc(None, {'a1': 'slow'}, main=[('new', 'e1', None, None), ('queue', 'a1'), ('spawn', ['a', 'b', 'w1'])],
                       a=[('set', 'e1')], b=[('sleep', 1), ('new', 'e2', 5, None), ('set', 'e2')], w1=[('wait', None)]),
}
# which deviation the design model of the unrepaired code predicts for which scenario (MC_MultiEventXCode_asimpl_*)
PREDICTED = {'Dev_IterRace': 'server', 'Dev_SpuriousTimeout': 'server', 'Dev_HalfCreated': 'new_race',
             'Dev_TrueBeforeActions': 'queue_race', 'Dev_IsSetInverted': 'reuse'}


def random_scenario(seed):
    rnd = random.Random(seed)
    dto = rnd.choice([None, 0, 4, 8])
    ids = ['e1', 'e2', 'e3'][:rnd.randint(1, 3)]
    main = [('new' if rnd.random() < 0.5 else 'trig', e, rnd.choice([None, None, 0, 3, 6]), rnd.choice([None, 'n' + e])) for e in ids]
    names = rnd.sample(['a', 'b', 'c', 'w1'], rnd.randint(2, 3))
    threads = {}
    acts = iter(['a1', 'a2', 'a3', 'a4'])
    fresh = iter(['e4', 'e5'])
    for n in names:
        ops = []
        mine = []
        for _ in range(rnd.randint(1, 4)):
            r = rnd.random()
            if r < 0.3:
                ops.append(('set', rnd.choice(ids + mine)))
            elif r < 0.38:
                ops.append(('clear', rnd.choice(ids + mine)))
            elif r < 0.5:
                ops.append(('wait', rnd.choice([None, 0, 1, 2, 5])))
            elif r < 0.58:
                ops.append(('wfor',))
            elif r < 0.64:
                ops.append(('deadline',))
            elif r < 0.7:
                ops.append(('isset', rnd.choice(ids + mine)))
            elif r < 0.72:
                ops.append(('mset',))
            elif r < 0.74:
                ops.append((rnd.choice(['mforce', 'mclear']),))
            elif r < 0.84:
                a = next(acts, None)
                if a:
                    ops.append(('queue', a))
            elif r < 0.92:
                ops.append(('sleep', rnd.choice([1, 2, 4])))
            else:
                e = next(fresh, None)
                if e:
                    mine.append(e)
                    ops.append(('new', e, rnd.choice([None, 2, 4]), None))
        threads[n] = ops
    main.append(('spawn', names))
    if rnd.random() < 0.5:
        main += [('wait', rnd.choice([None, 3])), ('wfor',)]
    return _sc(dto, {'a2': 'raise'} if rnd.random() < 0.4 else {}, main=main, **threads)


def _result(w):
    return {'choices': [c for _, c in w.s.choices], 'trace': w.trace, 'crashes': w.crashes}


def _explore_job(args):
    """(scenario name, 'dfs', max preemptions, max runs) | (.., 'rnd', seed, runs) | ('#seed', 'rscript', seed, runs)"""
    name, mode, p1, p2 = args
    out = []
    if mode == 'dfs':
        sc = SCEN[name]

        class Run:
            def __init__(self, w):
                self.choices = w.s.choices
                self.w = w
        for st in ds.explore(lambda strat: Run(run_scenario(sc, strat)), max_preemptions=p1, max_runs=p2, max_depth=600):
            out.append(_result(st.w))
    elif mode == 'rnd':
        sc = SCEN[name]
        for k in range(p2):
            out.append(_result(run_scenario(sc, ds.RandomStrategy(p1 * 7919 + k, stay=(0.5, 0.7, 0.85)[k % 3]))))
    elif mode == 'rscript':
        for k in range(p2):
            seed = p1 * 100003 + k
            sc = random_scenario(seed)
            r = _result(run_scenario(sc, ds.RandomStrategy(seed, stay=(0.6, 0.8, 0.9)[k % 3])))
            r['seed'] = seed
            r['script'] = sc
            out.append(r)
    return name, mode, out


def _two_pass(traces, cfg='Trace_MultiEventX'):
    """TLC: pass 1 without deviations; the rejected ones again with the named deviations allowed.
    returns (list of verdict per trace: None | ('dev', [names]) | ('rej', l), states, transitions)"""
    verdicts, st, tr = validate_traces('Trace_MultiEventX', traces, cfg + '.cfg', timeout=1500, chunk=3000)
    res = [None] * len(traces)
    bad = [i for i in range(len(traces)) if verdicts[i] is not None]
    if bad:
        v2, st2, tr2, extra = validate_traces('Trace_MultiEventX', [traces[i] for i in bad], cfg + '_dev.cfg',
                                              timeout=1500, chunk=3000, collect=('DEVS',))
        st += st2
        tr += tr2
        devs = {}
        for j, js in extra['DEVS']:
            d = sorted(json.loads(js))
            if j not in devs or len(d) < len(devs[j]):
                devs[j] = d
        for j, i in enumerate(bad):
            if v2[j] is None and devs.get(j):
                res[i] = ('dev', devs[j])
            elif v2[j] is None:
                raise MachineryError('a trace rejected without deviations was accepted with them, using none')
            else:
                res[i] = ('rej', v2[j][0])
    return res, st, tr


def _corrupt_must_be_rejected(trace, mutations):
    """binding self-test: the recording is a behaviour of the contract, no corrupted copy is (one TLC run).
    returns the corruptions that one of the named deviations would explain (they are reported as deviations then)"""
    batch = [trace]
    for _, mutate in mutations:
        bad = json.loads(json.dumps(trace))
        mutate(bad)
        batch.append(bad)
    verdicts, _, _ = _two_pass(batch)
    if verdicts[0] is not None:
        raise MachineryError('Trace_MultiEventX self-test: the uncorrupted recording is rejected')
    excused = []
    for j, (what, _) in enumerate(mutations, 1):
        if verdicts[j] is None:
            raise MachineryError(f'Trace_MultiEventX self-test "{what}": the corrupted recording is accepted')
        if verdicts[j][0] == 'dev':
            excused.append([what] + verdicts[j][1])
    return excused


# recordings of the scenario server_late and of a queued action, as the pinned code produces them without preemption
def _b(th, vt, op, e='', a='', to=0, name=''):
    return {'ev': 'begin', 'op': op, 'e': e, 'a': a, 'to': to, 'name': name, 'th': th, 'vt': vt}


def _r(th, vt, op, ires=0, bres=False, sres=()):
    return {'ev': 'ret', 'op': op, 'exc': '', 'ires': ires, 'bres': bres, 'sres': list(sres), 'th': th, 'vt': vt}


SELFTEST_TRACE = [
    {'ev': 'cfg', 'dto': 30},
    _b('main', 0, 'new', e='e1', name='module m1'), _r('main', 0, 'new', ires=30),
    _b('main', 0, 'new', e='e2', to=50, name='module m2'), _r('main', 0, 'new', ires=50),
    _b('main', 0, 'queue', a='a1'), _r('main', 0, 'queue'),
    _b('main', 0, 'wait', to=30),
    _b('a', 1, 'set', e='e1'), _r('a', 1, 'set'),
    _r('main', 30, 'wait'),
    _b('main', 30, 'wfor'), _r('main', 30, 'wfor', sres=['module m2']),
    _b('main', 30, 'wait', to=0), _r('main', 30, 'wait'),
    _b('main', 30, 'deadline'), _r('main', 30, 'deadline', ires=50),
    _b('main', 30, 'wait', to=INF),
    _b('b', 40, 'set', e='e2'), {'ev': 'act', 'a': 'a1', 'raises': False, 'th': 'b', 'vt': 40}, _r('b', 40, 'set'),
    _r('main', 40, 'wait', bres=True),
    {'ev': 'end', 'vt': 40}]


def _first(tr, **kw):
    return next(i for i, e in enumerate(tr) if all(e.get(k) == v for k, v in kw.items()))


def _late(tr):              # the time-out wait returns one tick late (all later events shifted)
    for e in tr[_first(tr, ev='ret', op='wait'):]:
        e['vt'] += 1


def _early(tr):             # ... one tick early
    j = _first(tr, ev='ret', op='wait')
    for e in tr[j - 2:j + 1]:
        e['vt'] = 29


def _untrue(tr):            # True although a sub-event is outstanding
    tr[_first(tr, ev='ret', op='wait')]['bres'] = True


def _names(tr):             # waiting_for() misses the outstanding module
    tr[_first(tr, ev='ret', op='wfor')]['sres'] = []


def _dline(tr):             # deadline() reports another deadline
    tr[_first(tr, ev='ret', op='deadline')]['ires'] += 1


def _twice(tr):             # the queued action runs twice
    j = _first(tr, ev='act')
    tr.insert(j, dict(tr[j]))


def _never(tr):             # ... never
    del tr[_first(tr, ev='act')]


def _tooearly(tr):          # ... while a sub-event is outstanding (by the thread that set the other one)
    j = _first(tr, ev='act')
    e = tr.pop(j)
    e.update(th='a', vt=1)
    tr.insert(_first(tr, ev='ret', op='set'), e)


def _lostwake(tr):          # the last waiter sleeps on although everything is set: it comes back later
    for e in tr[_first(tr, ev='ret', op='wait', bres=True):]:
        e['vt'] += 3


def _newdl(tr):             # the default time-out is not applied to the first sub-event
    tr[_first(tr, ev='ret', op='new')]['ires'] = INF


def _overstay(tr):          # the last wait is given a limit (45) and still returns True at 40 + 10
    tr[_first(tr, ev='begin', op='wait', to=INF)]['to'] = 15
    for e in tr[_first(tr, ev='begin', op='set', e='e2'):]:
        e['vt'] += 10


SELFTEST_MUTATIONS = (('late', _late), ('early', _early), ('untrue', _untrue), ('names', _names), ('deadline', _dline),
                      ('twice', _twice), ('never', _never), ('tooearly', _tooearly), ('lostwake', _lostwake),
                      ('newdl', _newdl), ('overstay', _overstay))


def _selftest():
    return _corrupt_must_be_rejected(SELFTEST_TRACE, SELFTEST_MUTATIONS)


# ------------------------------------------------------------------ design level

FIXED = ('server', 'queue', 'late', 'new', 'reuse')
MUSTFAIL = {      # configuration -> the property that has to be violated
    'asimpl_iter': 'NoError', 'asimpl_spurious': 'WaitFalseNotEarly', 'asimpl_actions': 'WaitTrueQuiet',
    'asimpl_wfor': 'NoError', 'asimpl_half': 'NoError', 'asimpl_isset': 'IsSetRight', 'asimpl_all': 'NoError',
    'nolock_once': 'ActionsExactlyOnce', 'nolock_flag': 'FlagConsistent', 'nolock_wakeup': 'NoLostWakeup',
}
ACTIONS = ('Next_', 'Finish', 'Sleep', 'N37', 'C94', 'C95', 'C96', 'C97', 'S80', 'S81', 'S82', 'S85', 'S89', 'S90', 'SRel',
           'Q137', 'Q138', 'Q139', 'QRel', 'RAcq', 'D99', 'D100', 'D101', 'D102', 'DRet', 'F117', 'F117b', 'FRet',
           'WAcq', 'W106', 'W110', 'W114', 'WBlk', 'I50', 'Tick')


def _coverage(r):
    from ..core import SPEC
    src = (SPEC / 'MultiEventXCode.tla').read_text().splitlines()
    cnt = {}
    for m in re.finditer(r'<(?:Acts|Next) line \d+, col \d+ to line \d+, col \d+ of module MultiEventXCode '
                         r'\((\d+) \d+ \d+ \d+\)>: (\d+):(\d+)', r.out):
        line = src[int(m.group(1)) - 1]
        nm = re.search(r'\\/ (\w+)\(th\)', line)
        name = nm.group(1) if nm else 'Tick'
        cnt[name] = max(cnt.get(name, 0), int(m.group(3)))
    return cnt


# ------------------------------------------------------------------ design model -> contract

MODEL_INIT = {'server': {'e1': 2, 'e2': 2}, 'late': {'e1': 2, 'e2': 2}, 'new': {'e1': 99}, 'queue': {'e1': 99}, 'reuse': {'e1': 99}}
MODEL_DEVS = {'Dev_IterRace', 'Dev_SpuriousTimeout', 'Dev_TrueBeforeActions', 'Dev_HalfCreated', 'Dev_IsSetInverted'}


def _model_trace(beh, init):
    """a behaviour of MultiEventXCode (events printed by Gen_MultiEventXCode) in the format of the recordings"""
    tr = [{'ev': 'cfg', 'dto': 99}]
    for e, d in sorted(init.items()):
        tr += [_b('main', 0, 'new', e=e, to=d, name=e), _r('main', 0, 'new', ires=d)]
    inside = {}
    last = 0
    for ev in beh:
        ev = dict(ev)
        last = ev['vt']
        if ev['ev'] == 'begin':
            inside[ev['th']] = True
        elif ev['ev'] == 'ret':
            inside.pop(ev['th'], None)
            ev['sres'] = sorted(ev['sres'])
            if ev['op'] == 'deadline' and ev['ires'] == 0:
                ev['ires'] = NODL
        tr.append(ev)
    for th in sorted(inside):
        tr.append({'ev': 'stuck', 'th': th, 'vt': last})
    tr.append({'ev': 'end', 'vt': last})
    return tr


def conformance_thunks(scenarios):
    names = [(m, sc) for sc in scenarios for m in ('fixed', 'asimpl')]
    return names, [lambda m=m, sc=sc: emit_behaviours('Gen_MultiEventXCode', f'Gen_MultiEventXCode_{m}_{sc}.cfg',
                                                       maximal_only=False, timeout=1400) for m, sc in names]


def model_conformance(chk, names, outs):
    """behaviours of the line-level model, projected to observable events, judged by the contract"""
    traces, origin = [], []
    for (m, sc), (r, behs) in zip(names, outs):
        chk.add_tlc(r)
        for b in {json.dumps(_model_trace(b, MODEL_INIT[sc])) for b in behs}:
            traces.append(json.loads(b))
            origin.append((m, sc))
    verdicts, st, trn = _two_pass(traces, 'Trace_MultiEventX_model')
    chk.states += st
    chk.transitions += trn
    seen = {}
    for (m, sc), tr, v in zip(origin, traces, verdicts):
        if v is not None and v[0] == 'rej':
            raise MachineryError(f'the two specifications disagree: a behaviour of MultiEventXCode ({m}, scenario {sc}) is no '
                                 f'behaviour of MultiEventX, even with the named deviations; event {v[1]} of {json.dumps(tr)}')
        if v is not None and m == 'fixed':
            raise MachineryError(f'the repaired design (scenario {sc}) needs the deviations {v[1]}: {json.dumps(tr)}')
        for d in (v[1] if v else ()):
            seen[d] = seen.get(d, 0) + 1
    if not set(seen) <= MODEL_DEVS or not seen:
        raise MachineryError(f'deviations needed by the model of the unrepaired code: {seen}')
    chk.notes['design_model_behaviours_judged_by_contract'] = len(traces)
    chk.notes['deviations_needed_by_the_model_of_the_unrepaired_code'] = seen


# ------------------------------------------------------------------ the check

GEN_DTO = {'wait': 3, 'queue': INF, 'names': 2}


def _corpus():
    from ..core import VERIF
    f = VERIF / 'corpus' / 'X04.json'
    return json.loads(f.read_text()) if f.exists() else []


def _corpus_job(entry):
    return _result(run_scenario(SCEN[entry['scenario']], ds.GuidedStrategy(entry['choices'])))


def run(chk):
    import time as _t
    quick = chk.tier == 'quick'
    tier = 'quick' if quick else 'thorough'
    t0 = _t.time()
    stage = {}
    chk.rule = ('design: reachable states of the line-level model per scenario and switch setting. spec -> code: every '
                'behaviour of Gen_MultiEventX (calls of a driver thread, waits of up to two more threads, ticks) to the '
                'depth bound, replayed on the real class with results / waiting_for() / deadline() / is_set() / actions '
                'run / blocked waiters compared after every step; a case is distinct by its step sequence, non-trivial '
                'if a wait blocked or an action ran. code -> spec: (scenario, schedule) pairs of the real class under '
                'the deterministic scheduler with line-level preemption (bounded-preemption DFS + random schedules of '
                'the scenario catalogue, random scripts with random schedules), each recorded execution validated by '
                'TLC; non-trivial if at least two threads were interleaved')
    for mod in ('MultiEventX', 'MC_MultiEventX', 'Gen_MultiEventX', 'Trace_MultiEventX', 'MultiEventXCode', 'Gen_MultiEventXCode'):
        sany(mod)

    # ---- 1 design level + behaviour emission: independent TLC runs side by side
    fixed = ('server', 'queue', 'late') if quick else FIXED
    must = [c for c in MUSTFAIL if not quick or c not in ('nolock_once', 'asimpl_wfor', 'asimpl_all')]
    gens = ['wait', 'queue', 'names']
    thunks = [lambda: model_check('MC_MultiEventX', f'MC_MultiEventX_{tier}.cfg', timeout=1400, workers=4)]
    for c in fixed:
        thunks.append(lambda c=c: model_check('MultiEventXCode', f'MC_MultiEventXCode_fixed_{c}.cfg', timeout=1400, workers=2,
                                              coverage=not quick))
    if not quick:
        for c in FIXED:
            thunks.append(lambda c=c: model_check('MultiEventXCode', f'MC_MultiEventXCode_live_{c}.cfg', timeout=1400, workers=2))
    n_ok = len(thunks)
    for c in must:
        thunks.append(lambda c=c: run_tlc('MultiEventXCode', f'MC_MultiEventXCode_{c}.cfg', timeout=1400, workers=2))
    for gname in gens:
        thunks.append(lambda gname=gname: emit_behaviours('Gen_MultiEventX', f'Gen_MultiEventX_{tier}_{gname}.cfg',
                                                          maximal_only=False, timeout=1400))
    cnames, cthunks = conformance_thunks(('server', 'late') if quick else ('server', 'late', 'new', 'queue'))
    out = run_parallel(thunks + cthunks, width=8)
    out, cout = out[:len(thunks)], out[len(thunks):]
    for r in out[:n_ok]:
        chk.add_tlc(r)
    for c, r in zip(must, out[n_ok:n_ok + len(must)]):
        if not (r.violated and r.violated[1] == MUSTFAIL[c]):
            raise MachineryError(f'MC_MultiEventXCode_{c}.cfg is expected to violate {MUSTFAIL[c]}: {r.violated or r.error}')
    chk.notes['must_fail_configurations'] = {c: MUSTFAIL[c] for c in must}
    if not quick:       # no vacuity: every statement of the file is executed in some scenario of the repaired design
        cnt = {}
        for r in out[1:1 + len(fixed)]:
            for k, v in _coverage(r).items():
                cnt[k] = cnt.get(k, 0) + v
        never = [a for a in ACTIONS if not cnt.get(a)]
        if never:
            raise MachineryError(f'actions of MultiEventXCode never taken in the repaired design: {never}')
        chk.notes['design_actions_taken'] = len(cnt)
    behs = []
    for gname, (r, b) in zip(gens, out[n_ok + len(must):]):
        chk.add_tlc(r)
        behs += [(x, GEN_DTO[gname]) for x in b]
    model_conformance(chk, cnames, cout)
    stage['tlc'] = round(_t.time() - t0, 1)

    # ---- 2 spec -> code
    step = 1 if quick else 2
    jobs = behs[chk.seed % step::step]
    chk.notes['behaviours_sampled'] = f'1 of {step} of {len(behs)}'
    res = pool_map(_replay_job, jobs)
    n_isset = 0
    for (beh, dto), (bad, isset_bad) in zip(jobs, res):
        chk.impl_traces += 1
        acts = [[s['act'], s['th'], s['e'], s['a'], s['to'], s['name']] for s in beh]
        chk.case(json.dumps([dto, acts]), any(s['exp']['blocked'] or s['exp']['ran'] for s in beh))
        if bad:
            chk.violation({'module': 'MultiEventX', 'replay_field': bad['field'], 'act': bad['act']},
                          {'world': 'gen', 'behaviour': beh, 'dto': dto, **bad})
        if isset_bad:
            n_isset += 1
            chk.violation({'module': 'MultiEventX', 'deviation': 'Dev_IsSetInverted'},
                          {'world': 'gen', 'behaviour': beh, 'dto': dto, 'isset': isset_bad[0]})
    chk.notes['replays_with_wrong_single_is_set'] = n_isset
    if jobs:
        chk.sample({'behaviour': [[s['act'], s['th'], s['e'] or s['a'], s['to']] for s in jobs[len(jobs) // 2][0]]})
    stage['replay'] = round(_t.time() - t0, 1)

    # ---- 3 code -> spec
    ejobs = []
    for name in SCEN:
        ejobs.append((name, 'dfs', 2 if quick else 3, 150 if quick else 3000))
        ejobs.append((name, 'rnd', chk.seed + 1, 60 if quick else 1200))
    nr = 300 if quick else 6000
    for k in range(8):
        ejobs.append(('#', 'rscript', chk.seed * 8 + k + 1, nr // 8))
    runs = []       # (origin, result)
    for name, mode, out_ in pool_map(_explore_job, ejobs, chunksize=1):
        for r in out_:
            org = {'world': 'trace', 'scenario': name, 'choices': r['choices']}
            if mode == 'rscript':
                org['seed'] = r['seed']
                org['script'] = r['script']
            runs.append((org, r))
    corpus = _corpus()
    # schedules that showed a deviation once (the ones the design model predicts): replayed on every run
    for entry, r in zip(corpus, pool_map(_corpus_job, corpus) if corpus else []):
        runs.insert(0, ({'world': 'trace', 'scenario': entry['scenario'], 'choices': r['choices'], 'corpus': entry['deviation']}, r))
    keys = {}
    for i, (org, r) in enumerate(runs):
        keys.setdefault(json.dumps(r['trace']), []).append(i)
    traces = [json.loads(k) for k in keys]
    verdicts, st, trn = _two_pass(traces)
    chk.states += st
    chk.transitions += trn
    count = {}
    reproduced = {}
    corpus_hit = {}
    seen = set()
    for k, v in zip(keys, verdicts):
        for i in keys[k]:
            org, r = runs[i]
            sk = (org['scenario'], org.get('seed'), tuple(org['choices']))
            if sk in seen:
                continue
            seen.add(sk)
            chk.impl_traces += 1
            chk.case(sk, len(set(org['choices'])) > 1)
            detail = dict(org, trace=r['trace'])
            if r['crashes']:
                chk.violation({'module': 'MultiEventX', 'kind': 'crash', 'exc': sorted(r['crashes'].values())[0][:60]},
                              dict(detail, crashes=r['crashes']))
            elif v is None:
                pass
            elif v[0] == 'dev':
                if org.get('corpus') in v[1]:
                    corpus_hit[org['corpus']] = True
                for dev in v[1]:
                    count[dev] = count.get(dev, 0) + 1
                    if PREDICTED.get(dev) == org['scenario']:
                        reproduced[dev] = reproduced.get(dev, 0) + 1
                    chk.violation({'module': 'MultiEventX', 'deviation': dev}, dict(detail, deviations=v[1]))
            else:
                l = v[1]
                ev = r['trace'][l - 1] if 0 < l <= len(r['trace']) else {}
                chk.violation({'module': 'MultiEventX', 'trace_event': ev.get('ev'), 'op': ev.get('op', ev.get('a', '')),
                               'exc': ev.get('exc', ''), 'bres': ev.get('bres', '')},
                              dict(detail, failed_at=l, event=ev))
    chk.notes['schedules'] = len(seen)
    chk.notes['distinct_traces'] = len(traces)
    chk.notes['deviations_needed'] = count
    chk.notes['predicted_by_design_model_and_reproduced'] = reproduced
    chk.notes['corpus_schedules_still_deviating'] = sorted(corpus_hit)
    chk.sample({'trace_prefix': traces[0][:6]})
    stage['traces'] = round(_t.time() - t0, 1)

    # ---- 4 binding self-test: corrupted recordings must be rejected (also with every deviation allowed)
    chk.notes['binding_selftest_explained_by_a_deviation'] = _selftest()
    chk.notes['binding_selftest'] = len(SELFTEST_MUTATIONS)
    stage['selftest'] = round(_t.time() - t0, 1)
    chk.notes['wall_until_end_of_stage'] = stage
    chk.exhaustive = False


def replay(chk, rep):
    d = rep['detail']
    if d.get('world') == 'gen':
        bad, isset_bad = replay_behaviour(d['behaviour'], d['dto'])
        for st in d['behaviour']:
            print({k: v for k, v in st.items() if k != 'exp'})
        print('->', json.dumps(bad, indent=1), json.dumps(isset_bad[:2]))
    elif d.get('world') == 'trace':
        sc = d.get('script') or SCEN[d['scenario']]
        w = run_scenario(sc, ds.GuidedStrategy(d['choices']))
        for j, e in enumerate(w.trace, 1):
            print(j, e)
        print('crashes', w.crashes, 'failed_at', d.get('failed_at'), 'deviations', d.get('deviations'))
    else:
        print(json.dumps(d, indent=1)[:3000])
    return 0
