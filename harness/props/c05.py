"""C05 - The update stream always reconstructs the node's parameter cache.

spec/ParamCache.tla (sequential funnel), spec/ParamCacheConc.tla (PlusCal, code granularity).  Binding:
  spec -> code : Gen_ParamCache enumerates (a) ALL histories over the operation alphabet to a depth and
                 (b) one behaviour per transition of the abstract state graph (deep histories); each is
                 replayed on real Module subclasses (parameter datatypes rotate through a catalogue) +
                 real Dispatcher + activated fake connections under a virtual clock; cache, wire view,
                 delivered messages and the client-side replay are compared after every step.
  code -> spec : seeded random long histories (more parameters / values / errors / window sizes / scopes)
                 and controlled multi-thread executions (pause points in driver functions and in
                 send_reply; one event per critical section of updateLock = linearisation order) are
                 recorded and validated by Trace_ParamCache (TLC).
"""
import json
import random
import threading
import time as _time

from ..core import MachineryError, emit_behaviours, model_check, pool_map, run_tlc, sany, validate_traces
from ..env import LoggerStub, ServerStub, boot

META = {
    'text': 'TLC model-checks the funnel design (every way the cache changes x suppression windows x subscription '
            'scopes over two modules, unexported parameters, activate / deactivate / ident, explicit timestamps, '
            'nested reads, operations that must change nothing) and, at code granularity in PlusCal, all '
            'interleavings of 2-3 threads doing reads/writes/assignments/error announcements (StreamReconstructs, '
            'Ordered, NotifyUnderLock; the same model without the update lock must fail). Every history TLC '
            'enumerates (all histories to a depth + one per transition of the abstract state graph) is replayed on '
            'real Module subclasses over a datatype catalogue with a real Dispatcher and fake connections under a '
            'virtual clock at a realistic epoch; cache, message stream, its client-side replay and internal '
            'parameter callbacks are compared with the specification after every step. Seeded random long '
            'histories and controlled multi-thread executions are validated by TLC against Trace_ParamCache. '
            'Bounded (depth, 2-4 parameters, 2-4 values, 3 connections, <=3 threads), exhaustive inside the Gen bound.',
    'note': 'Trusted: TLC; the alpha/gamma tables of harness/props/c05.py (value/error interning, virtual clock '
            'rebinding of the time source in frappy.modulebase, instrumented accessLock/updateLock objects). '
            'Thread schedules are controlled at pause points (driver functions, send_reply) and lock hand-over, '
            'not at line level (c05_sched.py does that for the activation races). The suppression clauses follow '
            'the documented semantics of update_unchanged / omit_unchanged_within; a value that was never stamped '
            'counts as infinitely old.',
    'tech': 'TLA+ / PlusCal specs (ParamCache.tla, ParamCacheConc.tla) + TLC model checking; spec->code replay of '
            'TLC-enumerated behaviours; code->spec TLC trace validation incl. controlled real threads',
    'ref': 'DESIGN.md section 5 C05',
}

NEVER = 999999999
EPOCH = 1700000000.0     # the virtual clock runs at a realistic absolute time
MOD = 'm'
MOD2 = 'm2'      # the name of the first module is a prefix of the second one's (subscription keys 'm', 'm2', 'm2:_p')

# ------------------------------------------------------------------ virtual clock


class Clock:
    """stands in for the `time` module / `time.time` inside frappy"""
    now = 1.0

    def __getattr__(self, name):
        return getattr(_time, name)

    @staticmethod
    def time():
        return Clock.now


_clock = Clock()
_patched = False


def patch_clock():
    """rebind whatever name frappy's modules use for the time source (import time / from time import time as x)"""
    global _patched
    if _patched:
        return
    _patched = True
    import sys
    import frappy.modulebase
    import frappy.params
    import frappy.protocol.dispatcher
    hit = 0
    for name, mod in list(sys.modules.items()):
        if not name.startswith('frappy.') or mod is None:
            continue
        for k, v in list(vars(mod).items()):
            if v is _time:
                setattr(mod, k, _clock)
                hit += name == 'frappy.modulebase'
            elif v is _time.time:
                setattr(mod, k, Clock.time)
                hit += name == 'frappy.modulebase'
    if not hit:
        raise MachineryError('no time source found in frappy.modulebase to rebind')


# ------------------------------------------------------------------ catalogue (gamma)

_cat = None
_alpha = {}


def _catalogue():
    global _cat
    if _cat is None:
        _cat = _catalogue0()
    return _cat


def _catalogue0():
    from frappy.datatypes import ArrayOf, BLOBType, BoolType, EnumType, FloatRange, IntRange, \
        ScaledInteger, StringType, StructOf, TupleOf
    # name: (factory, {id: [canonical-raw, other raw representations ...]}, {id: write-only raw reps},
    #        {invalid id: raw})
    return {
        'float': (lambda: FloatRange(0, 10),
                  {'a': [1.0, 1, True], 'b': [10.0, 10], 'c': [0.0, 0, False], 'd': [2.5]},
                  {'b': [10.000001]}, {'i1': 'x', 'i2': None}),
        'int': (lambda: IntRange(0, 10), {'a': [1, 1.0, True], 'b': [2, 2.0], 'c': [0, 0.0, False], 'd': [10, 10.0]},
                {}, {'i1': 1.5, 'i2': 'x'}),
        'scaled': (lambda: ScaledInteger(0.5, 0, 10), {'a': [1.0, 1, 1.1], 'b': [2.5, 2.4], 'c': [0.0, 0, 0.2], 'd': [10.0, 10]},
                   {'d': [10.2]}, {'i1': 'x', 'i2': None}),
        'enum': (lambda: EnumType('e', off=0, on=1, busy=2, fault=5), {'a': [1, 'on'], 'b': [0, 'off'], 'c': [2, 'busy'], 'd': [5, 'fault']},
                 {}, {'i1': 7, 'i2': 'nope'}),
        'bool': (lambda: BoolType(), {'a': [True, 1, 1.0], 'b': [False, 0, 0.0]},
                 {}, {'i1': 2, 'i2': 'x'}),
        'string': (lambda: StringType(), {'a': ['x'], 'b': [''], 'c': ['y'], 'd': ['x ']},
                   {}, {'i1': 5, 'i2': b'x'}),
        'blob': (lambda: BLOBType(0, 4), {'a': [b'\x00'], 'b': [b''], 'c': [b'ab'], 'd': [b'\xff\x00']},
                 {}, {'i1': 'x', 'i2': b'12345'}),
        'tuple': (lambda: TupleOf(IntRange(), StringType()),
                  {'a': [(1, 'x'), [1, 'x'], (1.0, 'x')], 'b': [(2, 'x'), [2, 'x']], 'c': [(1, ''), [True, '']], 'd': [(0, 'y')]},
                  {}, {'i1': (1,), 'i2': (1, 2)}),
        'array': (lambda: ArrayOf(FloatRange(), 0, 3),
                  {'a': [(1.0, 2.0), [1, 2]], 'b': [(), []], 'c': [(1.0,), [1]], 'd': [(2.0, 1.0), [2, 1]]},
                  {}, {'i1': [1, 2, 3, 4], 'i2': 5}),
        'struct': (lambda: StructOf(optional=[], x=IntRange(), y=BoolType()),
                   {'a': [{'x': 1, 'y': True}, {'x': 1.0, 'y': 1}], 'b': [{'x': 2, 'y': True}],
                    'c': [{'x': 1, 'y': False}, {'y': 0, 'x': 1}], 'd': [{'x': 0, 'y': False}]},
                   {}, {'i1': {'x': 1}, 'i2': 5}),
        'status': (lambda: TupleOf(EnumType('s', idle=100, busy=300, error=400), StringType()),
                   {'a': [(100, ''), ('idle', ''), [100, '']], 'b': [(300, 'moving'), ('busy', 'moving')],
                    'c': [(100, 'ok')], 'd': [(400, '')]},
                   {}, {'i1': (200, ''), 'i2': 'idle'}),
        'nested': (lambda: ArrayOf(StructOf(optional=[], k=StringType(), v=TupleOf(IntRange(), FloatRange())), 0, 2),
                   {'a': [({'k': 'x', 'v': (1, 1.0)},), [{'k': 'x', 'v': [1, 1]}]], 'b': [(), []],
                    'c': [({'k': 'x', 'v': (1, 2.0)},)], 'd': [({'k': 'x', 'v': (1, 1.0)}, {'k': 'x', 'v': (1, 1.0)})]},
                   {}, {'i1': [{'k': 'x'}], 'i2': 'x'}),
    }


DTNAMES = ['float', 'int', 'scaled', 'enum', 'bool', 'string', 'blob', 'tuple', 'array', 'struct', 'status', 'nested']


def _errors():
    from frappy.errors import CommunicationFailedError, HardwareError
    return {'e1': lambda: CommunicationFailedError('no reply'),
            'e2': lambda: CommunicationFailedError('other text'),     # same class as e1, other arguments
            'e3': lambda: ValueError('odd'),                           # not a SECoPError
            'e4': lambda: HardwareError('sensor broken')}


def typed(x):
    """value with the python types made explicit (1 / 1.0 / True, list / tuple, 'on' / member differ)"""
    if isinstance(x, dict):
        return ('D', type(x).__name__, tuple(sorted((k, typed(v)) for k, v in x.items())))
    if isinstance(x, (list, tuple)):
        return ('S', type(x).__name__, tuple(typed(v) for v in x))
    return (type(x).__name__, repr(x))


# ------------------------------------------------------------------ instrumented locks / mini scheduler

class Ctl:
    """thread states for controlled executions; all lock state is protected by cv"""

    def __init__(self):
        self.cv = threading.Condition()
        self.state = {}       # thread ident -> running | paused | blocked | idle | done
        self.resume = {}
        self.where = {}
        self.blocked = {'accessLock': 0, 'updateLock': 0}

    def me(self):
        return threading.get_ident()

    def controlled(self):
        return self.me() in self.state

    def pause(self, where):
        me = self.me()
        with self.cv:
            self.state[me] = 'paused'
            self.where[me] = where
            self.cv.notify_all()
            while not self.resume.get(me):
                self.cv.wait()
            self.resume[me] = False

    def wait_stable(self, timeout=20):
        end = _time.time() + timeout
        with self.cv:
            while any(s == 'running' for s in self.state.values()):
                left = end - _time.time()
                if left <= 0:
                    raise MachineryError(f'controlled threads do not settle: {self.state} {self.where}')
                self.cv.wait(left)


class CtlLock:
    """reentrant lock with FIFO hand-over whose waiting/owning threads are visible to the controller"""

    def __init__(self, world, name):
        self.world = world
        self.ctl = world.ctl
        self.name = name
        self.owner = None
        self.depth = 0
        self.waiters = []

    def acquire(self, blocking=True, timeout=-1):
        ctl = self.ctl
        me = ctl.me()
        with ctl.cv:
            if self.owner == me:
                self.depth += 1
                return True
            if self.owner is not None:
                if not blocking:
                    return False
                self.waiters.append(me)
                if me in ctl.state:
                    ctl.state[me] = 'blocked'
                    ctl.where[me] = self.name
                    ctl.blocked[self.name] += 1
                    ctl.cv.notify_all()
                while self.owner != me:
                    ctl.cv.wait()
            else:
                self.owner = me
            self.depth = 1
        if self.name == 'updateLock':
            self.world.cs_begin()
        return True

    def release(self):
        ctl = self.ctl
        if self.depth == 1 and self.name == 'updateLock':
            self.world.cs_end()
        with ctl.cv:
            self.depth -= 1
            if self.depth == 0:
                self.owner = None
                if self.waiters:
                    self.owner = self.waiters.pop(0)
                    if self.owner in ctl.state:
                        ctl.state[self.owner] = 'running'
                ctl.cv.notify_all()

    def held(self):
        return self.owner == self.ctl.me()

    __enter__ = acquire

    def __exit__(self, *args):
        self.release()


class WindowMismatch(Exception):
    """the suppression window a parameter got is not the one its settings ask for"""


class RConn:
    """fake connection: records (sender thread, inside the module's updateLock?) with every message"""

    def __init__(self, name, world):
        self.name = name
        self.world = world
        self.msgs = []
        world.srv.dispatcher.add_connection(self)

    def send_reply(self, msg):
        w = self.world
        me = threading.get_ident()
        lock = w.locks.get(str(msg[1]).partition(':')[0]) if len(msg) > 1 else None
        self.msgs.append((msg, me, lock.held() if lock and not w.activating else None))
        p = w.pause_send.get(me)
        if p == self.name:
            w.pause_send[me] = None
            w.ctl.pause('send:' + self.name)

    def __repr__(self):
        return f'RConn({self.name})'


class CbConn:
    """the receiving end of internal parameter callbacks (Module.addCallback), kept like a connection: every
    callback invocation is turned into the update message a connection would have got"""

    def __init__(self, world):
        self.name = 'cb'
        self.world = world
        self.msgs = []

    def callback(self, p, value, err=None):
        w = self.world
        pobj = w.mobj[p].parameters[p]
        t = {'t': pobj.timestamp} if pobj.timestamp else {}
        spec = f'{w.mname[p]}:{pobj.export}'
        if err is not None:
            msg = ('error_update', spec, [err.name, str(err), t])
        else:
            msg = ('update', spec, [pobj.datatype.export_value(value), t])
        self.msgs.append((msg, threading.get_ident(), w.locks[w.mname[p]].held()))


class _Log(LoggerStub):
    propagate = False      # (setRemoteLogging walks up the logger chain on ident / disconnect)


def _raising_callback(*args):
    raise RuntimeError('a callback of another module fails')


# ------------------------------------------------------------------ the world (real frappy objects)

_classes = {}


def _module_class(key, specs):
    """real Module subclass with one parameter per spec (name, datatype name, start, update_unchanged, kind, export)
    kind: rw (read_* and write_*), hrw (read_* generated by a CommonReadHandler, write_*), noread (write_* only),
    const (constant, no driver methods)"""
    if key in _classes:
        return _classes[key]
    from frappy.modules import Module, Parameter
    cat = _catalogue()

    def mk_read(p):
        def read(self):
            return self.drv('r', p, None)
        read.__name__ = 'read_' + p
        return read

    def mk_hread(p):
        """read method generated by CommonReadHandler: the function assigns what the hardware delivered"""
        from frappy.rwhandler import CommonReadHandler

        def read_all(self):
            setattr(self, p, self.drv('r', p, None))
        read_all.__qualname__ = f'hread_{p}_{len(_classes)}_{key[:40]!r}'
        return CommonReadHandler([p])(read_all)

    def mk_write(p):
        def write(self, value):
            return self.drv('w', p, value)
        write.__name__ = 'write_' + p
        return write

    def drv(self, kind, p, value):
        w = self.world
        me = threading.get_ident()
        w.drv_calls.append((kind, p, value))
        if w.pause_drv.get(me):
            w.pause_drv[me] = False
            w.ctl.pause('drv:' + p)
        what, x = w.script[(me, kind, p)]
        if what == 'raise':
            raise x
        if what == 'nested':        # this driver reads another parameter first (its failure propagates)
            inner, ret = x
            getattr(self, 'read_' + inner)()
            return ret
        return x

    attrs = {'drv': drv, 'world': None}
    for p, dtname, start, uu, kind, export in specs:
        fac, vals, _, _ = cat[dtname]
        kw = {'export': export}
        if kind == 'const':
            kw['constant'] = vals[start[0]][0]
        elif start:       # (value id, stamped?): value= is announced (stamped) at construction, default= is not
            kw['value' if start[1] else 'default'] = vals[start[0]][0]
        if uu is not None:
            kw['update_unchanged'] = uu
        attrs[p] = Parameter(p, fac(), readonly=False, **kw)
        if kind == 'rw':
            attrs['read_' + p] = mk_read(p)
        if kind == 'hrw':
            attrs['hread_' + p] = mk_hread(p)
        if kind != 'const':
            attrs['write_' + p] = mk_write(p)
    cls = type('M_' + str(len(_classes)), (Module,), attrs)
    _classes[key] = cls
    return cls


class World:
    """one or two modules (`m`, `m2`) on a real dispatcher, fake connections, instrumented locks"""

    def __init__(self, init, shape):
        """init: first record of a behaviour/trace (omit, sub, nodefault, hidden, mod2, c);
        shape: {dts, how, kind, exp, unit, epoch, cbs} - how the abstract world is realised"""
        boot()
        patch_clock()
        from frappy.lib import generalConfig
        from frappy.modulebase import PollInfo
        self.cat = _catalogue()
        self.errs = _errors()
        self.params = sorted(init['omit'])
        self.hidden = set(init.get('hidden', ()))
        self.dts = shape['dts']
        self.kind = {p: shape.get('kind', {}).get(p, 'rw') for p in self.params}
        self.unit = shape.get('unit', 1.0)
        self.epoch = shape.get('epoch', EPOCH)
        self.ctl = Ctl()
        self.locks = {}
        self.script = {}
        self.drv_calls = []
        self.pause_drv = {}
        self.pause_send = {}
        self.cur = {}          # thread -> op being executed
        self.cs_now = {}       # thread -> clock reading when it entered the critical section
        self.cs_count = 0
        self.events = []       # critical sections in linearisation order
        self.last_err = {}
        self.activating = False
        self.drifted = False
        self.nested_outer = set()   # parameters whose cached error came through a nested read
        self.tname = {}
        Clock.now = self.t2c(init.get('now', 1))
        self.mname = {p: MOD2 if p in init.get('mod2', ()) else MOD for p in self.params}
        self.srv = ServerStub()
        self.mods = {}
        how = dict(shape.get('how', {}))
        omit = init['omit']
        for modname in sorted(set(self.mname.values())):
            mine = [p for p in self.params if self.mname[p] == modname]
            # how the suppression window is configured: on the parameter, the module property, or generalConfig
            finite = [p for p in mine if omit[p] != NEVER]
            modval = next((omit[p] for p in finite if how.get(p) == 'module'), None)
            genval = None if modval is not None else next((omit[p] for p in finite if how.get(p) == 'general'), None)
            specs = []
            for p in mine:
                om, h = omit[p], how.get(p, 'param')
                if om == NEVER:
                    uu = 'never'
                elif h == 'module' and om == modval:
                    uu = None                   # 'default': taken from the module property
                elif h == 'general' and om == genval:
                    uu = None                   # 'default': taken from generalConfig
                elif h == 'always' and om == 0:
                    uu = 'always'
                else:
                    uu = float(om * self.unit)
                export = False if p in self.hidden else shape.get('exp', {}).get(p, True)
                specs.append((p, self.dts[p], None if p in init['nodefault'] else (init['c'][p][0], init['c'][p][2]),
                              uu, self.kind[p], export))
            cls = _module_class(json.dumps(specs), specs)
            cfg = {'description': ''}
            if modval is not None:
                cfg['omit_unchanged_within'] = modval * self.unit
            saved = generalConfig._config.get('omit_unchanged_within')
            generalConfig._config['omit_unchanged_within'] = 0 if genval is None else genval * self.unit
            try:
                from frappy.logging import RemoteLogHandler
                log = _Log()
                log.handlers = [RemoteLogHandler()]
                mobj = cls(modname, log, cfg, self.srv)
            finally:
                generalConfig._config['omit_unchanged_within'] = saved
            mobj.world = self
            mobj.pollInfo = PollInfo(5, threading.Event())
            self.srv.secnode.add_module(mobj, modname)
            self.locks[modname] = mobj.updateLock = CtlLock(self, 'updateLock')
            mobj.accessLock = CtlLock(self, 'accessLock')
            self.mods[modname] = mobj
        self.mobj = {p: self.mods[self.mname[p]] for p in self.params}
        self.m = self.mods[MOD]
        for p in self.params:
            got = self.mobj[p].parameters[p].omit_unchanged_within
            want = NEVER if omit[p] == NEVER else omit[p] * self.unit
            if got != want:
                raise WindowMismatch(f'{p}: update_unchanged / omit_unchanged_within give a window of {got!r}, not {want!r} '
                                     f'(how: {how.get(p)}, parameter setting {dict((q[0], q[3]) for q in specs).get(p)!r})')
        # alpha tables
        self.canon = {}
        self.avail = {p: sorted(self.cat[self.dts[p]][1]) for p in self.params}
        self.wirecanon = {}
        self.inverr = {}
        self.expname = {}
        for p in self.params:
            pobj = self.mobj[p].parameters[p]
            dt = pobj.datatype
            self.expname[(self.mname[p], pobj.export)] = p
            if (p, self.dts[p]) not in _alpha:
                fac, vals, _, invs = self.cat[self.dts[p]]
                canon = [(v, typed(dt(reps[0]))) for v, reps in vals.items()]
                wire = [(v, json.dumps(dt.export_value(dt(reps[0])), sort_keys=True)) for v, reps in vals.items()]
                if len({c for _, c in canon}) != len(canon) or len({c for _, c in wire}) != len(wire):
                    raise MachineryError(f'catalogue values of {self.dts[p]} are not distinct')
                inverr = {}
                for i, raw in invs.items():
                    try:
                        dt(raw)
                    except Exception as e:
                        inverr[self._errkey(e)] = i
                    else:
                        raise MachineryError(f'catalogue: {raw!r} is not invalid for {self.dts[p]}')
                _alpha[(p, self.dts[p])] = canon, wire, inverr
            self.canon[p], self.wirecanon[p], inv = _alpha[(p, self.dts[p])]
            for k, i in inv.items():
                self.inverr[(p, k)] = i
        self.errkey = {}
        from frappy.errors import secop_error
        for e, mk in self.errs.items():
            self.errkey[self._errkey(secop_error(mk()))] = e
        for p in init['nodefault']:
            self.errkey[self._errkey(self.mobj[p].parameters[p].readerror)] = 'init'
        self.conns = {c: RConn(c, self) for c in sorted(init['sub']) if c != 'cb'}
        self.reqconn = RConn('rq', self)
        # internal callbacks: a failing one first (it must not disturb anything), then the recording one
        for p, what in sorted(shape.get('cbs', {}).items()):
            if what == 'raise' and p in self.params:
                self.mobj[p].addCallback(p, _raising_callback)
        if 'cb' in init['sub']:
            cb = self.conns['cb'] = CbConn(self)
            for p in init['sub']['cb']:
                self.mobj[p].addCallback(p, cb.callback, p)
        self.folded = {c: {} for c in self.conns}     # client-side replay of the stream
        self.taken = {c: 0 for c in self.conns}
        for c in sorted(init['sub']):
            for sc in sorted(init['sub'][c]):
                if c == 'cb':        # a callback gets no snapshot: it starts from what the cache holds
                    from frappy.protocol.dispatcher import make_update
                    self.folded[c][sc] = self.decode(make_update(self.mname[sc], self.mobj[sc].parameters[sc]))[1]
                else:
                    self.activate(c, sc)
        self.collect()

    # -- clock mapping: abstract tick t <-> clock value
    def t2c(self, t):
        return self.epoch + t * self.unit

    def c2t(self, ts):
        if not ts:
            return 0
        t = (ts - self.epoch) / self.unit
        return int(t) if t == int(t) else repr(ts)

    def tick(self, n):
        Clock.now = self.t2c(self.c2t(Clock.now) + n)

    def now(self):
        return self.c2t(Clock.now)

    # -- alpha
    @staticmethod
    def _errkey(e):
        return (getattr(e, 'name', type(e).__name__), str(e))

    def val_id(self, p, value):
        tv = typed(value)
        for v, c in self.canon[p]:
            if c == tv:
                return v
        return 'raw:' + repr(value)[:40]

    def wire_id(self, p, data):
        s = json.dumps(data, sort_keys=True)
        for v, c in self.wirecanon[p]:
            if c == s:
                return v
        return 'raw:' + s[:40]

    def err_id(self, p, name, text):
        """error report -> error id; a report carrying the context of a nested read ('in m.read_x: text')
        is the nested rendering n<k> of error e<k>"""
        k = (name, text)
        e = self.errkey.get(k) or self.inverr.get((p, k))
        if e:
            return e
        if self.drifted:
            # a recorded defect has already changed stored error reports in this world (and was reported):
            # keep comparing everything else by reading through any number of context prefixes
            while _NESTED.match(text):
                text = _NESTED.match(text).group(3)
            e = self.errkey.get((name, text)) or self.inverr.get((p, (name, text)))
            if e:
                return NESTED_ID.get(e, e) if nested_expected(self, p) else e
        mt = _NESTED.match(text)
        if mt and mt.group(1) in self.mods and mt.group(2) in self.params and mt.group(2) != p:
            e = self.errkey.get((name, mt.group(3))) or self.inverr.get((mt.group(2), (name, mt.group(3))))
            if e in NESTED_ID:
                return NESTED_ID[e]
        return f'other:{name}:{text}'[:80]

    def decode(self, msg):
        """update / error_update message -> (parameter, view)"""
        action, spec, data = msg
        modname, _, ename = spec.partition(':')
        p = self.expname.get((modname, ename), f'{modname}:{ename}')
        if p not in self.canon:
            return p, ['?', str(action), 0]
        if action == 'update':
            return p, ['v', self.wire_id(p, data[0]), self.c2t(data[1].get('t'))]
        if action == 'error_update':
            return p, ['e', self.err_id(p, data[0], data[1]), self.c2t(data[2].get('t'))]
        return p, ['?', str(action), 0]

    def cache_view(self):
        """c: the cache by its fields (value by typed equality, error by class+arguments);
        w: the cache as the dispatcher would put it on the wire now (make_update); not for unexported ones"""
        c, w = {}, {}
        from frappy.protocol.dispatcher import make_update
        for p in self.params:
            pobj = self.mobj[p].parameters[p]
            if pobj.readerror:
                c[p] = ['-', self._int_err(p, pobj.readerror), self.c2t(pobj.timestamp)]
            else:
                c[p] = [self.val_id(p, pobj.value), 'ok', self.c2t(pobj.timestamp)]
            if p in self.hidden:
                w[p] = ['-', '-', 0]
                continue
            try:
                w[p] = self.decode(make_update(self.mname[p], pobj))[1]
            except Exception as e:
                w[p] = ['?', 'make_update raised ' + repr(e)[:60], 0]
        return c, w

    def _int_err(self, p, err):
        """identity of the cached error by class and arguments (not by its rendering)"""
        from frappy.errors import secop_error
        for e, mk in self.errs.items():
            if secop_error(mk()) == err:
                return e
        k = (getattr(err, 'name', '?'), str(err.args[0]) if err.args else '')
        if (p, k) in self.inverr:
            return self.inverr[(p, k)]
        for q in self.params:               # (a nested read hands the validation error of the inner parameter on)
            if (q, k) in self.inverr:
                return NESTED_ID[self.inverr[(q, k)]]
        if type(err).__name__ == 'ConfigError' and 'not initialized' in str(err.args[:1]):
            return 'init'
        return f'other:{type(err).__name__}:{err.args}'[:80]

    def collect(self, only_thread=None):
        """new messages per connection and parameter (decoded), fold them into the client-side replay"""
        out = {}
        unlocked = stray = 0
        for c, conn in self.conns.items():
            per = {p: [] for p in self.params}
            msgs = conn.msgs[self.taken[c]:]
            self.taken[c] = len(conn.msgs)
            for msg, th, held in msgs:
                if msg[0] in ('update', 'error_update'):
                    p, view = self.decode(msg)
                    if p not in per or p in self.hidden:
                        stray += 1              # a message for something that is no exported parameter
                        continue
                    per[p].append(view)
                    self.folded[c][p] = view
                    if held is False:
                        unlocked += 1
            out[c] = per
        return out, unlocked, stray

    def observe(self, op):
        c, w = self.cache_view()
        out, unlocked, stray = self.collect()
        seen = {cn: {p: self.folded[cn].get(p, ['-', '-', 0]) for p in self.params} for cn in self.conns}
        return {'op': op, 'now': self.now(), 'c': c, 'w': w, 'o': out, 's': seen, 'unl': unlocked, 'x': stray}

    # -- critical sections (linearisation points)
    def cs_begin(self):
        self.cs_now[threading.get_ident()] = self.now()
        self.cs_count += 1

    def cs_end(self):
        me = threading.get_ident()
        op = self.cur.get(me)
        if op is not None:          # controlled-thread mode: the event is taken inside the lock
            ev = self.observe(op)
            ev['now'] = self.cs_now[me]
            ev['lk'] = True
            ev['th'] = self.tname.get(me, '?')
            self.events.append(ev)
            self.cur[me] = None

    # -- gamma: execute one abstract operation on the real objects
    def spec_of(self, sc):
        if sc == 'all':
            return None
        if sc == 'mod':
            return MOD
        if sc == 'mod2':
            return MOD2
        return f'{self.mname[sc]}:{self.mobj[sc].parameters[sc].export}'

    def activate(self, c, sc):
        spec = self.spec_of(sc)
        self.activating = True
        try:
            rep = self.srv.dispatcher.handle_request(self.conns[c], ('activate', spec, None))
        finally:
            self.activating = False
        if rep[0] != 'active':
            raise MachineryError(f'activate {spec} -> {rep}')

    def raw(self, p, v, rnd, path, force=None):
        """a raw python representation of abstract value v; returns (raw, kind)"""
        _, vals, wonly, _ = self.cat[self.dts[p]]
        reps = list(vals[v])
        if path == 'w':
            reps += wonly.get(v, [])
        k = force if force is not None else rnd.randrange(len(reps))
        k = min(k, len(reps) - 1)
        dt = self.mobj[p].parameters[p].datatype
        r = reps[k]
        if force == 0 or (force is None and rnd.random() < 0.3):
            r = dt(reps[0])            # the validated object itself (EnumMember, ImmutableDict ...)
        kind = 'canon' if typed(r) == typed(dt(reps[0])) else 'raw'
        return r, kind

    def new_error(self, p, x, ch, pick):
        eo = pick('errobj', ['fresh', 'reused'], [30, 1])
        e = self.last_err.get((p, x)) if eo == 'reused' else None
        if e is not None and set(getattr(e, 'raising_methods', None) or ()) - {f'{self.mname[p]}.read_{p}'}:
            e = None        # (an object that went through a nested read carries foreign context: not reused)
        if e is None:
            e = self.errs[x]()
            ch['errobj'] = 'fresh'
        self.last_err[(p, x)] = e
        return e

    def execute(self, op, rnd, forced=None):
        """perform op; returns dict of the concrete choices made (goes into signatures / replays)"""
        me = threading.get_ident()
        a, p, x, y = op['a'], op['p'], op['x'], op['y']
        m = self.mobj.get(p)
        disp = self.srv.dispatcher
        ch = dict(forced or {})
        exc = None
        expect_exc = False
        pick = lambda key, options, weights=None: ch.setdefault(
            key, rnd.choices(options, weights)[0] if weights else rnd.choice(options))
        rspec = lambda q: f'{self.mname[q]}:{self.mobj[q].parameters[q].export}'
        if a == 'Tick':
            self.tick(op['n'])
        elif a == 'Activate':
            self.activate(p, x)
        elif a == 'Deactivate':
            rep = disp.handle_request(self.conns[p], ('deactivate', self.spec_of(x), None))
            if rep[0] != 'inactive':
                raise MachineryError(f'deactivate {x} -> {rep}')
        elif a == 'Drop':
            how = pick('how', ['ident', 'disconnect'])
            if how == 'ident':
                disp.handle_request(self.conns[p], ('*IDN?', None, None))
            else:
                disp.remove_connection(self.conns[p])
                disp.add_connection(self.conns[p])      # (the same fake connection object comes back later)
        elif a == 'WriteNested':      # write_<y> reads <p> back, which fails
            if x in self.errs:
                self.script[(me, 'r', p)] = ('raise', self.new_error(p, x, ch, pick))
            else:
                self.script[(me, 'r', p)] = ('ret', self.cat[self.dts[p]][3][x])
            ch['errkind'] = 'secop' if x != 'e3' else 'other'
            self.script[(me, 'w', y)] = ('nested', (p, None))
            expect_exc = True
            try:
                getattr(self.mobj[y], 'write_' + y)(self.raw(y, self.avail[y][0], rnd, 'w')[0])
            except Exception as e:
                exc = e
        elif a in ('ReadOk', 'ReadRaise', 'ReadInvalid', 'ReadNested'):
            via = pick('via', ['direct', 'poll', 'request'], [6, 2, 2] if a == 'ReadOk' else [16, 4, 4])
            target = y if a == 'ReadNested' else p
            if via == 'request' and target in self.hidden:
                via = ch['via'] = 'direct'      # an unexported parameter cannot be requested
            if a == 'ReadOk':
                r, ch['rep'] = self.raw(p, x, rnd, 'r', ch.get('repk'))
                self.script[(me, 'r', p)] = ('ret', r)
            elif a == 'ReadInvalid':
                self.script[(me, 'r', p)] = ('ret', self.cat[self.dts[p]][3][x])
                expect_exc = True
            elif a == 'ReadRaise':
                self.script[(me, 'r', p)] = ('raise', self.new_error(p, x, ch, pick))
                expect_exc = True
            else:       # read_<y> reads <p> first
                if x in self.errs or x in self.cat[self.dts[p]][3]:
                    if x in self.errs:
                        self.script[(me, 'r', p)] = ('raise', self.new_error(p, x, ch, pick))
                    else:       # the inner read delivers a value its datatype refuses
                        self.script[(me, 'r', p)] = ('ret', self.cat[self.dts[p]][3][x])
                    self.script[(me, 'r', y)] = ('nested', (p, None))
                    self.nested_outer.add(y)
                    expect_exc = True
                    ch['errkind'] = 'secop' if x != 'e3' else 'other'
                else:
                    self.script[(me, 'r', p)] = ('ret', self.raw(p, x, rnd, 'r')[0])
                    self.script[(me, 'r', y)] = ('nested', (p, self.raw(y, x, rnd, 'r')[0]))
            tm = self.mobj[target]
            try:
                if via == 'direct':
                    getattr(tm, 'read_' + target)()
                elif via == 'poll':
                    tm.callPollFunc(getattr(tm, 'read_' + target))
                    expect_exc = False
                else:
                    disp.handle_request(self.reqconn, ('read', rspec(target), None))
            except Exception as e:
                exc = e
        elif a == 'Write':
            dt = m.parameters[p].datatype
            via = pick('via', ['direct', 'request', 'init'], [5, 2, 1])
            if via == 'request' and (self.dts[p] in ('array', 'nested') or p in self.hidden):
                via = ch['via'] = 'direct'   # ArrayOf.validate(previous=..) truncates (C01 finding): stay independent
            if x == y:
                ret = pick('ret', ['none', 'canon', 'value'], [3, 1, 1])
            else:
                ret = ch.setdefault('ret', 'value')
            r, ch['rep'] = self.raw(p, x, rnd, 'w', ch.get('repk'))
            if ret == 'none':
                self.script[(me, 'w', p)] = ('ret', None)
            elif ret == 'canon':
                self.script[(me, 'w', p)] = ('ret', dt(self.cat[self.dts[p]][1][y][0]))
            else:
                self.script[(me, 'w', p)] = ('ret', self.raw(p, y, rnd, 'r')[0])
            try:
                if via == 'direct':
                    getattr(m, 'write_' + p)(r)
                elif via == 'init':         # the start-up path: configured values are written by writeInitParams
                    m.writeDict.clear()     # (only this parameter: start values of others are not of interest)
                    m.writeDict[p] = r
                    m.writeInitParams()
                else:
                    ch['rep'] = 'canon'    # the dispatcher imports and validates before calling write_*
                    wire = dt.export_value(dt(self.cat[self.dts[p]][1][x][0]))
                    disp.handle_request(self.reqconn, ('change', rspec(p), wire))
            except Exception as e:
                exc = e
        elif a == 'Assign':
            via = pick('via', ['attr', 'announce'], [3, 1])
            r, ch['rep'] = self.raw(p, x, rnd, 'r', ch.get('repk'))
            try:
                if via == 'attr':
                    setattr(m, p, r)
                else:
                    m.announceUpdate(p, r)
            except Exception as e:
                exc = e
        elif a == 'AssignInvalid':
            try:
                setattr(m, p, self.cat[self.dts[p]][3][x])
            except Exception as e:
                exc = e
        elif a == 'AnnounceErr':
            try:
                if pick('withvalue', [False, True]):     # (the way registerCallbacks(autoupdate=..) forwards errors)
                    m.announceUpdate(p, self.raw(p, self.avail[p][0], rnd, 'r')[0], self.errs[x]())
                else:
                    m.announceUpdate(p, None, self.errs[x]())
            except Exception as e:
                exc = e
        elif a == 'AnnounceAt':
            try:
                if x in self.errs:
                    m.announceUpdate(p, None, self.errs[x](), self.t2c(op['n']))
                else:
                    r, ch['rep'] = self.raw(p, x, rnd, 'r', ch.get('repk'))
                    m.announceUpdate(p, r, timestamp=self.t2c(op['n']))
            except Exception as e:
                exc = e
        elif a == 'Untouched':
            from frappy.modulebase import Done
            options = {'rw': ['ReadDone', 'WriteDone', 'WriteRaise', 'WriteInvalid', 'ChangeRaise', 'InitWriteRaise'],
                       'hrw': ['WriteDone', 'WriteRaise', 'WriteInvalid', 'ChangeRaise', 'InitWriteRaise'],
                       'noread': ['ReadCached', 'WriteRaise', 'WriteInvalid', 'InitWriteRaise'],
                       'const': ['ReadConst', 'ReadCached', 'ChangeConst']}[self.kind[p]]
            if p in self.hidden:
                options = [o for o in options if o not in ('ChangeRaise', 'ReadConst', 'ChangeConst')]
            var = pick('var', options)
            dt = m.parameters[p].datatype
            anyval = self.cat[self.dts[p]][1][self.avail[p][rnd.randrange(len(self.avail[p]))]][0]
            try:
                if var == 'ReadDone':
                    self.script[(me, 'r', p)] = ('ret', Done)
                    getattr(m, 'read_' + p)()
                elif var == 'ReadCached':
                    getattr(m, 'read_' + p)()
                elif var == 'ReadConst':
                    disp.handle_request(self.reqconn, ('read', rspec(p), None))
                elif var == 'WriteDone':
                    self.script[(me, 'w', p)] = ('ret', Done)
                    getattr(m, 'write_' + p)(anyval)
                elif var in ('WriteRaise', 'ChangeRaise'):
                    self.script[(me, 'w', p)] = ('raise', self.errs[rnd.choice(sorted(self.errs))]())
                    expect_exc = True
                    if var == 'WriteRaise':
                        getattr(m, 'write_' + p)(anyval)
                    else:
                        disp.handle_request(self.reqconn, ('change', rspec(p), dt.export_value(dt(anyval))))
                elif var == 'InitWriteRaise':       # a failing start-up write is logged, not raised
                    self.script[(me, 'w', p)] = ('raise', self.errs[rnd.choice(sorted(self.errs))]())
                    m.writeDict.clear()
                    m.writeDict[p] = anyval
                    m.writeInitParams()
                elif var == 'WriteInvalid':
                    expect_exc = True
                    getattr(m, 'write_' + p)(self.cat[self.dts[p]][3][rnd.choice(['i1', 'i2'])])
                elif var == 'ChangeConst':
                    expect_exc = True
                    disp.handle_request(self.reqconn, ('change', rspec(p), dt.export_value(dt(anyval))))
            except Exception as e:
                exc = e
        else:
            raise MachineryError(f'unknown operation {op}')
        if a in ('ReadInvalid', 'ReadNested', 'WriteNested') and self.kind.get(p) == 'hrw':
            ch['inner'] = 'CommonReadHandler'
        if (exc is not None) != expect_exc and a != 'AssignInvalid':
            ch['raised'] = repr(exc)[:80] if exc is not None else 'no exception'
        return ch


def nested_expected(w, p):
    return p in w.nested_outer


_NESTED = __import__('re').compile(r'^in (\w+)\.read_(\w+): (.*)$', __import__('re').S)
NESTED_ID = {'e1': 'n1', 'e2': 'n2', 'e4': 'n4', 'i1': 'ni1', 'i2': 'ni2'}


# ------------------------------------------------------------------ spec -> code replay

def _diff(exp, got, conns, params, hidden=()):
    d = []
    if any(exp['c'][p] != got['c'][p] for p in params):
        d.append('cache')
    if any(exp['w'][p] != got['w'][p] for p in params if p not in hidden):
        d.append('wire')
    if any(exp['o'][c][p] != got['o'][c][p] for c in conns for p in params):
        d.append('out')
    return d




def _shape_for(idx, k, params, seed):
    rnd = random.Random(f'shape:{seed}:{idx}:{k}')
    off = (idx * 5 + k * 7 + seed) % len(DTNAMES)
    dts = {p: DTNAMES[(off + 3 * i) % len(DTNAMES)] for i, p in enumerate(params)}
    how = {p: rnd.choice(['param', 'param', 'module', 'general', 'always']) for p in params}
    return {'dts': dts, 'how': how,
            'exp': {p: rnd.choice([True, True, 'x_' + p, '_' + p + 'x']) for p in params},
            'unit': rnd.choice([1.0, 1.0, 0.5, 0.125, 60.0]), 'epoch': rnd.choice([EPOCH, EPOCH + 86400 * 365.25 * 20]),
            'cbs': {p: 'raise' for p in params if rnd.random() < 0.3}}


def _with_handlers(beh, shape, seedstr):
    """a parameter whose reads in this behaviour all deliver refused values (ReadInvalid, inner parameter of a nested
    read / write with a refused value) gets its read method from a CommonReadHandler in 2 of 3 worlds
    (a successful read through such a handler announces twice, which the specification does not model)"""
    rnd = random.Random('h:' + seedstr)
    kind = dict(shape.get('kind', {}))
    for p in sorted(beh[0]['omit']):
        ok = used = False
        for st in beh[1:]:
            op = st['op']
            a, inner, x = op['a'], op['p'], op['x']
            if a == 'ReadInvalid' and inner == p or a in ('ReadNested', 'WriteNested') and inner == p and x in TR_INVS:
                used = True         # a read of p that delivers a refused value
            elif a in ('ReadOk', 'ReadRaise') and inner == p or a in ('ReadNested', 'WriteNested') and inner == p \
                    or a == 'ReadNested' and op['y'] == p:
                ok = True           # any other read of p
        if used and not ok and kind.get(p, 'rw') == 'rw' and rnd.random() < 0.67:
            kind[p] = 'hrw'
    return dict(shape, kind=kind)


NOLOCK_OPS = ('Tick', 'Activate', 'Deactivate', 'Drop', 'Untouched')     # need not pass through updateLock


def _replay_one(beh, shape, seedstr, forced=None, verbose=False):
    """replay one behaviour on one shape; returns None or the first mismatch"""
    init = beh[0]
    shape = _with_handlers(beh, shape, seedstr)
    try:
        w = World(init, shape)
    except WindowMismatch as e:
        return [{'step': 0, 'op': init['op'], 'choices': {'how': sorted(set(shape['how'].values()))}, 'diff': ['window'],
                 'expected': {'omit': init['omit']}, 'observed': str(e)}]
    params = w.params
    conns = sorted(w.conns)
    rnd = random.Random(seedstr)
    got = w.observe(init['op'])
    devs = []
    lastscope = None
    if got['c'] != init['c']:
        return [{'step': 0, 'op': init['op'], 'choices': {}, 'diff': ['init'], 'expected': {'c': init['c']}, 'observed': got}]
    for i, st in enumerate(beh[1:], 1):
        op = st['op']
        n0 = w.cs_count
        ch = w.execute(op, rnd, (forced or {}).get(str(i)))
        got = w.observe(op)
        d = _diff(st, got, conns, params, w.hidden)
        if op['a'] in ('Activate', 'Deactivate', 'Drop'):
            lastscope = f"{op['a']}:{op['x']}"          # (history class of a later delivery mismatch)
        elif lastscope and ('out' in d or 'seen' in d):
            ch['after'] = lastscope
        if op['a'] not in NOLOCK_OPS and w.cs_count == n0:
            d.append('lock')          # the operation never entered updateLock
        if got['unl']:
            d.append('lock')
        if got['x']:
            d.append('out')       # something was sent that belongs to no exported parameter
        # the client-side replay of everything received must equal what the specification says the connection
        # holds (= the cache) for every parameter it listens to ('-' = does not listen)
        for c in conns:
            for p in params:
                if st['s'][c][p][0] != '-' and got['s'][c][p] != st['s'][c][p]:
                    d.append('seen')
        if 'raised' in ch:
            d.append('raised')
        if verbose:
            print(i, op, ch, '->', {k: got[k] for k in ('c', 'o')}, 'DIFF' if d else 'ok', d)
        if d:
            bad = {'step': i, 'op': op, 'choices': ch, 'diff': sorted(set(d)),
                   'expected': {k: st[k] for k in ('c', 'w', 'o', 's')},
                   'observed': {k: got[k] for k in ('c', 'w', 'o', 's', 'unl')}}
            if d == ['wire'] and not w.drifted and (ch.get('errkind') == 'secop' or ch.get('errobj') == 'reused') \
                    and _only_self_prefix(w, st, got):
                # the stored error report of the inner parameter changed after it was sent (reported once per
                # behaviour); read through it from here on so that the rest of the behaviour is still compared
                w.drifted = True
                devs.append(bad)
                continue
            return devs + [bad]
    return devs or None


def _only_self_prefix(w, st, got):
    """the wire views differ only by '<own module>.read_<own parameter>' context in an error report"""
    for p in w.params:
        if p in w.hidden or st['w'][p] == got['w'][p]:
            continue
        g = got['w'][p][1]
        if not (isinstance(g, str) and g.startswith('other:') and f':in {w.mname[p]}.read_' in g):
            return False
    return True


def _replay_job(job):
    idx, beh, shapes, seed = job
    res = []
    for k, shape in enumerate(shapes):
        res.append(_replay_one(beh, shape, f'r:{seed}:{idx}:{k}'))
    return res


def _signature(bad):
    ch = bad['choices']
    sig = {'module': 'ParamCache', 'action': bad['op']['a'], 'diff': '+'.join(bad['diff'])}
    for k in ('via', 'ret', 'rep', 'errobj', 'var', 'how', 'errkind', 'after', 'inner'):
        if k in ch:
            sig[k] = ch[k]
    return sig


# ------------------------------------------------------------------ code -> spec: random histories

TR_PARAMS = ['p1', 'p2', 'p3', 'p4']
TR_VALS = ['a', 'b', 'c', 'd']
TR_ERRS = ['e1', 'e2', 'e3', 'e4']
TR_INVS = ['i1', 'i2']
TR_CONNS = ['c1', 'c2', 'c3']


def _random_init(rnd, threads=False):
    """4 parameters (p1-p3 in module m, p4 in module n), 3 connections + the callback receiver"""
    omit = {p: rnd.choice([0, 0, 1, 2, 3, 5, NEVER]) for p in TR_PARAMS}
    kind = {p: rnd.choice(['rw', 'rw', 'rw', 'hrw', 'noread', 'const']) for p in TR_PARAMS}
    kind['p1'] = kind['p2'] = 'rw'
    hidden = [p for p in ('p3', 'p4') if rnd.random() < 0.2]
    nodefault = sorted(p for p in TR_PARAMS if rnd.random() < 0.5 and kind[p] != 'const')
    scopes = [[], ['all'], ['all'], ['mod'], ['mod2'], ['p1'], ['p2', 'p3'], ['mod', 'p4'], ['all', 'p1']]
    sub = {cn: [sc for sc in rnd.choice(scopes) if sc not in hidden] for cn in TR_CONNS}
    sub['c1'] = ['all']
    sub['cb'] = sorted(p for p in TR_PARAMS if p not in hidden and rnd.random() < 0.4)
    dts = {p: rnd.choice(DTNAMES) for p in TR_PARAMS}
    c = {p: ['-', 'init', 0] if p in nodefault else
         [rnd.choice(['a', 'b']), 'ok', 1 if kind[p] == 'const' else rnd.choice([0, 1])] for p in TR_PARAMS}
    how = {p: rnd.choice(['param', 'module', 'general', 'always']) for p in TR_PARAMS}
    init = {'op': {'a': 'Init', 'p': '-', 'x': '-', 'y': '-', 'n': 0}, 'omit': omit, 'nodefault': nodefault,
            'hidden': hidden, 'mod2': ['p4'], 'c': c, 'sub': sub, 'now': 1}
    shape = {'dts': dts, 'how': how, 'kind': kind,
             'exp': {p: rnd.choice([True, True, 'x_' + p, '_' + p + 'x']) for p in TR_PARAMS},
             'unit': rnd.choice([1.0, 1.0, 0.5, 0.125, 60.0]), 'epoch': rnd.choice([EPOCH, EPOCH + 86400 * 365.25 * 20]),
             'cbs': {p: 'raise' for p in TR_PARAMS if rnd.random() < 0.3}}
    return init, shape


def _random_op(rnd, sticky, w, now, threads=False):
    """biased towards repeating the previous parameter / value so that suppression paths are hit"""
    p = sticky.get('p') if rnd.random() < 0.6 and sticky.get('p') else rnd.choice(TR_PARAMS)
    vals = w.avail[p]
    v = sticky.get('v') if rnd.random() < 0.5 and sticky.get('v') in vals else rnd.choice(vals)
    e = sticky.get('e') if rnd.random() < 0.6 and sticky.get('e') else rnd.choice(TR_ERRS)
    sticky.update(p=p, v=v, e=e)
    r = rnd.random()
    mk = lambda a, x, y='-', n=0: {'a': a, 'p': p, 'x': x, 'y': y, 'n': n}
    kind = w.kind[p]
    if not threads:
        if r < 0.05:
            return {'a': 'Activate', 'p': rnd.choice(TR_CONNS), 'y': '-', 'n': 0,
                    'x': rnd.choice([sc for sc in ['all', 'mod', 'mod2'] + TR_PARAMS if sc not in w.hidden])}
        if r < 0.08:
            return {'a': 'Deactivate', 'p': rnd.choice(TR_CONNS), 'y': '-', 'n': 0,
                    'x': rnd.choice([sc for sc in ['all', 'all', 'mod', 'mod2'] + TR_PARAMS if sc not in w.hidden])}
        if r < 0.09:
            return {'a': 'Drop', 'p': rnd.choice(TR_CONNS[1:]), 'x': '-', 'y': '-', 'n': 0}
    if kind == 'const' or r < 0.17:
        return mk('Untouched', '-')
    if r < 0.25:
        return mk('AnnounceAt', v if rnd.random() < 0.7 else e, n=max(1, now + rnd.choice([-3, -1, -1, 0, 1, 2])))
    if r < 0.40:
        return mk('Write', v, v if rnd.random() < 0.7 else rnd.choice(vals))
    if r < 0.55:
        return mk('Assign', v)
    if r < 0.62:
        return mk('AnnounceErr', e)
    if r < 0.65:
        return mk('AssignInvalid', rnd.choice(TR_INVS))
    if kind == 'noread':
        return mk('Untouched', '-')
    qs = [q for q in TR_PARAMS if q != p and w.mname[q] == w.mname[p] and w.kind[q] == 'rw' and w.dts[q] != w.dts[p]]
    if kind == 'hrw' or (r < 0.67 and not threads and qs):
        # reads that deliver a refused value: directly, or as the inner read of another parameter's read / write
        inv = rnd.choice(TR_INVS)
        if threads or not qs or rnd.random() < 0.5:
            return mk('ReadInvalid', inv)
        a = rnd.choice(['ReadNested', 'WriteNested'])
        if a == 'ReadNested':
            # the abstract id ni<k> of the handed-on validation error does not name the inner parameter: an outer
            # parameter gets such errors from one inner parameter only within a trace
            nest = w.__dict__.setdefault('nest_inner', {})
            qs = [q for q in qs if nest.get(q, p) == p]
            if not qs:
                return mk('ReadInvalid', inv)
            q = rnd.choice(qs)
            nest[q] = p
            return mk(a, inv, q)
        return mk(a, inv, rnd.choice(qs))
    if r < 0.70 and not threads:
        # a nested read: q's driver reads p first (same module, both with a driver method)
        qs = [q for q in TR_PARAMS if q != p and w.mname[q] == w.mname[p] and w.kind[q] == 'rw']
        if qs:
            q = rnd.choice(qs)
            x = rnd.choice([u for u in vals if u in w.avail[q]] or ['a']) if rnd.random() < 0.8 else e
            return mk('ReadNested', x, q)
    if r < 0.85:
        return mk('ReadOk', v)
    if r < 0.95:
        return mk('ReadRaise', e)
    return mk('ReadInvalid', rnd.choice(TR_INVS))


def _random_trace(job):
    seed, n = job
    rnd = random.Random(f't:{seed}')
    init, shape = _random_init(rnd)
    try:
        w = World(init, shape)
    except WindowMismatch as e:
        return {'trace': [init], 'shape': shape, 'job': list(job), 'window': str(e)}
    first = dict(init)
    first['c'] = w.observe(init['op'])['c']
    tr = [first]
    sticky = {}
    for _ in range(n):
        if rnd.random() < 0.35:
            w.tick(rnd.choice([1, 1, 1, 2, 3, 7]))
        op = _random_op(rnd, sticky, w, w.now())
        n0 = w.cs_count
        ch = w.execute(op, rnd, {})
        ev = w.observe(op)
        ev['lk'] = op['a'] in NOLOCK_OPS or w.cs_count > n0
        ev['ch'] = ch
        tr.append(ev)
        if 'raised' in ch:
            ev['lk'] = False
    return {'trace': tr, 'shape': shape, 'job': list(job)}


# ------------------------------------------------------------------ code -> spec: controlled real threads

def _threaded_trace(job):
    seed, nthreads, nops = job
    rnd = random.Random(f'th:{seed}')
    init, shape = _random_init(rnd, threads=True)
    for p in TR_PARAMS[2:]:
        init['omit'][p] = 0
    # one module only: the events are ordered by the critical sections of ONE update lock (Trace_ParamCache_thr.cfg)
    init['mod2'] = []
    init['sub'] = {c: ['mod' if sc == 'mod2' else sc for sc in scs] for c, scs in init['sub'].items()}
    try:
        w = World(init, shape)
    except WindowMismatch as e:
        return {'trace': [init], 'shape': shape, 'job': list(job), 'window': str(e), 'blocked': {'accessLock': 0, 'updateLock': 0},
                'sched': [], 'scripts': []}
    first = dict(init)
    first['c'] = w.observe(init['op'])['c']
    ctl = w.ctl
    w.tname = {}
    # scripts: operations on few parameters so that the threads really compete
    hot = rnd.sample([p for p in TR_PARAMS if w.kind[p] == 'rw'], 2)
    scripts = []
    for t in range(nthreads):
        ops = []
        for _ in range(nops):
            sticky = {'p': rnd.choice(hot)}
            while True:
                op = _random_op(rnd, sticky, w, 1, threads=True)
                if op['a'] not in ('AssignInvalid', 'AnnounceAt', 'Untouched') and op['p'] in hot:
                    break
            ops.append(op)
        scripts.append(ops)
    go = {}
    done_ops = {}
    errors = []

    def body(t):
        me = threading.get_ident()
        trnd = random.Random(f'th:{seed}:{t}')
        for k, op in enumerate(scripts[t]):
            with ctl.cv:
                ctl.state[me] = 'idle'
                ctl.cv.notify_all()
                while not go.get(me):
                    ctl.cv.wait()
                go[me] = False
            plan = plans[t][k]
            w.cur[me] = op
            w.pause_drv[me] = plan['drv']
            w.pause_send[me] = plan['send']
            try:
                forced = {'via': 'direct', 'errobj': 'fresh'} if op['a'].startswith('Read') else \
                         {'via': 'direct', 'ret': 'value' if op['x'] != op['y'] else trnd.choice(['canon', 'value'])} \
                         if op['a'] == 'Write' else {}
                ch = w.execute(op, trnd, forced)
                if 'raised' in ch:
                    errors.append((op, ch))
            except Exception as e:       # harness trouble inside a thread
                errors.append((op, repr(e)))
            if w.cur.get(me) is not None:
                # the operation finished without a critical section of updateLock: record it here, flagged
                ev = w.observe(op)
                ev['lk'] = False
                ev['th'] = 'T%d' % t
                w.events.append(ev)
                w.cur[me] = None
            w.pause_drv[me] = False
            w.pause_send[me] = None
            done_ops[t] = k + 1
        with ctl.cv:
            ctl.state[me] = 'done'
            ctl.cv.notify_all()

    plans = [[{'drv': op['a'] in ('ReadOk', 'ReadRaise', 'ReadInvalid', 'Write') and rnd.random() < 0.6,
               'send': rnd.choice(TR_CONNS) if rnd.random() < 0.4 else None} for op in ops] for ops in scripts]
    threads = []
    for t in range(nthreads):
        th = threading.Thread(target=body, args=(t,), daemon=True)
        threads.append(th)
    for t, th in enumerate(threads):
        with ctl.cv:
            th.start()
            ctl.state[th.ident] = 'running'
            w.tname[th.ident] = 'T%d' % t
    ctl.wait_stable()
    sched = []
    for _ in range(20 * nthreads * nops + 50):
        with ctl.cv:
            st = dict(ctl.state)
        if all(s == 'done' for s in st.values()):
            break
        moves = []
        for t, th in enumerate(threads):
            s = st[th.ident]
            if s == 'idle':
                moves.append(('start', t))
            elif s == 'paused':
                moves.append(('resume', t))
        # (a tick while a thread sits inside updateLock is fine: the event carries the clock at lock acquisition)
        moves.append(('tick', rnd.choice([1, 1, 2, 3])))
        if not [m for m in moves if m[0] != 'tick']:
            raise MachineryError(f'controlled execution stuck: {st} {ctl.where}')
        mv = rnd.choice(moves)
        sched.append(list(mv))
        if mv[0] == 'tick':
            w.tick(mv[1])
            continue
        ident = threads[mv[1]].ident
        with ctl.cv:
            ctl.state[ident] = 'running'
            if mv[0] == 'start':
                go[ident] = True
            else:
                ctl.resume[ident] = True
            ctl.cv.notify_all()
        ctl.wait_stable()
    else:
        raise MachineryError('controlled execution did not finish')
    for th in threads:
        th.join(5)
    if errors:
        # an operation raised/did not raise against expectation: make the trace fail at a synthetic event
        ev = w.observe(errors[0][0])
        ev.update(lk=False, err=str(errors[0][1]), ch=errors[0][1] if isinstance(errors[0][1], dict) else {})
        w.events.append(ev)
    return {'trace': [first] + w.events, 'shape': shape, 'scripts': scripts, 'plans': plans, 'sched': sched,
            'blocked': dict(ctl.blocked), 'job': list(job)}


# ------------------------------------------------------------------ check

def _trace_sig(ev, clause, mode):
    if ev is None:
        return {'module': 'ParamCache', 'mode': mode, 'diff': clause}
    sig = {'module': 'ParamCache', 'mode': mode, 'action': ev['op']['a'], 'diff': clause}
    for k in ('via', 'ret', 'rep', 'errobj', 'var', 'how', 'errkind', 'inner'):
        if k in ev.get('ch', {}):
            sig[k] = ev['ch'][k]
    return sig


def _strip(tr):
    return [{k: v for k, v in ev.items() if k not in ('ch', 'th', 'err')} for ev in tr]


def run(chk):
    _run_agent(chk)
    from .c05_sched import run_sched
    run_sched(chk)      # deterministic-scheduler exploration, validated by ActivationObs (see c05_sched.py)


def _run_agent(chk):
    from concurrent.futures import ThreadPoolExecutor
    quick = chk.tier == 'quick'
    tier = 'quick' if quick else 'thorough'
    t00 = _time.time()
    phase = chk.notes.setdefault('phase_wall_s', {})
    chk.rule = ('spec->code: every behaviour of Gen_ParamCache (all histories over the alphabet to depth D, plus one '
                'behaviour per transition of the abstract state graph to depth D2) replayed on real modules, on K '
                'datatype/configuration shapes each, compared after every step; code->spec: random histories over 4 '
                'parameters / 4 values / 4 errors / 3 connections and controlled 2-3 thread executions validated by '
                'Trace_ParamCache. A case is distinct by (operation sequence, initial windows, shape); non-trivial = '
                'contains a suppressed announcement, an error or a recovery')
    for m in ('ParamCache', 'Gen_ParamCache', 'Trace_ParamCache', 'ParamCacheConc'):
        sany(m)
    ncpu = int(__import__('os').environ.get('VERIF_TLC_WORKERS', 0) or 0) or max(2, (__import__('os').cpu_count() or 4) // 3)
    # (scopes: node-, module- and parameter-wise activation / deactivation over two modules m, m2)
    # (handler: reads delivering refused values - also through CommonReadHandler - repeated, then nested in a read / write)
    gens = [f'Gen_ParamCache_{tier}.cfg', f'Gen_ParamCache_scopes_{tier}.cfg', f'Gen_ParamCache_handler_{tier}.cfg',
            f'Gen_ParamCache_cover_{tier}.cfg'] if quick else \
           ['Gen_ParamCache_scopes_thorough.cfg', 'Gen_ParamCache_handler_thorough.cfg'] + [f'Gen_ParamCache_thorough_{k}.cfg' for k in ('a', 'b')] + \
           ['Gen_ParamCache_cover_thorough.cfg']
    # all TLC jobs are subprocesses: start them side by side (threads only wait for them)
    with ThreadPoolExecutor(max_workers=4) as ex:
        f_gen = [ex.submit(emit_behaviours, 'Gen_ParamCache', cfg, maximal_only=False, timeout=1100,
                           heap='3g' if quick else '8g') for cfg in gens[:2]]
        f_mc = [ex.submit(model_check, 'ParamCache', f'MC_ParamCache_{tier}.cfg', timeout=1100, workers=ncpu, heap='3g'),
                ex.submit(model_check, 'ParamCacheConc', f'MC_ParamCacheConc_{tier}.cfg', timeout=1100, workers=ncpu,
                          heap='3g' if quick else '8g'),
                ex.submit(run_tlc, 'ParamCacheConc', 'MC_ParamCacheConc_nolock.cfg', timeout=600, workers=2, heap='2g')]
        # every operation of the full alphabet (the two configurations above explore one representative per funnel call)
        f_mc.append(ex.submit(model_check, 'ParamCache', 'MC_ParamCache_full.cfg', timeout=600, workers=ncpu, heap='2g'))
        if not quick:
            f_mc.append(ex.submit(model_check, 'ParamCacheConc', 'MC_ParamCacheConc_thorough3.cfg', timeout=1100,
                                  workers=ncpu, heap='8g'))
        f_gen += [ex.submit(emit_behaviours, 'Gen_ParamCache', cfg, maximal_only=False, timeout=1100, heap='8g')
                  for cfg in gens[2:]]

        # 3/4 code -> spec drivers run while TLC enumerates
        t0 = _time.time()
        n = 220 if quick else 1000
        seq = pool_map(_random_trace, [(chk.seed * 1000003 + i, 60 if quick else 80) for i in range(n)])
        n = 120 if quick else 1000
        thr = pool_map(_threaded_trace, [(chk.seed * 1000003 + i, 2 + i % 2, 3 if quick else 4) for i in range(n)])
        phase['drivers'] = round(_time.time() - t0, 1)
        probes = _corrupted(seq)
        f_tr = [ex.submit(_validate, seq + [p for p, _ in probes]), ex.submit(_validate, thr, 'Trace_ParamCache_thr.cfg')]

        # 2 spec -> code
        nshape = 1
        nbeh = 0
        for cfg, f in zip(gens, f_gen):
            r, behs = f.result()
            chk.add_tlc(r)
            t0 = _time.time()
            jobs = [(nbeh + i, b, [_shape_for(nbeh + i, k, sorted(b[0]['omit']), chk.seed) for k in range(nshape)], chk.seed)
                    for i, b in enumerate(behs)]
            nbeh += len(behs)
            res = pool_map(_replay_job, jobs)
            for (i, beh, shapes, _), bads in zip(jobs, res):
                ops = [s['op'] for s in beh]
                nontriv = any(s['op']['a'] not in ('Tick', 'Activate') and
                              (all(not v for cv in s['o'].values() for v in cv.values()) or s['c'][s['op']['p']][1] != 'ok')
                              for s in beh[1:])
                for k, bl in enumerate(bads):
                    chk.impl_traces += 1
                    chk.case(json.dumps([ops, beh[0]['omit'], shapes[k]], sort_keys=True), nontriv)
                    for bad in bl or ():
                        chk.violation(_signature(bad), {'behaviour': beh, 'shape': shapes[k],
                                                        'seedstr': f'r:{chk.seed}:{i}:{k}', **bad})
            if behs:
                chk.sample({'behaviour': [s['op'] for s in behs[len(behs) // 2]], 'shape': jobs[len(behs) // 2][2][0]}, limit=2)
            phase['replay ' + cfg] = round(_time.time() - t0, 1)
            del behs, jobs, res

        # 1 design checks
        for f in f_mc[:2] + f_mc[3:]:
            chk.add_tlc(f.result())
        r = f_mc[2].result()
        if not r.violated:
            raise MachineryError('ParamCacheConc without the update lock satisfies the invariants: they have no teeth')
        chk.notes['nolock_model_violates'] = r.violated[1]

        for mode, recs, f in (('seq', seq, f_tr[0]), ('thr', thr, f_tr[1])):
            _judge(chk, recs, mode, f.result())
        # binding self-test: the corrupted copies of recorded traces must be rejected at the corrupted event
        verdicts = f_tr[0].result()[0]
        for k, (_, at) in enumerate(probes):
            v = verdicts[len(seq) + k]
            if (v is None or v[0] > at) and not chk.violations:
                raise MachineryError(f'Trace_ParamCache accepts a corrupted trace (probe {k}, corrupted at {at}): {v}')
        chk.notes['corrupted_traces_rejected'] = len(probes)
    chk.sample({'threaded_schedule': thr[0]['sched'], 'scripts': thr[0]['scripts']}, limit=6)
    chk.notes['threaded_runs_with_lock_contention'] = {
        k: sum(1 for r in thr if r['blocked'][k]) for k in ('accessLock', 'updateLock')}
    if not chk.violations and not all(chk.notes['threaded_runs_with_lock_contention'].values()):
        raise MachineryError('controlled thread executions never contended for a lock: schedules are vacuous')
    chk.exhaustive = False
    chk.assumptions.append('thread interleavings are controlled at driver calls, send_reply and lock hand-over only '
                           '(line-level scheduling needs harness/detsched.py)')
    phase['total'] = round(_time.time() - t00, 1)


def _corrupted(recs):
    """copies of recorded traces with one field changed / one delivery dropped -> [(record, position 1-based)]"""
    res = []
    for r in recs:
        tr = r['trace']
        for l, ev in enumerate(tr[1:6], 2):
            p = ev['op']['p']
            if ev['op']['a'] in ('Activate', 'Tick') or not ev['o']['c1'].get(p):
                continue
            a = json.loads(json.dumps(tr))
            a[l - 1]['c'][p][2] += 1                       # wrong stamp in the cache
            res.append(({'trace': a}, l))
            b = json.loads(json.dumps(tr))
            b[l - 1]['o']['c1'][p] = []                    # a delivery is missing
            res.append(({'trace': b}, l))
            break
        if len(res) >= 4:
            break
    if not res:
        raise MachineryError('no recorded trace suitable for the corruption self-test')
    return res


def _validate(recs, cfg='Trace_ParamCache.cfg'):
    return validate_traces('Trace_ParamCache', [_strip(r['trace']) for r in recs], cfg, timeout=1100)


def _judge(chk, recs, mode, result):
    verdicts, st, tr = result
    chk.states += st
    chk.transitions += tr
    for r in recs:
        if r.get('window'):
            chk.violation({'module': 'ParamCache', 'mode': mode, 'action': 'Init', 'diff': 'window'},
                          {'mode': mode, 'trace': r['trace'], 'shape': r['shape'], 'job': r['job'], 'observed': r['window'],
                           'failed_at': 1})
    for i, v in verdicts.items():
        if i >= len(recs):
            continue            # corruption probes, judged by the caller
        chk.impl_traces += 1
        chk.case(f'{mode}{i}', True)
        if v is not None:
            l = v[0]
            ev = recs[i]['trace'][l - 1] if 0 < l <= len(recs[i]['trace']) else None
            d = {k: recs[i][k] for k in recs[i] if k != 'trace'}
            chk.violation(_trace_sig(ev, v[1], mode), {'mode': mode, 'trace': recs[i]['trace'], 'failed_at': l, 'event': ev, **d})
    if recs:
        chk.sample({mode + '_trace_prefix': [e['op'] for e in recs[0]['trace'][:6]]}, limit=8)


def replay(chk, rep):
    d = rep['detail']
    if 'sched_scenario' in d:
        from .c05_sched import replay_sched
        replay_sched(rep)
        return 0
    if 'behaviour' in d:
        bad = _replay_one(d['behaviour'], d['shape'], d['seedstr'], verbose=True)
        print('shape:', d['shape'])
        print('mismatches now:', json.dumps(bad, default=str)[:2500])
        print('recorded mismatch :', json.dumps({k: d[k] for k in ('step', 'op', 'choices', 'diff', 'expected', 'observed')},
                                               default=str)[:1500])
    else:
        for e in d['trace']:
            print({k: e.get(k) for k in ('th', 'op', 'now', 'c', 'o', 'unl', 'lk', 'ch') if k in e})
        print('rejected at event', d['failed_at'], ':', d.get('event', {}) and d['event'].get('op'))
        v, _, _ = validate_traces('Trace_ParamCache', [_strip(d['trace'])], 'Trace_ParamCache.cfg')
        print('Trace_ParamCache verdict on the recorded trace:', v[0])
        if 'job' in d:
            rec = (_threaded_trace if d['mode'] == 'thr' else _random_trace)(tuple(d['job']))
            v, _, _ = validate_traces('Trace_ParamCache', [_strip(rec['trace'])], 'Trace_ParamCache.cfg')
            print('re-executed', d['mode'], 'job', d['job'], '->', len(rec['trace']), 'events, verdict now:', v[0])
            if v[0]:
                print('   event:', rec['trace'][v[0][0] - 1])
    return 0
