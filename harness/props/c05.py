"""C05 - The update stream always reconstructs the node's parameter cache.

spec/ParamCache.tla (sequential funnel), spec/ParamCacheConc.tla (PlusCal, code granularity).  Binding:
  spec -> code : Gen_ParamCache enumerates (a) ALL histories over the operation alphabet to a depth and
                 (b) one behaviour per transition of the abstract state graph (deep histories); each is
                 replayed on real Module subclasses (parameter datatypes rotate through a catalogue) +
                 real Dispatcher + activated fake connections under a virtual clock; cache, wire view,
                 delivered messages and the client-side replay are compared after every step.
  code -> spec : seeded random long histories (more parameters / values / errors / window sizes / scopes)
                 and controlled multi-thread executions (pause points in driver functions and in
                 send_reply; one event per critical section of updateLock = linearisation order) are
                 recorded and validated by Trace_ParamCache (TLC).
"""
import json
import random
import threading
import time as _time

from ..core import MachineryError, emit_behaviours, model_check, pool_map, run_tlc, sany, validate_traces
from ..env import LoggerStub, ServerStub, boot

META = {
    'text': 'TLC model-checks the funnel design (every way the cache changes x suppression windows x subscription '
            'scopes) and, at code granularity in PlusCal, all interleavings of 2-3 threads doing reads/writes/'
            'assignments/error announcements (StreamReconstructs, Ordered, NotifyUnderLock; the same model without '
            'the update lock must fail). Every history TLC enumerates (all histories to a depth + one per transition '
            'of the abstract state graph) is replayed on real Module subclasses over a datatype catalogue with a '
            'real Dispatcher and fake connections under a virtual clock; cache, message stream and its client-side '
            'replay are compared with the specification after every step. Seeded random long histories and '
            'controlled multi-thread executions are validated by TLC against Trace_ParamCache. Bounded (depth, '
            '2-4 parameters, 2-4 values, 3 connections, <=3 threads), exhaustive inside the Gen bound.',
    'note': 'Trusted: TLC; the alpha/gamma tables of harness/props/c05.py (value/error interning, virtual clock '
            'rebinding of the time source in frappy.modulebase, instrumented accessLock/updateLock objects). '
            'Thread schedules are controlled at pause points (driver functions, send_reply) and lock hand-over, '
            'not at line level; activation racing with updates belongs to C08. The suppression clauses follow the '
            'documented semantics of update_unchanged / omit_unchanged_within.',
    'tech': 'TLA+ / PlusCal specs (ParamCache.tla, ParamCacheConc.tla) + TLC model checking; spec->code replay of '
            'TLC-enumerated behaviours; code->spec TLC trace validation incl. controlled real threads',
    'ref': 'DESIGN.md section 5 C05',
}

NEVER = 999999999
MOD = 'm'

# ------------------------------------------------------------------ virtual clock


class Clock:
    """stands in for the `time` module / `time.time` inside frappy"""
    now = 1.0

    def __getattr__(self, name):
        return getattr(_time, name)

    @staticmethod
    def time():
        return Clock.now


_clock = Clock()
_patched = False


def patch_clock():
    """rebind whatever name frappy's modules use for the time source (import time / from time import time as x)"""
    global _patched
    if _patched:
        return
    _patched = True
    import sys
    import frappy.modulebase
    import frappy.params
    import frappy.protocol.dispatcher
    hit = 0
    for name, mod in list(sys.modules.items()):
        if not name.startswith('frappy.') or mod is None:
            continue
        for k, v in list(vars(mod).items()):
            if v is _time:
                setattr(mod, k, _clock)
                hit += name == 'frappy.modulebase'
            elif v is _time.time:
                setattr(mod, k, Clock.time)
                hit += name == 'frappy.modulebase'
    if not hit:
        raise MachineryError('no time source found in frappy.modulebase to rebind')


# ------------------------------------------------------------------ catalogue (gamma)

_cat = None
_alpha = {}


def _catalogue():
    global _cat
    if _cat is None:
        _cat = _catalogue0()
    return _cat


def _catalogue0():
    from frappy.datatypes import ArrayOf, BLOBType, BoolType, EnumType, FloatRange, IntRange, \
        ScaledInteger, StringType, StructOf, TupleOf
    # name: (factory, {id: [canonical-raw, other raw representations ...]}, {id: write-only raw reps},
    #        {invalid id: raw})
    return {
        'float': (lambda: FloatRange(0, 10),
                  {'a': [1.0, 1, True], 'b': [10.0, 10], 'c': [0.0, 0, False], 'd': [2.5]},
                  {'b': [10.000001]}, {'i1': 'x', 'i2': None}),
        'int': (lambda: IntRange(0, 10), {'a': [1, 1.0, True], 'b': [2, 2.0], 'c': [0, 0.0, False], 'd': [10, 10.0]},
                {}, {'i1': 1.5, 'i2': 'x'}),
        'scaled': (lambda: ScaledInteger(0.5, 0, 10), {'a': [1.0, 1, 1.1], 'b': [2.5, 2.4], 'c': [0.0, 0, 0.2], 'd': [10.0, 10]},
                   {'d': [10.2]}, {'i1': 'x', 'i2': None}),
        'enum': (lambda: EnumType('e', off=0, on=1, busy=2, fault=5), {'a': [1, 'on'], 'b': [0, 'off'], 'c': [2, 'busy'], 'd': [5, 'fault']},
                 {}, {'i1': 7, 'i2': 'nope'}),
        'bool': (lambda: BoolType(), {'a': [True, 1, 1.0], 'b': [False, 0, 0.0]},
                 {}, {'i1': 2, 'i2': 'x'}),
        'string': (lambda: StringType(), {'a': ['x'], 'b': [''], 'c': ['y'], 'd': ['x ']},
                   {}, {'i1': 5, 'i2': b'x'}),
        'blob': (lambda: BLOBType(0, 4), {'a': [b'\x00'], 'b': [b''], 'c': [b'ab'], 'd': [b'\xff\x00']},
                 {}, {'i1': 'x', 'i2': b'12345'}),
        'tuple': (lambda: TupleOf(IntRange(), StringType()),
                  {'a': [(1, 'x'), [1, 'x'], (1.0, 'x')], 'b': [(2, 'x'), [2, 'x']], 'c': [(1, ''), [True, '']], 'd': [(0, 'y')]},
                  {}, {'i1': (1,), 'i2': (1, 2)}),
        'array': (lambda: ArrayOf(FloatRange(), 0, 3),
                  {'a': [(1.0, 2.0), [1, 2]], 'b': [(), []], 'c': [(1.0,), [1]], 'd': [(2.0, 1.0), [2, 1]]},
                  {}, {'i1': [1, 2, 3, 4], 'i2': 5}),
        'struct': (lambda: StructOf(optional=[], x=IntRange(), y=BoolType()),
                   {'a': [{'x': 1, 'y': True}, {'x': 1.0, 'y': 1}], 'b': [{'x': 2, 'y': True}],
                    'c': [{'x': 1, 'y': False}, {'y': 0, 'x': 1}], 'd': [{'x': 0, 'y': False}]},
                   {}, {'i1': {'x': 1}, 'i2': 5}),
        'status': (lambda: TupleOf(EnumType('s', idle=100, busy=300, error=400), StringType()),
                   {'a': [(100, ''), ('idle', ''), [100, '']], 'b': [(300, 'moving'), ('busy', 'moving')],
                    'c': [(100, 'ok')], 'd': [(400, '')]},
                   {}, {'i1': (200, ''), 'i2': 'idle'}),
        'nested': (lambda: ArrayOf(StructOf(optional=[], k=StringType(), v=TupleOf(IntRange(), FloatRange())), 0, 2),
                   {'a': [({'k': 'x', 'v': (1, 1.0)},), [{'k': 'x', 'v': [1, 1]}]], 'b': [(), []],
                    'c': [({'k': 'x', 'v': (1, 2.0)},)], 'd': [({'k': 'x', 'v': (1, 1.0)}, {'k': 'x', 'v': (1, 1.0)})]},
                   {}, {'i1': [{'k': 'x'}], 'i2': 'x'}),
    }


DTNAMES = ['float', 'int', 'scaled', 'enum', 'bool', 'string', 'blob', 'tuple', 'array', 'struct', 'status', 'nested']


def _errors():
    from frappy.errors import CommunicationFailedError, HardwareError
    return {'e1': lambda: CommunicationFailedError('no reply'),
            'e2': lambda: CommunicationFailedError('other text'),     # same class as e1, other arguments
            'e3': lambda: ValueError('odd'),                           # not a SECoPError
            'e4': lambda: HardwareError('sensor broken')}


def typed(x):
    """value with the python types made explicit (1 / 1.0 / True, list / tuple, 'on' / member differ)"""
    if isinstance(x, dict):
        return ('D', type(x).__name__, tuple(sorted((k, typed(v)) for k, v in x.items())))
    if isinstance(x, (list, tuple)):
        return ('S', type(x).__name__, tuple(typed(v) for v in x))
    return (type(x).__name__, repr(x))


# ------------------------------------------------------------------ instrumented locks / mini scheduler

class Ctl:
    """thread states for controlled executions; all lock state is protected by cv"""

    def __init__(self):
        self.cv = threading.Condition()
        self.state = {}       # thread ident -> running | paused | blocked | idle | done
        self.resume = {}
        self.where = {}
        self.blocked = {'accessLock': 0, 'updateLock': 0}

    def me(self):
        return threading.get_ident()

    def controlled(self):
        return self.me() in self.state

    def pause(self, where):
        me = self.me()
        with self.cv:
            self.state[me] = 'paused'
            self.where[me] = where
            self.cv.notify_all()
            while not self.resume.get(me):
                self.cv.wait()
            self.resume[me] = False

    def wait_stable(self, timeout=20):
        end = _time.time() + timeout
        with self.cv:
            while any(s == 'running' for s in self.state.values()):
                left = end - _time.time()
                if left <= 0:
                    raise MachineryError(f'controlled threads do not settle: {self.state} {self.where}')
                self.cv.wait(left)


class CtlLock:
    """reentrant lock with FIFO hand-over whose waiting/owning threads are visible to the controller"""

    def __init__(self, world, name):
        self.world = world
        self.ctl = world.ctl
        self.name = name
        self.owner = None
        self.depth = 0
        self.waiters = []

    def acquire(self, blocking=True, timeout=-1):
        ctl = self.ctl
        me = ctl.me()
        with ctl.cv:
            if self.owner == me:
                self.depth += 1
                return True
            if self.owner is not None:
                if not blocking:
                    return False
                self.waiters.append(me)
                if me in ctl.state:
                    ctl.state[me] = 'blocked'
                    ctl.where[me] = self.name
                    ctl.blocked[self.name] += 1
                    ctl.cv.notify_all()
                while self.owner != me:
                    ctl.cv.wait()
            else:
                self.owner = me
            self.depth = 1
        if self.name == 'updateLock':
            self.world.cs_begin()
        return True

    def release(self):
        ctl = self.ctl
        if self.depth == 1 and self.name == 'updateLock':
            self.world.cs_end()
        with ctl.cv:
            self.depth -= 1
            if self.depth == 0:
                self.owner = None
                if self.waiters:
                    self.owner = self.waiters.pop(0)
                    if self.owner in ctl.state:
                        ctl.state[self.owner] = 'running'
                ctl.cv.notify_all()

    def held(self):
        return self.owner == self.ctl.me()

    __enter__ = acquire

    def __exit__(self, *args):
        self.release()


class RConn:
    """fake connection: records (sender thread, inside-updateLock?) with every message"""

    def __init__(self, name, world):
        self.name = name
        self.world = world
        self.msgs = []
        world.srv.dispatcher.add_connection(self)

    def send_reply(self, msg):
        w = self.world
        me = threading.get_ident()
        self.msgs.append((msg, me, w.lock.held() if w.lock and not w.activating else None))
        p = w.pause_send.get(me)
        if p == self.name:
            w.pause_send[me] = None
            w.ctl.pause('send:' + self.name)

    def __repr__(self):
        return f'RConn({self.name})'


# ------------------------------------------------------------------ the world (real frappy objects)

_classes = {}


def _module_class(key, specs):
    """real Module subclass with one parameter per spec (name, dtname, has_default, update_unchanged)"""
    if key in _classes:
        return _classes[key]
    from frappy.modules import Module, Parameter
    cat = _catalogue()

    def mk_read(p):
        def read(self):
            return self.drv('r', p, None)
        read.__name__ = 'read_' + p
        return read

    def mk_write(p):
        def write(self, value):
            return self.drv('w', p, value)
        write.__name__ = 'write_' + p
        return write

    def drv(self, kind, p, value):
        w = self.world
        me = threading.get_ident()
        w.drv_calls.append((kind, p, value))
        if w.pause_drv.get(me):
            w.pause_drv[me] = False
            w.ctl.pause('drv:' + p)
        what, x = w.script[(me, kind, p)]
        if what == 'raise':
            raise x
        return x

    attrs = {'drv': drv, 'world': None}
    for p, dtname, start, uu in specs:
        fac, vals, _, _ = cat[dtname]
        kw = {}
        if start:       # (value id, stamped?): value= is announced (stamped) at construction, default= is not
            kw['value' if start[1] else 'default'] = vals[start[0]][0]
        if uu is not None:
            kw['update_unchanged'] = uu
        attrs[p] = Parameter(p, fac(), readonly=False, **kw)
        attrs['read_' + p] = mk_read(p)
        attrs['write_' + p] = mk_write(p)
    cls = type('M_' + str(len(_classes)), (Module,), attrs)
    _classes[key] = cls
    return cls


class World:
    """one module `m` on a real dispatcher, fake connections, instrumented locks"""

    def __init__(self, init, shape):
        """init: first record of a behaviour/trace (omit, sub, nodefault, c); shape: {dts:{p:dt}, how:{p:..}}"""
        boot()
        patch_clock()
        from frappy.lib import generalConfig
        from frappy.modulebase import PollInfo
        self.cat = _catalogue()
        self.errs = _errors()
        self.params = sorted(init['omit'])
        self.dts = shape['dts']
        self.ctl = Ctl()
        self.lock = None
        self.script = {}
        self.drv_calls = []
        self.pause_drv = {}
        self.pause_send = {}
        self.cur = {}          # thread -> op being executed
        self.events = []       # critical sections in linearisation order
        self.last_err = {}
        self.activating = False
        self.tname = {}
        Clock.now = float(init.get('now', 1))
        # how the suppression window is configured: on the parameter, the module property, or generalConfig
        how = dict(shape.get('how', {}))
        omit = init['omit']
        finite = [p for p in self.params if omit[p] != NEVER]
        modval = next((omit[p] for p in finite if how.get(p) == 'module'), None)
        genval = None if modval is not None else next((omit[p] for p in finite if how.get(p) == 'general'), None)
        specs = []
        for p in self.params:
            om, h = omit[p], how.get(p, 'param')
            if om == NEVER:
                uu = 'never'
            elif h == 'module' and om == modval:
                uu = None                   # 'default': taken from the module property
            elif h == 'general' and om == genval:
                uu = None                   # 'default': taken from generalConfig
            elif h == 'always' and om == 0:
                uu = 'always'
            else:
                uu = float(om)
            specs.append((p, self.dts[p], None if p in init['nodefault'] else (init['c'][p][0], init['c'][p][2]), uu))
        key = json.dumps(specs)
        cls = _module_class(key, specs)
        self.srv = ServerStub()
        cfg = {'description': ''}
        if modval is not None:
            cfg['omit_unchanged_within'] = modval
        saved = generalConfig._config.get('omit_unchanged_within')
        generalConfig._config['omit_unchanged_within'] = 0 if genval is None else genval
        try:
            self.m = cls(MOD, LoggerStub(), cfg, self.srv)
        finally:
            generalConfig._config['omit_unchanged_within'] = saved
        self.m.world = self
        self.m.pollInfo = PollInfo(5, threading.Event())
        self.srv.secnode.add_module(self.m, MOD)
        self.lock = self.m.updateLock = CtlLock(self, 'updateLock')
        self.m.accessLock = CtlLock(self, 'accessLock')
        for p in self.params:
            got = self.m.parameters[p].omit_unchanged_within
            if got != init['omit'][p]:
                raise MachineryError(f'shape does not realise omit {init["omit"]} for {p}: {got} ({specs})')
        # alpha tables
        self.canon = {}
        self.avail = {p: sorted(self.cat[self.dts[p]][1]) for p in self.params}
        self.wirecanon = {}
        self.inverr = {}
        self.expname = {}
        for p in self.params:
            pobj = self.m.parameters[p]
            dt = pobj.datatype
            self.expname[pobj.export] = p
            if (p, self.dts[p]) not in _alpha:
                fac, vals, _, invs = self.cat[self.dts[p]]
                canon = [(v, typed(dt(reps[0]))) for v, reps in vals.items()]
                wire = [(v, json.dumps(dt.export_value(dt(reps[0])), sort_keys=True)) for v, reps in vals.items()]
                if len({c for _, c in canon}) != len(canon) or len({c for _, c in wire}) != len(wire):
                    raise MachineryError(f'catalogue values of {self.dts[p]} are not distinct')
                inverr = {}
                for i, raw in invs.items():
                    try:
                        dt(raw)
                    except Exception as e:
                        inverr[self._errkey(e)] = i
                    else:
                        raise MachineryError(f'catalogue: {raw!r} is not invalid for {self.dts[p]}')
                _alpha[(p, self.dts[p])] = canon, wire, inverr
            self.canon[p], self.wirecanon[p], inv = _alpha[(p, self.dts[p])]
            for k, i in inv.items():
                self.inverr[(p, k)] = i
        self.errkey = {}
        from frappy.errors import secop_error
        for e, mk in self.errs.items():
            self.errkey[self._errkey(secop_error(mk()))] = e
        for p in init['nodefault']:
            self.errkey[self._errkey(self.m.parameters[p].readerror)] = 'init'
        self.conns = {c: RConn(c, self) for c in sorted(init['sub'])}
        self.reqconn = RConn('rq', self)
        self.folded = {c: {} for c in self.conns}     # client-side replay of the stream
        self.taken = {c: 0 for c in self.conns}
        for c in sorted(init['sub']):
            for sc in sorted(init['sub'][c]):
                self.activate(c, sc)
        self.collect()

    # -- alpha
    @staticmethod
    def _errkey(e):
        return (getattr(e, 'name', type(e).__name__), str(e))

    @staticmethod
    def _ts(t):
        if not t:
            return 0
        return int(t) if float(t) == int(t) else repr(t)

    def val_id(self, p, value):
        tv = typed(value)
        for v, c in self.canon[p]:
            if c == tv:
                return v
        return 'raw:' + repr(value)[:40]

    def wire_id(self, p, data):
        s = json.dumps(data, sort_keys=True)
        for v, c in self.wirecanon[p]:
            if c == s:
                return v
        return 'raw:' + s[:40]

    def err_id(self, p, name, text):
        k = (name, text)
        return self.errkey.get(k) or self.inverr.get((p, k)) or f'other:{name}:{text}'[:80]

    def decode(self, msg):
        """update / error_update message -> (parameter, view)"""
        action, spec, data = msg
        modname, _, ename = spec.partition(':')
        p = self.expname.get(ename, ename)
        if action == 'update':
            return p, ['v', self.wire_id(p, data[0]), self._ts(data[1].get('t'))]
        if action == 'error_update':
            return p, ['e', self.err_id(p, data[0], data[1]), self._ts(data[2].get('t'))]
        return p, ['?', str(action), 0]

    def cache_view(self):
        """c: the cache by its fields (value by typed equality, error by class+arguments);
        w: the cache as the dispatcher would put it on the wire now (make_update)"""
        c, w = {}, {}
        from frappy.protocol.dispatcher import make_update
        for p in self.params:
            pobj = self.m.parameters[p]
            if pobj.readerror:
                c[p] = ['-', self._int_err(p, pobj.readerror), self._ts(pobj.timestamp)]
            else:
                c[p] = [self.val_id(p, pobj.value), 'ok', self._ts(pobj.timestamp)]
            try:
                w[p] = self.decode(make_update(MOD, pobj))[1]
            except Exception as e:
                w[p] = ['?', 'make_update raised ' + repr(e)[:60], 0]
        return c, w

    def _int_err(self, p, err):
        """identity of the cached error by class and arguments (not by its rendering)"""
        from frappy.errors import secop_error
        for e, mk in self.errs.items():
            if secop_error(mk()) == err:
                return e
        k = (getattr(err, 'name', '?'), str(err.args[0]) if err.args else '')
        if (p, k) in self.inverr:
            return self.inverr[(p, k)]
        if type(err).__name__ == 'ConfigError' and 'not initialized' in str(err.args[:1]):
            return 'init'
        return f'other:{type(err).__name__}:{err.args}'[:80]

    def collect(self, only_thread=None):
        """new messages per connection and parameter (decoded), fold them into the client-side replay"""
        out = {}
        unlocked = 0
        for c, conn in self.conns.items():
            per = {p: [] for p in self.params}
            msgs = conn.msgs[self.taken[c]:]
            self.taken[c] = len(conn.msgs)
            for msg, th, held in msgs:
                p, view = self.decode(msg)
                if msg[0] in ('update', 'error_update'):
                    per.setdefault(p, []).append(view)
                    self.folded[c][p] = view
                    if held is False:
                        unlocked += 1
            out[c] = per
        return out, unlocked

    def observe(self, op):
        c, w = self.cache_view()
        out, unlocked = self.collect()
        seen = {cn: {p: self.folded[cn].get(p, ['-', '-', 0]) for p in self.params} for cn in self.conns}
        return {'op': op, 'now': int(Clock.now), 'c': c, 'w': w, 'o': out, 's': seen, 'unl': unlocked}

    # -- critical sections (linearisation points)
    def cs_begin(self):
        me = threading.get_ident()
        self.cs_now = int(Clock.now)
        self.cs_count = getattr(self, 'cs_count', 0) + 1

    def cs_end(self):
        me = threading.get_ident()
        op = self.cur.get(me)
        if op is not None:          # controlled-thread mode: the event is taken inside the lock
            ev = self.observe(op)
            ev['now'] = self.cs_now
            ev['lk'] = True
            ev['th'] = self.tname.get(me, '?')
            self.events.append(ev)
            self.cur[me] = None

    # -- gamma: execute one abstract operation on the real objects
    def activate(self, c, sc):
        spec = None if sc == 'all' else MOD if sc == 'mod' else f'{MOD}:{self.m.parameters[sc].export}'
        self.activating = True
        try:
            rep = self.srv.dispatcher.handle_request(self.conns[c], ('activate', spec, None))
        finally:
            self.activating = False
        if rep[0] != 'active':
            raise MachineryError(f'activate {spec} -> {rep}')

    def raw(self, p, v, rnd, path, force=None):
        """a raw python representation of abstract value v; returns (raw, kind)"""
        _, vals, wonly, _ = self.cat[self.dts[p]]
        reps = list(vals[v])
        if path == 'w':
            reps += wonly.get(v, [])
        k = force if force is not None else rnd.randrange(len(reps))
        k = min(k, len(reps) - 1)
        dt = self.m.parameters[p].datatype
        r = reps[k]
        if force == 0 or (force is None and rnd.random() < 0.3):
            r = dt(reps[0])            # the validated object itself (EnumMember, ImmutableDict ...)
        kind = 'canon' if typed(r) == typed(dt(reps[0])) else 'raw'
        return r, kind

    def execute(self, op, rnd, forced=None):
        """perform op; returns dict of the concrete choices made (goes into signatures / replays)"""
        m = self.m
        me = threading.get_ident()
        a, p, x, y = op['a'], op['p'], op['x'], op['y']
        ch = dict(forced or {})
        exc = None
        expect_exc = False
        pick = lambda key, options, weights=None: ch.setdefault(
            key, rnd.choices(options, weights)[0] if weights else rnd.choice(options))
        if a == 'Tick':
            Clock.now += op['n']
        elif a == 'Activate':
            self.activate(p, x)
        elif a in ('ReadOk', 'ReadRaise', 'ReadInvalid'):
            via = pick('via', ['direct', 'poll', 'request'], [6, 2, 2] if a == 'ReadOk' else [16, 1, 4])
            if a == 'ReadOk':
                r, ch['rep'] = self.raw(p, x, rnd, 'r', ch.get('repk'))
                self.script[(me, 'r', p)] = ('ret', r)
            elif a == 'ReadInvalid':
                self.script[(me, 'r', p)] = ('ret', self.cat[self.dts[p]][3][x])
                expect_exc = True
            else:
                eo = pick('errobj', ['fresh', 'reused'], [30, 1])
                e = self.last_err.get((p, x)) if eo == 'reused' else None
                if e is None:
                    e = self.errs[x]()
                    ch['errobj'] = 'fresh'
                self.last_err[(p, x)] = e
                self.script[(me, 'r', p)] = ('raise', e)
                expect_exc = True
            try:
                if via == 'direct':
                    getattr(m, 'read_' + p)()
                elif via == 'poll':
                    m.callPollFunc(getattr(m, 'read_' + p))
                    expect_exc = False
                else:
                    self.srv.dispatcher.handle_request(self.reqconn, ('read', f'{MOD}:{m.parameters[p].export}', None))
            except Exception as e:
                exc = e
        elif a == 'Write':
            dt = m.parameters[p].datatype
            via = pick('via', ['direct', 'request'], [3, 1])
            if self.dts[p] in ('array', 'nested'):
                via = ch['via'] = 'direct'   # ArrayOf.validate(previous=..) truncates (C01 finding): stay independent
            if x == y:
                ret = pick('ret', ['none', 'canon', 'value'], [3, 1, 1])
            else:
                ret = ch.setdefault('ret', 'value')
            if ret == 'none' and 'repk' not in ch and rnd.random() < 0.85:
                ch['repk'] = 0        # (a raw argument + driver returning None is the recorded defect: keep it rare)
            r, ch['rep'] = self.raw(p, x, rnd, 'w', ch.get('repk'))
            if ret == 'none':
                self.script[(me, 'w', p)] = ('ret', None)
            elif ret == 'canon':
                self.script[(me, 'w', p)] = ('ret', dt(self.cat[self.dts[p]][1][y][0]))
            else:
                self.script[(me, 'w', p)] = ('ret', self.raw(p, y, rnd, 'r')[0])
            try:
                if via == 'direct':
                    getattr(m, 'write_' + p)(r)
                else:
                    ch['rep'] = 'canon'    # the dispatcher imports and validates before calling write_*
                    wire = dt.export_value(dt(self.cat[self.dts[p]][1][x][0]))
                    self.srv.dispatcher.handle_request(self.reqconn, ('change', f'{MOD}:{m.parameters[p].export}', wire))
            except Exception as e:
                exc = e
        elif a == 'Assign':
            via = pick('via', ['attr', 'announce'], [3, 1])
            r, ch['rep'] = self.raw(p, x, rnd, 'r', ch.get('repk'))
            try:
                if via == 'attr':
                    setattr(m, p, r)
                else:
                    m.announceUpdate(p, r)
            except Exception as e:
                exc = e
        elif a == 'AssignInvalid':
            try:
                setattr(m, p, self.cat[self.dts[p]][3][x])
            except Exception as e:
                exc = e
        elif a == 'AnnounceErr':
            try:
                m.announceUpdate(p, None, self.errs[x]())
            except Exception as e:
                exc = e
        else:
            raise MachineryError(f'unknown operation {op}')
        if (exc is not None) != expect_exc and a != 'AssignInvalid':
            ch['raised'] = repr(exc)[:80] if exc is not None else 'no exception'
        return ch


# ------------------------------------------------------------------ spec -> code replay

def _view(cv):
    return ['e', cv[1], cv[2]] if cv[1] != 'ok' else ['v', cv[0], cv[2]]


def _diff(exp, got, conns, params):
    d = []
    if any(exp['c'][p] != got['c'][p] for p in params):
        d.append('cache')
    if any(_view(exp['c'][p]) != got['w'][p] for p in params):
        d.append('wire')
    if any(exp['o'][c][p] != got['o'][c][p] for c in conns for p in params):
        d.append('out')
    return d


def _shape_for(idx, k, params, seed):
    rnd = random.Random(f'shape:{seed}:{idx}:{k}')
    off = (idx * 5 + k * 7 + seed) % len(DTNAMES)
    dts = {p: DTNAMES[(off + 3 * i) % len(DTNAMES)] for i, p in enumerate(params)}
    how = {p: rnd.choice(['param', 'param', 'module', 'general', 'always']) for p in params}
    return {'dts': dts, 'how': how}


def _replay_one(beh, shape, seedstr, forced=None, verbose=False):
    """replay one behaviour on one shape; returns None or the first mismatch"""
    init = beh[0]
    w = World(init, shape)
    params = w.params
    conns = sorted(w.conns)
    rnd = random.Random(seedstr)
    got = w.observe(init['op'])
    if got['c'] != init['c']:
        return {'step': 0, 'op': init['op'], 'choices': {}, 'diff': ['init'], 'expected': {'c': init['c']}, 'observed': got}
    sub = {c: set(init['sub'][c]) for c in conns}
    for i, st in enumerate(beh[1:], 1):
        op = st['op']
        n0 = getattr(w, 'cs_count', 0)
        ch = w.execute(op, rnd, (forced or {}).get(str(i)))
        got = w.observe(op)
        d = _diff(st, got, conns, params)
        if op['a'] == 'Activate':
            sub[op['p']].add(op['x'])
        elif op['a'] != 'Tick':
            if getattr(w, 'cs_count', 0) == n0:
                d.append('lock')          # the operation never entered updateLock
        if got['unl']:
            d.append('lock')
        # the client-side replay of everything received must equal the cache for subscribed parameters
        for c in conns:
            for p in params:
                if ({'all', 'mod', p} & sub[c]) and got['s'][c][p] != _view(st['c'][p]):
                    d.append('seen')
        if 'raised' in ch:
            d.append('raised')
        if verbose:
            print(i, op, ch, '->', {k: got[k] for k in ('c', 'o')}, 'DIFF' if d else 'ok', d)
        if d:
            return {'step': i, 'op': op, 'choices': ch, 'diff': sorted(set(d)),
                    'expected': {'c': st['c'], 'o': st['o']},
                    'observed': {k: got[k] for k in ('c', 'w', 'o', 's', 'unl')}}
    return None


def _replay_job(job):
    idx, beh, shapes, seed = job
    res = []
    for k, shape in enumerate(shapes):
        res.append(_replay_one(beh, shape, f'r:{seed}:{idx}:{k}'))
    return res


def _signature(bad):
    ch = bad['choices']
    sig = {'module': 'ParamCache', 'action': bad['op']['a'], 'diff': '+'.join(bad['diff'])}
    for k in ('via', 'ret', 'rep', 'errobj'):
        if k in ch:
            sig[k] = ch[k]
    return sig


# ------------------------------------------------------------------ code -> spec: random histories

TR_PARAMS = ['p1', 'p2', 'p3', 'p4']
TR_VALS = ['a', 'b', 'c', 'd']
TR_ERRS = ['e1', 'e2', 'e3', 'e4']
TR_INVS = ['i1', 'i2']
TR_CONNS = ['c1', 'c2', 'c3']


def _random_init(rnd):
    omit = {p: rnd.choice([0, 0, 1, 2, 3, 5, NEVER]) for p in TR_PARAMS}
    nodefault = sorted(p for p in TR_PARAMS if rnd.random() < 0.5)
    scopes = [[], ['all'], ['all'], ['mod'], ['p1'], ['p2', 'p3']]
    sub = {cn: rnd.choice(scopes) for cn in TR_CONNS}
    sub['c1'] = ['all']
    dts = {p: rnd.choice(DTNAMES) for p in TR_PARAMS}
    c = {p: ['-', 'init', 0] if p in nodefault else [rnd.choice(['a', 'b']), 'ok', rnd.choice([0, 1])] for p in TR_PARAMS}
    how = {p: rnd.choice(['param', 'module', 'general', 'always']) for p in TR_PARAMS}
    init = {'op': {'a': 'Init', 'p': '-', 'x': '-', 'y': '-', 'n': 0}, 'omit': omit, 'nodefault': nodefault,
            'c': c, 'sub': sub, 'now': 1}
    return init, {'dts': dts, 'how': how}


def _random_op(rnd, sticky, avail=None):
    """biased towards repeating the previous parameter / value so that suppression paths are hit"""
    p = sticky.get('p') if rnd.random() < 0.6 and sticky.get('p') else rnd.choice(TR_PARAMS)
    vals = avail[p] if avail else TR_VALS
    v = sticky.get('v') if rnd.random() < 0.5 and sticky.get('v') in vals else rnd.choice(vals)
    e = sticky.get('e') if rnd.random() < 0.6 and sticky.get('e') else rnd.choice(TR_ERRS)
    sticky.update(p=p, v=v, e=e)
    r = rnd.random()
    mk = lambda a, x, y='-': {'a': a, 'p': p, 'x': x, 'y': y, 'n': 0}
    if r < 0.30:
        return mk('ReadOk', v)
    if r < 0.45:
        return mk('ReadRaise', e)
    if r < 0.52:
        return mk('ReadInvalid', rnd.choice(TR_INVS))
    if r < 0.67:
        return mk('Write', v, v if rnd.random() < 0.7 else rnd.choice(vals))
    if r < 0.82:
        return mk('Assign', v)
    if r < 0.90:
        return mk('AnnounceErr', e)
    if r < 0.94:
        return mk('AssignInvalid', rnd.choice(TR_INVS))
    return {'a': 'Activate', 'p': rnd.choice(TR_CONNS), 'x': rnd.choice(['all', 'mod'] + TR_PARAMS), 'y': '-', 'n': 0}


def _random_trace(job):
    seed, n = job
    rnd = random.Random(f't:{seed}')
    init, shape = _random_init(rnd)
    w = World(init, shape)
    first = dict(init)
    first['c'] = w.observe(init['op'])['c']
    tr = [first]
    sticky = {}
    for _ in range(n):
        if rnd.random() < 0.35:
            Clock.now += rnd.choice([1, 1, 1, 2, 3, 7])
        op = _random_op(rnd, sticky, w.avail)
        n0 = getattr(w, 'cs_count', 0)
        # the two recorded defects end a trace (the cache is off the specification afterwards): keep them rare
        forced = {}
        if op['a'] in ('ReadRaise', 'ReadInvalid') and rnd.random() < 0.97:
            forced = {'via': rnd.choice(['direct', 'request']), 'errobj': 'fresh'}
        if op['a'] == 'Write' and op['x'] == op['y'] and rnd.random() < 0.97:
            forced = {'ret': rnd.choice(['canon', 'value'])} if rnd.random() < 0.7 else {'ret': 'none', 'repk': 0, 'via': 'request'}
        ch = w.execute(op, rnd, forced)
        ev = w.observe(op)
        ev['lk'] = op['a'] == 'Activate' or getattr(w, 'cs_count', 0) > n0
        ev['ch'] = ch
        tr.append(ev)
        if 'raised' in ch:
            ev['lk'] = False
        deviates = (op['a'] == 'Write' and ch.get('ret') == 'none' and ch.get('rep') == 'raw') or \
                   (op['a'] in ('ReadRaise', 'ReadInvalid') and (ch.get('via') == 'poll' or ch.get('errobj') == 'reused'))
        if deviates:
            break
    return {'trace': tr, 'shape': shape, 'job': list(job)}


# ------------------------------------------------------------------ code -> spec: controlled real threads

def _threaded_trace(job):
    seed, nthreads, nops = job
    rnd = random.Random(f'th:{seed}')
    init, shape = _random_init(rnd)
    for p in TR_PARAMS[2:]:
        init['omit'][p] = 0
    w = World(init, shape)
    first = dict(init)
    first['c'] = w.observe(init['op'])['c']
    ctl = w.ctl
    w.tname = {}
    # scripts: operations on few parameters so that the threads really compete
    hot = rnd.sample(TR_PARAMS, 2)
    scripts = []
    for t in range(nthreads):
        ops = []
        for _ in range(nops):
            sticky = {'p': rnd.choice(hot)}
            while True:
                op = _random_op(rnd, sticky, w.avail)
                if op['a'] not in ('Activate', 'AssignInvalid') and op['p'] in hot:
                    break
            ops.append(op)
        scripts.append(ops)
    go = {}
    done_ops = {}
    errors = []

    def body(t):
        me = threading.get_ident()
        trnd = random.Random(f'th:{seed}:{t}')
        for k, op in enumerate(scripts[t]):
            with ctl.cv:
                ctl.state[me] = 'idle'
                ctl.cv.notify_all()
                while not go.get(me):
                    ctl.cv.wait()
                go[me] = False
            plan = plans[t][k]
            w.cur[me] = op
            w.pause_drv[me] = plan['drv']
            w.pause_send[me] = plan['send']
            try:
                forced = {'via': 'direct', 'errobj': 'fresh'} if op['a'].startswith('Read') else \
                         {'via': 'direct', 'ret': 'value' if op['x'] != op['y'] else trnd.choice(['canon', 'value'])} \
                         if op['a'] == 'Write' else {}
                ch = w.execute(op, trnd, forced)
                if 'raised' in ch:
                    errors.append((op, ch))
            except Exception as e:       # harness trouble inside a thread
                errors.append((op, repr(e)))
            if w.cur.get(me) is not None:
                # the operation finished without a critical section of updateLock: record it here, flagged
                ev = w.observe(op)
                ev['lk'] = False
                ev['th'] = 'T%d' % t
                w.events.append(ev)
                w.cur[me] = None
            w.pause_drv[me] = False
            w.pause_send[me] = None
            done_ops[t] = k + 1
        with ctl.cv:
            ctl.state[me] = 'done'
            ctl.cv.notify_all()

    plans = [[{'drv': op['a'] in ('ReadOk', 'ReadRaise', 'ReadInvalid', 'Write') and rnd.random() < 0.6,
               'send': rnd.choice(TR_CONNS) if rnd.random() < 0.4 else None} for op in ops] for ops in scripts]
    threads = []
    for t in range(nthreads):
        th = threading.Thread(target=body, args=(t,), daemon=True)
        threads.append(th)
    for t, th in enumerate(threads):
        with ctl.cv:
            th.start()
            ctl.state[th.ident] = 'running'
            w.tname[th.ident] = 'T%d' % t
    ctl.wait_stable()
    sched = []
    for _ in range(20 * nthreads * nops + 50):
        with ctl.cv:
            st = dict(ctl.state)
        if all(s == 'done' for s in st.values()):
            break
        moves = []
        for t, th in enumerate(threads):
            s = st[th.ident]
            if s == 'idle':
                moves.append(('start', t))
            elif s == 'paused':
                moves.append(('resume', t))
        # (a tick while a thread sits inside updateLock is fine: the event carries the clock at lock acquisition)
        moves.append(('tick', rnd.choice([1, 1, 2, 3])))
        if not [m for m in moves if m[0] != 'tick']:
            raise MachineryError(f'controlled execution stuck: {st} {ctl.where}')
        mv = rnd.choice(moves)
        sched.append(list(mv))
        if mv[0] == 'tick':
            Clock.now += mv[1]
            continue
        ident = threads[mv[1]].ident
        with ctl.cv:
            ctl.state[ident] = 'running'
            if mv[0] == 'start':
                go[ident] = True
            else:
                ctl.resume[ident] = True
            ctl.cv.notify_all()
        ctl.wait_stable()
    else:
        raise MachineryError('controlled execution did not finish')
    for th in threads:
        th.join(5)
    if errors:
        # an operation raised/did not raise against expectation: make the trace fail at a synthetic event
        w.events.append({'op': errors[0][0], 'now': int(Clock.now), 'c': {}, 'w': {}, 'o': {}, 's': {}, 'unl': 0,
                         'lk': False, 'err': str(errors[0][1])})
    return {'trace': [first] + w.events, 'shape': shape, 'scripts': scripts, 'plans': plans, 'sched': sched,
            'blocked': dict(ctl.blocked), 'job': list(job)}


# ------------------------------------------------------------------ check

def _trace_sig(ev, clause, mode):
    if ev is None:
        return {'module': 'ParamCache', 'mode': mode, 'diff': clause}
    sig = {'module': 'ParamCache', 'mode': mode, 'action': ev['op']['a'], 'diff': clause}
    for k in ('via', 'ret', 'rep', 'errobj'):
        if k in ev.get('ch', {}):
            sig[k] = ev['ch'][k]
    return sig


def _strip(tr):
    return [{k: v for k, v in ev.items() if k not in ('ch', 'th', 'err')} for ev in tr]


def run(chk):
    _run_agent(chk)
    from .c05_sched import run_sched
    run_sched(chk)      # deterministic-scheduler exploration, validated by ActivationObs (see c05_sched.py)


def _run_agent(chk):
    from concurrent.futures import ThreadPoolExecutor
    quick = chk.tier == 'quick'
    tier = 'quick' if quick else 'thorough'
    t00 = _time.time()
    phase = chk.notes.setdefault('phase_wall_s', {})
    chk.rule = ('spec->code: every behaviour of Gen_ParamCache (all histories over the alphabet to depth D, plus one '
                'behaviour per transition of the abstract state graph to depth D2) replayed on real modules, on K '
                'datatype/configuration shapes each, compared after every step; code->spec: random histories over 4 '
                'parameters / 4 values / 4 errors / 3 connections and controlled 2-3 thread executions validated by '
                'Trace_ParamCache. A case is distinct by (operation sequence, initial windows, shape); non-trivial = '
                'contains a suppressed announcement, an error or a recovery')
    for m in ('ParamCache', 'Gen_ParamCache', 'Trace_ParamCache', 'ParamCacheConc'):
        sany(m)
    ncpu = int(__import__('os').environ.get('VERIF_TLC_WORKERS', 0) or 0) or max(2, (__import__('os').cpu_count() or 4) // 3)
    gens = [f'Gen_ParamCache_{tier}.cfg', f'Gen_ParamCache_cover_{tier}.cfg'] if quick else \
           [f'Gen_ParamCache_thorough_{k}.cfg' for k in ('a', 'b')] + ['Gen_ParamCache_cover_thorough.cfg']
    # all TLC jobs are subprocesses: start them side by side (threads only wait for them)
    with ThreadPoolExecutor(max_workers=4) as ex:
        f_gen = [ex.submit(emit_behaviours, 'Gen_ParamCache', cfg, maximal_only=False, timeout=1100,
                           heap='3g' if quick else '8g') for cfg in gens[:2]]
        f_mc = [ex.submit(model_check, 'ParamCache', f'MC_ParamCache_{tier}.cfg', timeout=1100, workers=ncpu, heap='3g'),
                ex.submit(model_check, 'ParamCacheConc', f'MC_ParamCacheConc_{tier}.cfg', timeout=1100, workers=ncpu,
                          heap='3g' if quick else '8g'),
                ex.submit(run_tlc, 'ParamCacheConc', 'MC_ParamCacheConc_nolock.cfg', timeout=600, workers=2, heap='2g')]
        # every operation of the full alphabet (the two configurations above explore one representative per funnel call)
        f_mc.append(ex.submit(model_check, 'ParamCache', 'MC_ParamCache_full.cfg', timeout=600, workers=2, heap='2g'))
        if not quick:
            f_mc.append(ex.submit(model_check, 'ParamCacheConc', 'MC_ParamCacheConc_thorough3.cfg', timeout=1100,
                                  workers=ncpu, heap='8g'))
        f_gen += [ex.submit(emit_behaviours, 'Gen_ParamCache', cfg, maximal_only=False, timeout=1100, heap='8g')
                  for cfg in gens[2:]]

        # 3/4 code -> spec drivers run while TLC enumerates
        t0 = _time.time()
        n = 220 if quick else 1000
        seq = pool_map(_random_trace, [(chk.seed * 1000003 + i, 60 if quick else 80) for i in range(n)])
        n = 120 if quick else 1000
        thr = pool_map(_threaded_trace, [(chk.seed * 1000003 + i, 2 + i % 2, 3 if quick else 4) for i in range(n)])
        phase['drivers'] = round(_time.time() - t0, 1)
        probes = _corrupted(seq)
        f_tr = [ex.submit(_validate, seq + [p for p, _ in probes]), ex.submit(_validate, thr)]

        # 2 spec -> code
        nshape = 1
        nbeh = 0
        for cfg, f in zip(gens, f_gen):
            r, behs = f.result()
            chk.add_tlc(r)
            t0 = _time.time()
            jobs = [(nbeh + i, b, [_shape_for(nbeh + i, k, sorted(b[0]['omit']), chk.seed) for k in range(nshape)], chk.seed)
                    for i, b in enumerate(behs)]
            nbeh += len(behs)
            res = pool_map(_replay_job, jobs)
            for (i, beh, shapes, _), bads in zip(jobs, res):
                ops = [s['op'] for s in beh]
                nontriv = any(s['op']['a'] not in ('Tick', 'Activate') and
                              (all(not v for cv in s['o'].values() for v in cv.values()) or s['c'][s['op']['p']][1] != 'ok')
                              for s in beh[1:])
                for k, bad in enumerate(bads):
                    chk.impl_traces += 1
                    chk.case(json.dumps([ops, beh[0]['omit'], shapes[k]], sort_keys=True), nontriv)
                    if bad:
                        chk.violation(_signature(bad), {'behaviour': beh, 'shape': shapes[k],
                                                        'seedstr': f'r:{chk.seed}:{i}:{k}', **bad})
            if behs:
                chk.sample({'behaviour': [s['op'] for s in behs[len(behs) // 2]], 'shape': jobs[len(behs) // 2][2][0]}, limit=2)
            phase['replay ' + cfg] = round(_time.time() - t0, 1)
            del behs, jobs, res

        # 1 design checks
        for f in f_mc[:2] + f_mc[3:]:
            chk.add_tlc(f.result())
        r = f_mc[2].result()
        if not r.violated:
            raise MachineryError('ParamCacheConc without the update lock satisfies the invariants: they have no teeth')
        chk.notes['nolock_model_violates'] = r.violated[1]

        for mode, recs, f in (('seq', seq, f_tr[0]), ('thr', thr, f_tr[1])):
            _judge(chk, recs, mode, f.result())
        # binding self-test: the corrupted copies of recorded traces must be rejected at the corrupted event
        verdicts = f_tr[0].result()[0]
        for k, (_, at) in enumerate(probes):
            v = verdicts[len(seq) + k]
            if (v is None or v[0] > at) and not chk.violations:
                raise MachineryError(f'Trace_ParamCache accepts a corrupted trace (probe {k}, corrupted at {at}): {v}')
        chk.notes['corrupted_traces_rejected'] = len(probes)
    chk.sample({'threaded_schedule': thr[0]['sched'], 'scripts': thr[0]['scripts']}, limit=6)
    chk.notes['threaded_runs_with_lock_contention'] = {
        k: sum(1 for r in thr if r['blocked'][k]) for k in ('accessLock', 'updateLock')}
    if not chk.violations and not all(chk.notes['threaded_runs_with_lock_contention'].values()):
        raise MachineryError('controlled thread executions never contended for a lock: schedules are vacuous')
    chk.exhaustive = False
    chk.assumptions.append('thread interleavings are controlled at driver calls, send_reply and lock hand-over only '
                           '(line-level scheduling needs harness/detsched.py)')
    phase['total'] = round(_time.time() - t00, 1)


def _corrupted(recs):
    """copies of recorded traces with one field changed / one delivery dropped -> [(record, position 1-based)]"""
    res = []
    for r in recs:
        tr = r['trace']
        for l, ev in enumerate(tr[1:6], 2):
            p = ev['op']['p']
            if ev['op']['a'] in ('Activate', 'Tick') or not ev['o']['c1'].get(p):
                continue
            a = json.loads(json.dumps(tr))
            a[l - 1]['c'][p][2] += 1                       # wrong stamp in the cache
            res.append(({'trace': a}, l))
            b = json.loads(json.dumps(tr))
            b[l - 1]['o']['c1'][p] = []                    # a delivery is missing
            res.append(({'trace': b}, l))
            break
        if len(res) >= 4:
            break
    if not res:
        raise MachineryError('no recorded trace suitable for the corruption self-test')
    return res


def _validate(recs):
    return validate_traces('Trace_ParamCache', [_strip(r['trace']) for r in recs], 'Trace_ParamCache.cfg', timeout=1100)


def _judge(chk, recs, mode, result):
    verdicts, st, tr = result
    chk.states += st
    chk.transitions += tr
    for i, v in verdicts.items():
        if i >= len(recs):
            continue            # corruption probes, judged by the caller
        chk.impl_traces += 1
        chk.case(f'{mode}{i}', True)
        if v is not None:
            l = v[0]
            ev = recs[i]['trace'][l - 1] if 0 < l <= len(recs[i]['trace']) else None
            d = {k: recs[i][k] for k in recs[i] if k != 'trace'}
            chk.violation(_trace_sig(ev, v[1], mode), {'mode': mode, 'trace': recs[i]['trace'], 'failed_at': l, 'event': ev, **d})
    if recs:
        chk.sample({mode + '_trace_prefix': [e['op'] for e in recs[0]['trace'][:6]]}, limit=8)


def replay(chk, rep):
    d = rep['detail']
    if 'sched_scenario' in d:
        from .c05_sched import replay_sched
        replay_sched(rep)
        return 0
    if 'behaviour' in d:
        bad = _replay_one(d['behaviour'], d['shape'], d['seedstr'], verbose=True)
        print('shape:', d['shape'])
        print('first mismatch now:', json.dumps(bad, default=str)[:1500])
        print('recorded mismatch :', json.dumps({k: d[k] for k in ('step', 'op', 'choices', 'diff', 'expected', 'observed')},
                                               default=str)[:1500])
    else:
        for e in d['trace']:
            print({k: e.get(k) for k in ('th', 'op', 'now', 'c', 'o', 'unl', 'lk', 'ch') if k in e})
        print('rejected at event', d['failed_at'], ':', d.get('event', {}) and d['event'].get('op'))
        v, _, _ = validate_traces('Trace_ParamCache', [_strip(d['trace'])], 'Trace_ParamCache.cfg')
        print('Trace_ParamCache verdict on the recorded trace:', v[0])
        if 'job' in d:
            rec = (_threaded_trace if d['mode'] == 'thr' else _random_trace)(tuple(d['job']))
            v, _, _ = validate_traces('Trace_ParamCache', [_strip(rec['trace'])], 'Trace_ParamCache.cfg')
            print('re-executed', d['mode'], 'job', d['job'], '->', len(rec['trace']), 'events, verdict now:', v[0])
            if v[0]:
                print('   event:', rec['trace'][v[0][0] - 1])
    return 0
