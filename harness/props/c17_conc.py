"""C17, concurrent part: several threads of one module save its persistent parameters.

spec/PersistentConc.tla        design level: a save (serialise .. rename .. remove) on the shared temp file must be
                               one critical section (Locked); the unlocked variant violates FileIsSnapshot
spec/Trace_PersistentConc.tla  observable level: after every file-system step the target file is absent or a
                               complete snapshot of the values at some moment; at quiescence the last values
Binding: a real PersistentMixin module (auto-persistent parameters) on the FakeFS of c17.py, 2-3 threads under the
deterministic scheduler (harness/detsched.py); every file-system call is a scheduling point before and after, as
is every lock operation; bounded-preemption DFS + random schedules; TLC validates each execution."""
import json

from .. import detsched as ds
from ..core import MachineryError, model_check, pool_map, run_tlc, sany, validate_traces
from ..env import boot
from . import c17

# threads -> scripts; ('set', i, k): attribute assignment of parameter i to its k-th catalogue value (the driver's own
# thread), ('ann', i, k): announceUpdate (a value read back), ('save',): explicit saveParameters() (as a state
# machine / doPoll does, e.g. frappy_psi.phytron check_moving)
SCEN = {
    'two_assign': ('auto_only', ('int', 'string', 'int'), [0, 1, 2],
                   {'t1': [('set', 0, 1)], 't2': [('set', 1, 1)]}),
    'assign_announce': ('auto_only', ('int', 'struct', 'scaled'), [0, 1, 2],
                        {'t1': [('set', 0, 1), ('set', 0, 2)], 't2': [('ann', 1, 1)], 't3': [('set', 2, 1)]}),
    'same_param': ('auto_only', ('int', 'enum'), [0, 1],
                   {'t1': [('set', 0, 1)], 't2': [('set', 0, 2), ('ann', 1, 2)]}),
    'explicit_save': ('explicit_save', ('int', 'int'), [0],
                      {'t1': [('set', 0, 1)], 't2': [('set', 1, 1), ('save',)]}),
    'explicit_twice': ('explicit_save', ('int', 'array'), [],
                       {'t1': [('set', 0, 1), ('save',)], 't2': [('set', 1, 1), ('save',)]}),
}


def run_scenario(name, strategy, buffered=False):
    boot()
    import frappy.modulebase as mb
    import frappy.persistent as fp
    kind, types, auto, scripts = SCEN[name]
    s = ds.Scheduler(strategy, max_steps=20000)
    trace = []
    with ds.Patch(mb, fp):
        w = c17.World(types, auto=auto, haswrite=[], buffered=buffered)
        w.recording = False
        if w.start() != 'ok':
            raise MachineryError('concurrent scenario: the module does not start: %s' % w.start_error)
        m = w.m
        trace.append({'ev': 'init', 'target': w.target_class(), 'cur': w.cur_class()})

        def hook(phase, op, path, ev):
            me = s.me()
            if me is None or s.aborting:
                return
            if op == 'write' and phase == 'pre' and w.fs.files.get(str(path)):
                return          # only the first write of a file is a scheduling point (the file is partial then)
            if phase == 'pre':
                trace.append({'ev': 'pre', 'th': me.name, 'op': op, 'target': w.target_class(), 'cur': w.cur_class()})
            else:
                trace.append({'ev': 'fs', 'th': me.name, 'op': op, 'out': ev.get('outcome', '?').split(':')[0],
                              'target': w.target_class(), 'cur': w.cur_class()})
                if op == 'write' and len(w.fs.files.get(str(path), b'')) > 8:
                    return
            s.yield_('fs')

        w.fs.hook = hook
        w.fs.arm()
        c17._FS[0] = w.fs

        def body(script):
            for a in script:
                try:
                    if a[0] == 'set':
                        p = w.pnames[a[1]]
                        setattr(m, p, w.values[p][a[2]])
                    elif a[0] == 'ann':
                        p = w.pnames[a[1]]
                        m.announceUpdate(p, w.values[p][a[2]])
                    else:
                        m.saveParameters()
                except ds.SchedAbort:
                    raise
                except Exception as e:
                    trace.append({'ev': 'raised', 'th': s.me().name, 'what': type(e).__name__})

        for t, script in sorted(scripts.items()):
            s.spawn(t, body, script)
        s.run()
        w.fs.hook = None
        broken = s.deadlock or s.livelock or any(t.exc is not None for t in s.threads.values())
        trace.append({'ev': 'end' if not broken else 'broken', 'target': w.target_class(), 'cur': w.cur_class()})
    tr = []
    for e in trace:
        if e['ev'] != 'raised' and not (tr and tr[-1] == e):      # (runs of identical write events: one is enough)
            tr.append(e)
    return {'choices': [c for _, c in s.choices], 'raw_choices': list(s.choices), 'trace': tr, 'full': trace}


def _explore(args):
    name, mode, seed, nruns = args
    out = []
    if mode == 'dfs':
        class Run:
            def __init__(self, r):
                self.choices = r['raw_choices']
                self.res = r

        for st in ds.explore(lambda strat: Run(run_scenario(name, strat, seed % 2 == 1)), max_preemptions=2,
                             max_runs=nruns, max_depth=300):
            out.append((st.res['choices'], st.res['trace'], seed % 2 == 1))
    else:
        for k in range(nruns):
            r = run_scenario(name, ds.RandomStrategy(seed * 7919 + k, stay=0.6 + 0.15 * (k % 3)), k % 2 == 1)
            out.append((r['choices'], r['trace'], k % 2 == 1))
    return name, out


def add(chk):
    """called from C17's run(): design check of the lock, schedules of the real code, verdicts"""
    quick = chk.tier == 'quick'
    for mod in ('PersistentConc', 'Trace_PersistentConc'):
        sany(mod)
    chk.add_tlc(model_check('PersistentConc', 'MC_PersistentConc_locked.cfg', timeout=300))
    r = run_tlc('PersistentConc', 'MC_PersistentConc_unlocked.cfg', timeout=300)
    chk.add_tlc(r)
    if not r.violated or r.violated[1] != 'FileIsSnapshot':
        raise MachineryError(f'the unlocked save design was expected to violate FileIsSnapshot: {r.violated or r.error}')
    jobs = []
    for name in SCEN:
        jobs.append((name, 'dfs', chk.seed, 60 if quick else 1500))
        jobs.append((name, 'rnd', chk.seed + 3, 40 if quick else 1000))
    traces, origin, seen = [], [], set()
    for name, out in pool_map(_explore, jobs, chunksize=1):
        for choices, tr, buffered in out:
            k = (name, tuple(choices), buffered)
            if k not in seen:
                seen.add(k)
                traces.append(tr)
                origin.append((name, choices, buffered))
    verdicts, st, trn = validate_traces('Trace_PersistentConc', traces, 'Trace_PersistentConc.cfg', timeout=900)
    chk.states += st
    chk.transitions += trn
    for i, v in verdicts.items():
        name, choices, buffered = origin[i]
        chk.impl_traces += 1
        chk.case(('conc', name, tuple(choices), buffered), len(set(choices)) > 1)
        if v is not None:
            l = v[0]
            ev = traces[i][l - 1] if 0 < l <= len(traces[i]) else {}
            chk.violation({'module': 'PersistentConc', 'clause': v[1], 'path': SCEN[name][0], 'event': ev.get('ev'),
                           'op': ev.get('op', '')},
                          {'kind': 'conc', 'scenario': name, 'choices': choices, 'buffered': buffered,
                           'failed_at': l, 'clause': v[1], 'event': ev})
    chk.notes['concurrent_save_schedules'] = len(traces)


def replay(chk, rep):
    d = rep['detail']
    r = run_scenario(d['scenario'], ds.GuidedStrategy(d['choices']), d.get('buffered', False))
    for k, e in enumerate(r['full'], 1):
        print(json.dumps(e))
    print('rejected at event', d['failed_at'], 'of the trace without "raised" events, clause', d['clause'])
    return 0
