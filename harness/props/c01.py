"""C01 - Datatype validation is sound, canonical and total.

spec/Datatypes.tla (oracle Val(dt, c, prev, path) = set of allowed outcomes, laws Total / Sound /
Idempotent / PrevFree checked by TLC on the model itself).
  spec -> code : Gen_Datatypes (sharded over TLC processes) prints every case of every catalogue
                 datatype with its allowed outcome set; each case is executed on the real frappy
                 datatype (built with the constructors and rebuilt from its description) on the
                 wire path (import_value + validate(value, previous)), the write path
                 (validate(value, previous)) and the call path (__call__); verdict = membership.
  code -> spec : seeded random datatypes and concrete python/JSON values far outside the catalogue
                 (1e308, denormals, 2^80, long / non-ASCII text, deep nesting) are executed, projected
                 with exact rational arithmetic and judged by TLC (Trace_Datatypes).
Failing container cases are localised by judging their element sub-cases with TLC as well, so that a
defect is reported with the datatype kind and candidate class where it sits.
"""
import json
import random

from .. import dt_common as dc
from ..core import MachineryError, model_check, pool_map, run_tlc, sany

META = {
    'text': 'TLC checks the abstract SECoP type algebra against its own laws (every accepted result lies in the declared '
            'value set and denotes the offered value, validation is total, idempotent and independent of the previous '
            'value) and enumerates every (datatype tree, candidate, previous value, path) case of the boundary and '
            'wrong-kind catalogues with the set of outcomes the property allows; every case is executed on the real '
            'frappy datatypes (constructor-built and rebuilt from the description) and the projected outcome must be a '
            'member of that set. Seeded random types and extreme concrete values are judged by TLC after exact rational '
            'classification. Bounded: catalogue of 16 leaf types, trees to depth 2 (quick) / 3 (thorough).',
    'note': 'Trusted: TLC; gamma/alpha in harness/dt_common.py (alpha(gamma(c)) = c is re-checked on every run). Numbers are '
            'dyadic ticks (2^-4), relative resolution in {0, 2^-3}; one-ulp neighbours of the tolerance boundary and NaN '
            'handed through __call__ by a driver are not decided; error class is free where the property does not fix it.',
    'tech': 'TLA+ spec (Datatypes.tla) + TLC model checking; spec->code replay of all TLC-enumerated cases; code->spec TLC '
            'judgement of recorded random executions',
    'ref': 'DESIGN.md section 5 C01',
}

NSHARDS = {'quick': 8, 'thorough': 16}


# ------------------------------------------------------------------ spec -> code

def _gen_shard(arg):
    return dc.safe(_gen_shard0, arg)


def _gen_shard0(arg):
    tier, shard, nshards = arg
    r = run_tlc('Gen_Datatypes', 'Gen_Datatypes.cfg', workers=1, timeout=1100,
                env={'DT_TIER': tier, 'DT_SHARD': shard, 'DT_NSHARDS': nshards,
                     'JAVA_TOOL_OPTIONS': '-XX:ParallelGCThreads=2'})
    if r.violated or not r.ok:
        raise MachineryError(f'Gen_Datatypes shard {shard}: {r.violated or r.error}\n{r.out[-2500:]}')
    res = {'tlc': (r.distinct, r.generated, r.depth, r.wall), 'cases': 0, 'execs': 0, 'keys': [], 'fails': [],
           'selfcheck': [], 'sample': None, 'types': 0}
    for rec in r.printed('DT'):
        dt = rec['dt']
        res['types'] += 1
        obj = dc.build_type(dt)
        objs = (('ctor', obj), ('rebuilt', dc.second_object(obj, dt)))
        dtk = dc.key(dt)
        for case in rec['cases']:
            c, p, path = case['c'], case['p'], case['path']
            allowed = {dc.key(o) for o in case['allowed']}
            res['cases'] += 1
            if not dc.gamma_alpha_ok(c) or not dc.typed_gamma_alpha_ok(c, dt):
                res['selfcheck'].append(c)
            nontrivial = case['allowed'] != [{'ok': False, 'e': 'WrongType'}]
            if nontrivial:
                res['keys'].append(hash((dtk, dc.key(c), dc.key(p), path)))
            for via, o in objs:
                out, raw = dc.run_case(o, dt, c, p, path)
                res['execs'] += 1
                if dc.key(out) not in allowed:
                    res['fails'].append({'kind': 'case', 'dt': dt, 'c': c, 'p': p, 'path': path, 'out': out, 'via': via})
                elif out['ok']:
                    bad = dc.revalidate(o, dt, raw, path)
                    if bad:
                        res['fails'].append({'kind': 'idem', 'dt': dt, 'c': c, 'p': p, 'path': path, 'out': out,
                                             'via': via, 'idem': bad})
            if res['sample'] is None and nontrivial and dt['k'] == 'tuple' and out['ok']:
                res['sample'] = {'type': dc.show_type(dt), 'candidate': dc.show(c), 'path': path,
                                 'allowed': [dc.show_outcome(o) for o in case['allowed']], 'observed': dc.show_outcome(out)}
    return res


# ------------------------------------------------------------------ code -> spec

def _rand_records(arg):
    return dc.safe(_rand_records0, arg)


def _rand_records0(arg):
    seed, n = arg
    rnd = random.Random(seed)
    recs = []
    while len(recs) < n:
        dt = dc.rand_type(rnd, rnd.choice((0, 0, 1, 1, 2, 3)))
        obj = dc.build_type(dt)
        objs = (obj, dc.second_object(obj, dt))
        for _ in range(6):
            conc = dc.rand_value(rnd, dt)
            path = rnd.choice(('wire', 'write', 'call'))
            if path == 'wire':
                try:
                    conc = dc.wire_value(conc)
                except (TypeError, ValueError):
                    path = 'write'
            c = dc.relativise(dc.cand_abs(conc, dc.is_literal), conc, dt, path)
            if dc.ungrounded(dt, c, path):
                continue          # a plain number the model cannot place on the grid of a (g/b)scaled position: not a case
            p = dc.NONE
            prev = None
            if path != 'call' and rnd.random() < 0.4:
                p = dc.rand_prev(rnd, dt, c)
                prev = None if p['j'] == 'none' else dc.concrete(p, dt, obj, internal=True)
            which = rnd.randrange(2)
            o = objs[which]
            if path == 'wire':
                out, _ = dc.outcome_of(lambda: o.validate(o.import_value(conc), prev), dt, c, conc, p, prev)
            elif path == 'write':
                out, _ = dc.outcome_of(lambda: o.validate(conc, prev), dt, c, conc, p, prev)
            else:
                out, _ = dc.outcome_of(lambda: o(conc), dt, c, conc)
            recs.append({'kind': 'case', 'dt': dt, 'c': c, 'p': p, 'path': path, 'out': out, 'via': ('ctor', 'rebuilt')[which],
                         'src': 'random', 'conc': repr(conc)[:300], '_conc': conc})
    return recs


JUDGE_FIELDS = ('kind', 'dt', 'c', 'p', 'path', 'out')
judge = dc.judge
rkey = dc.rkey


def _run_child(dt, c, p, path, via, conc=None):
    obj = dc.build_type(dt)
    if via == 'rebuilt':
        obj = dc.second_object(obj, dt)
    out, _ = dc.run_case(obj, dt, c, p, path, conc)
    r = {'kind': 'case', 'dt': dt, 'c': c, 'p': p, 'path': path, 'out': out, 'via': via}
    if conc is not None:
        r['_conc'] = conc
    return r


def _kids(r):
    """element sub-cases, executed on the same kind of datatype object and - where the record carries
    them - with the very concrete element values of the failing case"""
    res = []
    kids = dc.children(r['dt'], r['c'], r['p'])
    concs = dc.concrete_children(r['dt'], r['c'], r['_conc']) if '_conc' in r else None
    for i, (sdt, sc, sp) in enumerate(kids):
        if r['path'] == 'wire' and dc.has_internal(sc):
            continue
        conc = concs[i] if concs is not None and len(concs) == len(kids) else None
        if sp['j'] != 'none' and r['dt']['k'] == 'struct' or r['path'] == 'call':
            sp = dc.NONE      # StructOf does not hand the previous value down: judge the member as the container ran it
        res.append(_run_child(sdt, sc, sp, r['path'], r.get('via', 'ctor'), conc))
    return res


def localise(chk, failing):
    return dc.localise(chk, failing, _kids)


def signature(r, clause):
    sig = _signature(r, clause)
    if r['out']['ok'] and r['out']['v'].get('j') == 'special':
        sig['result'] = 'non-finite'          # what came back, not a verdict: nan / +-inf returned as a value
    return sig


def _signature(r, clause):
    return {'module': 'Datatypes', 'kind': r['dt']['k'], 'cand': dc.cand_class(r['dt'], r['c']), 'clause': clause,
            'got': 'ok' if r['out']['ok'] else r['out']['e'], 'path': r['path'], 'prev': dc.prev_class(r['c'], r['p'])}


def shape_key(r):
    """type kinds, candidate classes at every position, outcome class, path, previous class"""
    def tk(dt):
        k = dt['k']
        if k == 'array':
            return 'array(%s)' % tk(dt['el'])
        if k == 'tuple':
            return 'tuple(%s)' % ','.join(tk(e) for e in dt['els'])
        if k == 'struct':
            return 'struct(%s;%d)' % (','.join(tk(m['t']) for m in dt['mem']), len(dt['opt']))
        return k

    def ck(dt, c, p):
        kids = dc.children(dt, c, p)
        return dc.cand_class(dt, c) + ('[%s]' % ','.join(ck(*x) for x in kids) if kids else '')
    o = r['out']
    return (tk(r['dt']), ck(r['dt'], r['c'], r['p']), 'ok' if o['ok'] else o['e'], r['path'], dc.prev_class(r['c'], r['p']))


def report(chk, failing, idem):
    # localise a few representatives of every shape class; all failing cases are counted
    groups = {}
    for r in failing:
        groups.setdefault(shape_key(r), []).append(r)
    reps = [r for g in groups.values() for r in g[:2]]
    chk.notes['failing_cases'] = len(failing)
    chk.notes['failing_shapes'] = len(groups)
    for root, clause, top in localise(chk, reps):
        sig = signature(root, clause)
        chk.violation(sig, {'case': {k: root[k] for k in JUDGE_FIELDS}, 'type': dc.show_type(root['dt']),
                            'candidate': dc.show(root['c']), 'previous': dc.show(root['p']), 'path': root['path'],
                            'observed': dc.show_outcome(root['out']), 'clause': clause, 'via': root.get('via', 'ctor'),
                            'conc': repr(root['_conc']) if '_conc' in root else None,
                            'seen_in': {'type': dc.show_type(top['dt']), 'candidate': dc.show(top['c']),
                                        'via': top.get('via'), 'src': top.get('src', 'enumerated'), 'conc': top.get('conc')}})
    for r in idem:
        sig = {'module': 'Datatypes', 'kind': r['dt']['k'], 'cand': dc.cand_class(r['dt'], r['c']),
               'clause': 'idempotent', 'again': r['idem']['again'], 'path': r['path']}
        chk.violation(sig, {'case': {k: r[k] for k in JUDGE_FIELDS}, 'type': dc.show_type(r['dt']),
                            'candidate': dc.show(r['c']), 'idem': r['idem']})


def run(chk):
    quick = chk.tier == 'quick'
    chk.rule = ('a case = (datatype tree, candidate value, previous value, path in {wire, write, call}); distinct by that '
                'tuple; non-trivial = the allowed outcome set is not just {WrongType} (i.e. the candidate is of a kind the '
                'type may accept, or a limit/length/membership decides). Enumerated cases come from TLC (Gen_Datatypes: '
                'boundary catalogue derived from the type + wrong-kind catalogue at every position), each executed on the '
                'constructor-built and on the rebuilt datatype; random cases are judged by TLC (Trace_Datatypes).')
    for m in ('Datatypes', 'Gen_Datatypes', 'Trace_Datatypes'):
        sany(m)
    # 1 the oracle's own laws on a small type set (they are checked again on every emitted shard)
    chk.add_tlc(model_check('Datatypes', 'MC_Datatypes_quick.cfg' if quick else 'MC_Datatypes_thorough.cfg', timeout=1100))

    # 2 spec -> code
    n = NSHARDS[chk.tier]
    failing, idem = [], []
    for res in pool_map(_gen_shard, [(chk.tier, s, n) for s in range(n)], chunksize=1):
        d, g, dep, wall = res['tlc']
        chk.states += d
        chk.transitions += g
        chk.notes.setdefault('tlc_runs', []).append({'distinct': d, 'generated': g, 'depth': dep, 'wall_s': round(wall, 1),
                                                     'cases': res['cases']})
        chk.evaluations += res['cases']
        chk.distinct.update(res['keys'])
        chk.impl_traces += res['execs']
        chk.notes['datatype_trees'] = chk.notes.get('datatype_trees', 0) + res['types']
        if res['selfcheck']:
            raise MachineryError('alpha(gamma(c)) != c for ' + json.dumps(res['selfcheck'][0]))
        if res['sample']:
            chk.sample(res['sample'])
        for r in res['fails']:
            (idem if r['kind'] == 'idem' else failing).append(r)

    # 3 code -> spec
    nrec = 4000 if quick else 60000
    per = 500
    batches = pool_map(_rand_records, [(chk.seed * 7919 + i, per) for i in range(nrec // per)])
    recs = [r for b in batches for r in b]
    # binding self test: corrupted copies of accepted records must be rejected by TLC
    probes = []
    for r in recs:
        if r['out']['ok'] and r['dt']['k'] == 'int' and r['c']['j'] == 'int' and not probes:
            x = {k: json.loads(json.dumps(r[k])) for k in JUDGE_FIELDS}
            x['out']['v']['n'] += 1                      # another number than the one offered
            y = {k: json.loads(json.dumps(r[k])) for k in JUDGE_FIELDS}
            y['out'] = {'ok': False, 'e': 'OTHER:TypeError'}   # an exception that is not a bad-value error
            probes += [x, y]
    verdicts = judge(chk, recs + probes)
    if probes:
        chk.notes['binding_selftest'] = 'corrupted case records -> ' + str(verdicts[len(recs):])
        if any(v is None for v in verdicts[len(recs):]):
            raise MachineryError('Trace_Datatypes accepted a corrupted record')
    for r, v in zip(recs, verdicts):
        chk.impl_traces += 1
        chk.case(hash(rkey(r)), True)
        if v is not None:
            failing.append(r)
    chk.sample({'random_case': {'type': dc.show_type(recs[0]['dt']), 'value': recs[0]['conc'], 'path': recs[0]['path'],
                                'observed': dc.show_outcome(recs[0]['out'])}})
    report(chk, failing, idem)
    chk.exhaustive = False
    chk.assumptions += ['numbers are dyadic ticks of 2^-4 in the enumerated catalogue; other floats are classified as open '
                        'tick intervals and judged loosely where the tolerance boundary falls inside the interval',
                        'a parameter never holds a tuple of wrong arity or an invalid value as previous value']


def replay(chk, rep):
    import math
    d = rep['detail']
    case = d['case']
    dt, c, p, path = case['dt'], case['c'], case['p'], case['path']
    obj = dc.build_type(dt)
    conc = None
    if d.get('conc'):      # the very concrete value of a random case
        try:
            conc = eval(d['conc'], {'__builtins__': {}}, {'nan': math.nan, 'inf': math.inf})   # noqa: literal from our own replay file
        except Exception:   # noqa
            conc = None
    print('type     :', dc.show_type(dt), '->', repr(obj))
    print('candidate:', dc.show(c), '->', repr(dc.concrete(c, dt, obj) if conc is None else conc),
          ' previous:', dc.show(p), ' path:', path)
    out = None
    for via, o in (('ctor', obj), ('rebuilt', dc.second_object(obj, dt))):
        o1, raw = dc.run_case(o, dt, c, p, path, conc)
        print(f'observed ({via}):', dc.show_outcome(o1), ' raw:', repr(raw))
        if via == d.get('via', 'ctor'):
            out = o1
    v = judge(chk, [dict(case, kind='case', out=out)])[0]
    print('TLC verdict:', 'allowed' if v is None else 'violates clause ' + v)
    print('recorded   :', d.get('observed'), d.get('clause'), d.get('seen_in'))
    return 0
