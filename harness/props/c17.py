"""C17 - Persistent parameters: crash-atomic, exact round trip, retried after failure.

spec/Persistent.tla.  Binding:
  spec -> code : every behaviour of Gen_Persistent (value histories x a crash / I/O error at every
                 file-system operation of every save x corruptions x restart configurations) is
                 replayed on a REAL PersistentMixin module living on an in-memory file system
                 (FakeFS) that is patched behind the names frappy/persistent.py uses; the projected
                 state (target file class, parameter values, writeDict, "next save would be
                 skipped") is compared with what TLC printed after every step.
  code -> spec : every one of these executions, plus seeded random histories over a wider value /
                 datatype catalogue with random multi-faults, plus exhaustive "fault at every
                 concrete FS call" sweeps, plus corruption sweeps of stored files (truncation at
                 EVERY byte, single bit flips, JSON kind changes, unknown keys, bad entries), is
                 recorded as an event trace and validated by TLC against Trace_Persistent.
"""
import errno
import json
import os as _os
import posixpath
import random
import re
from pathlib import PurePosixPath

from ..core import SPEC, MachineryError, model_check, pool_map, run_tlc, sany, validate_traces
from ..env import LoggerStub, boot

META = {
    'text': 'TLC model-checks the save/crash/restart design (abstract disk, a crash or I/O error before every '
            'file-system operation of every save, corruptions between runs) against Atomic, Retry, RoundTrip, '
            'Precedence and Tolerant; every behaviour TLC enumerates (value histories x fault position x restart '
            'configuration x corruption class) is replayed on the real PersistentMixin running on an in-memory file '
            'system with fault injection at the selected call, comparing file class / parameter values / writeDict / '
            'skip-flag after every step (runs of the known early-believed deviation are matched against the Dev variant '
            'of the spec and validated to their end); sampled executions, random multi-fault histories over 13 '
            'datatypes incl. loadParameters(), faults at every concrete FS call (buffered and unbuffered writes) and '
            'byte-level corruption sweeps of stored files are validated by TLC as traces (Trace_Persistent). Also in the '
            'alphabet: loadParameters, factory_reset, changes by write / driver / read-back, refused values and failing '
            'hardware, parameters without default ("not initialized" flag), configured defaults, persistent limits, '
            'persistent = off / not persistent parameters and foreign keys, removal of the directory under the process.',
    'note': 'Trusted: TLC; the FakeFS (written data reaches the disk per write() call or only at flush/close - both '
            'modes are run; a crash drops all later operations; no reordering of rename vs data as a real disk '
            'without fsync could do); datatypes '
            'validate(import_value(x)) as the oracle for "entry is usable" (C01/C02 territory); I/O errors while '
            '*reading* at start-up are outside the alphabet; concurrent saves: 2-3 threads, <= 2 preemptions (DFS) '
            'plus random schedules, file-system calls and lock operations as scheduling points (no fault injection '
            'combined with concurrency).',
    'tech': 'TLA+ spec (Persistent.tla) + TLC model checking; spec->code replay of all TLC behaviours with fault '
            'injection; code->spec TLC trace validation (Trace_Persistent) incl. corruption sweeps',
    'ref': 'DESIGN.md section 5 C17',
}

ROOT = '/fakefs/log'
TARGET = ROOT + '/persistent/eq.m.json'


# ============================================================================ fake file system

class Crash(BaseException):
    """the process dies here: unwinds everything, later FS operations are dropped"""


_FS = [None]     # the file system the patched names act on (one world at a time per process)


def _fs():
    return _FS[0]


class FakeFS:
    """in-memory file system; every call is an event and a possible fault / crash point"""

    def __init__(self):
        self.files = {}          # path -> bytes
        self.dirs = {'/', '/fakefs', ROOT}
        self.dead = False
        self.plan = {}           # op index (within the armed window) -> 'crash' | 'ioerror'
        self.n = 0               # op index within the armed window
        self.window = []         # events of the armed window
        self.observer = None     # called after every op: observer(event)
        self.fired = []
        self.fdcount = 100
        self.hook = None         # hook(phase, kind, path): 'pre' before / 'post' after every call (scheduling points)
        self.buffered = False    # True: written data reaches the disk only at flush()/close() (lost in a crash)
        self.handles = {}        # path -> open writable handles (they follow the file when it is renamed)

    # -- fault window
    def arm(self, plan=None):
        self.plan = dict(plan or {})
        self.n = 0
        self.window = []
        self.fired = []

    def revive(self):
        """a new process starts on the same disk"""
        self.dead = False
        self.arm()

    def op(self, kind, path, apply, dropped=None):
        path = str(path)
        idx = self.n
        self.n += 1
        ev = {'i': idx, 'op': kind, 'name': path}
        if self.hook:
            self.hook('pre', kind, path, ev)
        if self.dead:
            # nothing reaches the disk any more; keep unwinding
            ev['outcome'] = 'dropped'
            self.window.append(ev)
            raise Crash()
        f = self.plan.get(idx)
        if f == 'crash':
            self.dead = True
            ev['outcome'] = 'crash'
            self.fired.append((idx, kind, 'crash'))
            self._done(ev)
            raise Crash()
        if f == 'ioerror':
            ev['outcome'] = 'error'
            self.fired.append((idx, kind, 'ioerror'))
            self._done(ev)
            raise OSError(errno.EIO, 'injected I/O error', path)
        try:
            res = apply()
        except OSError as e:
            ev['outcome'] = 'oserror:' + type(e).__name__
            self._done(ev)
            raise
        ev['outcome'] = 'ok'
        self._done(ev)
        return res

    def _done(self, ev):
        self.window.append(ev)
        if self.observer:
            self.observer(ev)
        if self.hook:
            self.hook('post', ev['op'], ev['name'], ev)

    # -- primitive semantics (no events)
    def _isdir(self, p):
        return str(p) in self.dirs

    def _need_parent(self, p):
        if posixpath.dirname(p) not in self.dirs:
            raise FileNotFoundError(errno.ENOENT, 'No such file or directory', p)

    def _makedirs(self, p, exist_ok):
        p = str(p)
        if p in self.files:
            raise FileExistsError(errno.EEXIST, 'File exists', p)
        if p in self.dirs:
            if not exist_ok:
                raise FileExistsError(errno.EEXIST, 'File exists', p)
            return
        parts = p.strip('/').split('/')
        for k in range(1, len(parts) + 1):
            self.dirs.add('/' + '/'.join(parts[:k]))

    def _mkdir(self, p, parents=False, exist_ok=False):
        p = str(p)
        if parents:
            return self._makedirs(p, exist_ok)
        if p in self.dirs or p in self.files:
            if exist_ok and p in self.dirs:
                return None
            raise FileExistsError(errno.EEXIST, 'File exists', p)
        self._need_parent(p)
        self.dirs.add(p)
        return None

    def _rename(self, a, b):
        a, b = str(a), str(b)
        if a not in self.files:
            raise FileNotFoundError(errno.ENOENT, 'No such file or directory', a)
        if b in self.dirs:
            raise IsADirectoryError(errno.EISDIR, 'Is a directory', b)
        self._need_parent(b)
        self.files[b] = self.files.pop(a)
        for h in self.handles.pop(a, []):
            h.name = b
            self.handles.setdefault(b, []).append(h)

    def _remove(self, p):
        p = str(p)
        if p not in self.files:
            raise FileNotFoundError(errno.ENOENT, 'No such file or directory', p)
        del self.files[p]
        for h in self.handles.pop(p, []):
            h.name = None      # unlinked: data written from now on is invisible

    def _open(self, p, mode):
        p = str(p)
        if p in self.dirs:
            raise IsADirectoryError(errno.EISDIR, 'Is a directory', p)
        if 'r' in mode and '+' not in mode:
            if p not in self.files:
                raise FileNotFoundError(errno.ENOENT, 'No such file or directory', p)
        else:
            self._need_parent(p)
            if 'x' in mode and p in self.files:
                raise FileExistsError(errno.EEXIST, 'File exists', p)
            if 'w' in mode or 'x' in mode or p not in self.files:
                self.files[p] = b''


class FakeFile:
    def __init__(self, fs, path, mode, encoding=None):
        self.fs = fs
        self.name = str(path)
        self.mode = mode
        self.binary = 'b' in mode
        self.encoding = encoding or 'utf-8'
        self.closed = False
        self.pos = 0
        self.fd = fs.fdcount
        fs.fdcount += 1
        self.writable_ = any(c in mode for c in 'wax+')
        self.buf = b''
        if self.writable_:
            fs.handles.setdefault(self.name, []).append(self)

    def _apply_write(self, data):
        b = data if self.binary else data.encode(self.encoding)
        if self.fs.buffered:
            self.buf += bytes(b)
        elif self.name in self.fs.files:
            self.fs.files[self.name] += bytes(b)

    def _sync(self):
        if self.buf and self.name in self.fs.files:
            self.fs.files[self.name] += self.buf
        self.buf = b''

    def write(self, data):
        if self.closed:
            raise ValueError('I/O operation on closed file.')
        self.fs.op('write', self.name or '(unlinked)', lambda: self._apply_write(data))
        return len(data)

    def writelines(self, lines):
        for x in lines:
            self.write(x)

    def read(self, n=-1):
        def rd():
            raw = self.fs.files.get(self.name, b'')[self.pos:]
            self.pos += len(raw)
            return raw if self.binary else raw.decode(self.encoding)
        return self.fs.op('read', self.name, rd)

    def readline(self):
        txt = self.read()
        return txt

    def readlines(self):
        return self.read().splitlines(True)

    def __iter__(self):
        return iter(self.readlines())

    def flush(self):
        if self.writable_ and not self.closed:
            self.fs.op('flush', self.name or '(unlinked)', self._sync)

    def fileno(self):
        return self.fd

    def truncate(self, size=None):
        def tr():
            self.fs.files[self.name] = self.fs.files.get(self.name, b'')[:size or 0]
        self.fs.op('write', self.name, tr)

    def seek(self, pos, whence=0):
        self.pos = pos
        return pos

    def tell(self):
        return self.pos

    def readable(self):
        return not self.writable_ or '+' in self.mode

    def writable(self):
        return self.writable_

    def close(self):
        if self.closed:
            return
        self.closed = True          # like a real file: closed even when close() reports an error
        if self.writable_:
            if self in self.fs.handles.get(self.name, []):
                self.fs.handles[self.name].remove(self)
            self.fs.op('close', self.name or '(unlinked)', self._sync)

    def __enter__(self):
        return self

    def __exit__(self, *exc):
        self.close()
        return False


def fake_open(file, mode='r', buffering=-1, encoding=None, errors=None, newline=None, closefd=True, opener=None):
    fs = _fs()
    kind = 'open_r' if ('r' in mode and '+' not in mode) else 'open_w'
    fs.op(kind, file, lambda: fs._open(file, mode))
    return FakeFile(fs, file, mode, encoding)


class FakePath(PurePosixPath):
    """pathlib.Path look-alike on the fake file system"""

    def is_dir(self):
        return _fs().op('stat', self, lambda: _fs()._isdir(self))

    def is_file(self):
        return _fs().op('stat', self, lambda: str(self) in _fs().files)

    def exists(self):
        return _fs().op('stat', self, lambda: str(self) in _fs().files or _fs()._isdir(self))

    def mkdir(self, mode=0o777, parents=False, exist_ok=False):
        return _fs().op('mkdir', self, lambda: _fs()._mkdir(self, parents, exist_ok))

    def open(self, mode='r', buffering=-1, encoding=None, errors=None, newline=None):
        return fake_open(self, mode, encoding=encoding)

    def read_text(self, encoding=None, errors=None):
        with self.open('r', encoding=encoding) as f:
            return f.read()

    def read_bytes(self):
        with self.open('rb') as f:
            return f.read()

    def write_text(self, data, encoding=None, errors=None, newline=None):
        with self.open('w', encoding=encoding) as f:
            return f.write(data)

    def write_bytes(self, data):
        with self.open('wb') as f:
            return f.write(data)

    def rename(self, target):
        _fs().op('rename', self, lambda: _fs()._rename(self, target))
        return self.with_segments(target)

    replace = rename

    def unlink(self, missing_ok=False):
        def rm():
            try:
                _fs()._remove(self)
            except FileNotFoundError:
                if not missing_ok:
                    raise
        _fs().op('remove', self, rm)

    def touch(self, mode=0o666, exist_ok=True):
        _fs().op('open_w', self, lambda: _fs()._open(self, 'a'))

    def iterdir(self):
        pre = str(self).rstrip('/') + '/'
        names = [p for p in list(_fs().files) + list(_fs().dirs) if p.startswith(pre) and '/' not in p[len(pre):]]
        return iter(self.with_segments(p) for p in sorted(names))

    def resolve(self, strict=False):
        return self

    def expanduser(self):
        return self

    def absolute(self):
        return self


class _FakeOsPath:
    def __getattr__(self, name):
        return getattr(posixpath, name)

    def exists(self, p):
        return _fs().op('stat', p, lambda: str(p) in _fs().files or _fs()._isdir(p))

    def isdir(self, p):
        return _fs().op('stat', p, lambda: _fs()._isdir(p))

    def isfile(self, p):
        return _fs().op('stat', p, lambda: str(p) in _fs().files)


class FakeOs:
    """stands in for the name `os` inside frappy.persistent"""
    path = _FakeOsPath()

    def __getattr__(self, name):
        return getattr(_os, name)

    def makedirs(self, name, mode=0o777, exist_ok=False):
        return _fs().op('mkdir', name, lambda: _fs()._makedirs(name, exist_ok))

    def mkdir(self, name, mode=0o777):
        return _fs().op('mkdir', name, lambda: _fs()._mkdir(name))

    def rename(self, a, b):
        return _fs().op('rename', a, lambda: _fs()._rename(a, b))

    replace = rename

    def remove(self, p):
        return _fs().op('remove', p, lambda: _fs()._remove(p))

    unlink = remove

    def fsync(self, fd):
        def sync():
            for hs in _fs().handles.values():
                for h in hs:
                    if h.fd == fd:
                        h._sync()
        return _fs().op('fsync', 'fd%s' % fd, sync)

    fdatasync = fsync

    def listdir(self, p='.'):
        pre = str(p).rstrip('/') + '/'
        return sorted(q[len(pre):] for q in list(_fs().files) + list(_fs().dirs)
                      if q.startswith(pre) and '/' not in q[len(pre):])


_patched = False


def patch_persistent():
    """put the fake file system behind the names frappy.persistent uses (open, os, logdir Path)"""
    global _patched
    boot()
    import frappy.persistent as fp
    from frappy.lib import generalConfig
    if not _patched:
        _patched = True
        fp.os = FakeOs()
        fp.open = fake_open
        if hasattr(fp, 'Path'):
            fp.Path = FakePath
        if hasattr(fp, 'json') is False:
            raise MachineryError('frappy.persistent does not use json any more: adapt the C17 classification')
    generalConfig.logdir = FakePath(ROOT)
    return fp


# ============================================================================ datatype catalogue

def catalogue():
    """name -> (datatype factory, [v0 (default), v1, v2, extra...], [stored entries that are NOT valid values])"""
    from frappy.datatypes import ArrayOf, BLOBType, BoolType, EnumType, FloatRange, IntRange, LimitsType, \
        ScaledInteger, StringType, StructOf, TupleOf
    return {
        'int': (lambda: IntRange(0, 10), [1, 7, 10, 0], [55, -1, 3.7, '3', None, [1]]),
        'float': (lambda: FloatRange(-100, 100), [1.0, 0.1 + 0.2, -99.5, 1e-300], ['x', 1000.5, None, [1.0]]),
        'floatu': (lambda: FloatRange(), [0.0, 5e-324, -1.7e308, 123456789.12345679], ['1.5', None, {}]),
        'scaled': (lambda: ScaledInteger(0.1, -10, 10), [1.0, 0.1 * 3, 43 * 0.1, -8.6], ['x', 5000, None, [3]]),
        'bool': (BoolType, [False, True, False, True], [5, 'yes', None]),
        'string': (lambda: StringType(isUTF8=True), ['', 'a"\\\né\U0001f600 /', 'l1\nl2\t{}[],: "k": 1', ' '], [5, None, ['a'], {'a': 1}]),
        'blob': (lambda: BLOBType(0, 16), [b'', b'\x00\xff\x80', b'0123456789abcdef', b'{'],
                 [5, None, 'AAAAAAAAAAAAAAAAAAAAAAAAAAAAAAAAAAAAAA==']),
        'enum': (lambda: EnumType('en', a=1, b=2, c=5), [1, 2, 5, 1], [7, 'zz', None, [1]]),
        'array': (lambda: ArrayOf(FloatRange(), 0, 4), [(), (1.5, -2e300), (5e-324, 0.0, 1.0, 2.0), (0.1,)],
                  [[1, 2, 3, 4, 5], 5, ['a'], None, [[1]]]),
        'tuple': (lambda: TupleOf(IntRange(-5, 5), StringType(isUTF8=True), BoolType()),
                  [(0, '', False), (3, 'x', True), (-5, 'ü', False), (5, ',', True)],
                  [[9, 'a', True], 5, None, [1, 2, 3]]),
        'struct': (lambda: StructOf(i=IntRange(0, 10), s=StringType()),
                   [{'i': 0, 's': ''}, {'i': 3, 's': 't'}, {'i': 10, 's': '{"i": 1}'}, {'i': 1, 's': '\\'}],
                   [{'i': 3}, {'i': 3, 's': '', 'z': 1}, {'i': 55, 's': ''}, [1], None, {'i': 's', 's': 3}]),
        'structm': (lambda: StructOf(optional=[], n=IntRange(0, 10), t=StringType(), f=FloatRange(0, 1)),
                    [{'n': 0, 't': '', 'f': 0.0}, {'n': 3, 't': 't', 'f': 0.25}, {'n': 10, 't': '[]', 'f': 1.0},
                     {'n': 1, 't': ' ', 'f': 0.1}],
                    [{'n': 3}, {'n': 3, 't': '', 'f': 0.5, 'z': 1}, {'n': 3, 't': '', 'f': 2.5}, [1], None, 'x']),
        'strlim': (lambda: StringType(2, 6), ['ab', 'abcdef', 'x y', 'zz'], ['a', 'abcdefg', 'a\x00b', '\xe9\xe9', 5, None]),
        # persistent limits (PersistentLimit): the datatype is derived from the base parameter FloatRange(0, 100)
        'limits': (lambda: LimitsType(FloatRange(0, 100)), [(0.0, 100.0), (2.0, 50.0), (10.5, 10.5), (0.0, 1.0)],
                   [[50, 2], [1], 'x', None, [-5, 10], [1, 2, 3], [0, 1000]]),
        'limmax': (lambda: FloatRange(0, 100), [100.0, 60.0, 0.0, 0.5], [101, 'x', None, [1]]),
        'nested': (lambda: ArrayOf(StructOf(a=ScaledInteger(0.01, 0, 1), e=EnumType('e', x=0, y=1), b=BoolType()), 0, 3),
                   [(), ({'a': 0.29, 'e': 1, 'b': True},),
                    ({'a': 0.0, 'e': 0, 'b': False}, {'a': 1.0, 'e': 1, 'b': True}), ({'a': 0.5, 'e': 0, 'b': True},)],
                   [[{'a': 7}], [{'a': 7, 'e': 1, 'b': True}] * 4, [1], None, [{'a': 500, 'e': 1, 'b': True}]]),
    }


SHAPES = [('int', 'struct', 'array'), ('scaled', 'tuple', 'string'), ('enum', 'nested', 'blob'),
          ('float', 'array', 'int'), ('string', 'floatu', 'structm'), ('blob', 'enum', 'tuple'),
          ('strlim', 'limits', 'bool'), ('structm', 'limmax', 'strlim'),
          # limits in the first position too: P1 is the parameter that may lack a write method in the quick configurations
          ('limits', 'int', 'strlim'), ('limmax', 'string', 'limits')]
ALLTYPES = ['int', 'float', 'floatu', 'scaled', 'bool', 'string', 'strlim', 'blob', 'enum', 'array', 'tuple', 'struct',
            'structm', 'nested', 'limits', 'limmax']
LIMIT_POSTFIX = {'limits': '_limits', 'limmax': '_max'}
FOREIGN = {'np': [0.0, 1.5, -2.0], 'poff': [1, 7, 10]}      # parameters that are NOT persistent: abstract v0, v1, v2


def canon(obj):
    return json.dumps(obj, sort_keys=True, allow_nan=True)


class World:
    """a real PersistentMixin module class over chosen datatypes, living on a FakeFS"""

    def __init__(self, types, auto=(), haswrite=(), fs=None, buffered=False, nodef=()):
        """auto / haswrite / nodef: indices (0-based) or names of the parameters that save automatically /
        have a write method / are declared without a default value"""
        self.fp = patch_persistent()
        from frappy.modules import Module
        from frappy.params import Parameter
        from frappy.datatypes import FloatRange, IntRange
        from frappy.errors import CommunicationFailedError
        cat = catalogue()
        self.pnames = ['b%d%s' % (k + 1, LIMIT_POSTFIX[t]) if t in LIMIT_POSTFIX else 'p%d' % (k + 1)
                       for k, t in enumerate(types)]
        std = {'p%d' % (k + 1): n for k, n in enumerate(self.pnames)}
        norm = lambda names: {self.pnames[x] if isinstance(x, int) else std.get(x, x) for x in names}
        self.types = dict(zip(self.pnames, types))
        self.values = {}
        self.dts = {}
        self.bad = {}
        self.auto = norm(auto)
        self.haswrite = norm(haswrite)
        self.nodef = {p for p in norm(nodef) if self.types[p] not in LIMIT_POSTFIX}
        self.fail = {}           # p -> 'read' | 'write': the hardware access fails once
        ns = {}
        world = self

        def mk_read(p):
            def read(self):
                if world.fail.pop(p, None) == 'read':
                    raise CommunicationFailedError('no reply')
                return self._hw[p]
            return read

        def mk_write(p):
            def write(self, value):
                if world.fail.pop(p, None) == 'write':
                    raise CommunicationFailedError('no reply')
                self._hw[p] = value
                return value
            return write

        for p, t in self.types.items():
            mk, vals, bad = cat[t]
            dt = mk()
            self.dts[p] = dt
            vals = [dt(v) for v in vals]
            if p in self.nodef:
                # declared without default: the datatype's default is what "default" means for this parameter
                vals = [dt(dt.default)] + [v for v in vals if v != dt(dt.default)]
            self.values[p] = vals
            # the datatype is the authority on what a usable entry is (frappy's datatypes evolve)
            self.bad[p] = [b for b in bad if self.usable(p, b)[0] == 'bad']
            flag = 'auto' if p in self.auto else 'on'
            if t in LIMIT_POSTFIX:
                base = p[:p.index('_')]
                ns[base] = Parameter('base of a limit', FloatRange(0, 100), default=50.0, readonly=False)
                try:
                    # a Limit is writable (gets a write wrapper, hence is registered in writeDict) unless declared
                    # readonly: the abstract 'has a write method' decides which of the two declarations is used
                    ns[p] = self.fp.PersistentLimit(persistent=flag, readonly=p not in self.haswrite)
                except Exception:
                    # (is not even a persistent parameter in this tree)
                    ns[p] = self.fp.PersistentLimit(readonly=p not in self.haswrite)
                    self.auto.discard(p)
            else:
                kw = {} if p in self.nodef else {'default': vals[0]}
                ns[p] = self.fp.PersistentParam('', dt, persistent=flag, readonly=p not in self.haswrite, **kw)
            ns['read_' + p] = mk_read(p)
            if p in self.haswrite:
                ns['write_' + p] = mk_write(p)
        ns['_hw'] = None
        ns['np'] = Parameter('not persistent', FloatRange(), default=FOREIGN['np'][0], readonly=False)
        ns['poff'] = self.fp.PersistentParam('persistence switched off', IntRange(0, 10), default=FOREIGN['poff'][0],
                                             persistent='off', readonly=False)

        def __init__(self, *args):
            world.under_construction = self
            self._hw = {}
            super(cls, self).__init__(*args)

        ns['__init__'] = __init__
        cls = type('Mod', (self.fp.PersistentMixin, Module), ns)
        self.cls = cls
        self.fs = fs or FakeFS()
        self.fs.buffered = buffered
        self.m = None
        self.under_construction = None
        self.snapids = {}        # canonical json text of a stored object -> id
        self.valids = {p: [] for p in self.pnames}    # per parameter interning of internal values by ==
        self.log = LoggerStub('m')
        self.start_error = None
        self.trace = []          # events for Trace_Persistent
        self._cls_cache = (None, None)
        self._cur_cache = None
        self.recording = True
        self._last_target = 'absent'
        self.fs.observer = self._on_fs

    # -- recording (code -> spec)
    def target_class(self):
        raw = self.fs.files.get(TARGET)
        if self._cls_cache[0] is raw and raw is not None:
            return self._cls_cache[1]
        c = self.file_class()
        self._cls_cache = (raw, c)
        return c

    def cur_class(self):
        mod = self.m_or_uc()
        if mod is None or not hasattr(mod, 'parameters') or any(p not in mod.parameters for p in self.pnames):
            return 'none'
        vals = [mod.parameters[p].value for p in self.pnames]
        old = self._cur_cache
        if old is not None and all(a is b for a, b in zip(old[0], vals)):
            return old[1]
        c = self.cur_id(mod)
        c = 'none' if c == 'none' else 'c:' + c
        self._cur_cache = (vals, c)
        return c

    def cur_vals(self, mod=None):
        mod = mod or self.m_or_uc()
        return {p: self.val_id(p, mod.parameters[p].value) for p in self.pnames}

    def _on_fs(self, ev):
        if not self.recording:
            return
        e = {'ev': 'fs', 'op': ev['op'], 'out': ev['outcome'], 'target': self.target_class(), 'cur': self.cur_class()}
        if e['target'] != self._last_target:
            self._last_target = e['target']
            try:
                e['vals'] = self.cur_vals()
            except Exception:
                e['vals'] = {p: '?' for p in self.pnames}
            if e['target'] != e['cur'] and e['target'].startswith('c:'):
                e['notstored'] = self.not_stored(e['vals'])
        self.trace.append(e)

    def not_stored(self, vals):
        """datatypes of the parameters whose entry in the file does not stand for the value in memory"""
        ent, _ = self.stored_entries()
        return sorted({self.types[p] for p in self.pnames if ent.get(p) != vals.get(p)})

    def stored_entries(self):
        """what every entry of the stored file stands for: value id | 'bad' | '-' (+ description for signatures)"""
        raw = self.fs.files.get(TARGET)
        none = {p: '-' for p in self.pnames}
        if raw is None:
            return none, {'top': 'absent'}
        try:
            obj = json.loads(raw.decode('utf-8'))
        except ValueError:
            return none, {'top': 'notjson'}
        except RecursionError:
            return none, {'top': 'notjson', 'nesting': 'deep'}
        if not isinstance(obj, dict):
            return none, {'top': 'notdict'}
        res, badkinds = {}, {}
        for p in self.pnames:
            if p not in obj:
                res[p] = '-'
                continue
            ok, v = self.usable(p, obj[p])
            if ok == 'ok':
                res[p] = self.val_id(p, v)
            else:
                res[p] = 'bad'
                try:
                    self.dts[p].import_value(obj[p])
                    badkinds[p] = 'import_ok_validate_fails'
                except Exception:
                    badkinds[p] = 'import_fails'
        return res, {'top': 'dict', 'badkinds': badkinds, 'unknown': sorted(k for k in obj if k not in self.pnames)[:3]}

    # -- abstract <-> concrete
    def pn(self, P):
        """abstract parameter 'P2' -> name of the concrete parameter"""
        return self.pnames[int(P[1:]) - 1]

    def PN(self, p):
        return 'P%d' % (self.pnames.index(p) + 1)

    def foreign_id(self, mod=None):
        """abstract value of the parameters that are not persistent (they move together)"""
        mod = mod or self.m
        ids = set()
        for q, vals in FOREIGN.items():
            v = mod.parameters[q].value
            ids.add(next(('v%d' % k for k, x in enumerate(vals) if x == v), 'other:%s=%r' % (q, v)))
        return ids.pop() if len(ids) == 1 else 'other:' + ','.join(sorted(ids))

    def errs(self, mod=None):
        mod = mod or self.m
        return sorted(p for p in self.pnames if mod.parameters[p].readerror is not None)

    def gamma(self, p, v):
        """abstract value id 'v2' -> concrete value"""
        return self.values[p][int(v[1:])]

    def val_id(self, p, value):
        """intern an internal value of parameter p (equality as the property says: ==)"""
        lst = self.valids[p]
        for k, x in enumerate(lst):
            if self.same(p, x, value):
                return 'x%d' % k
        lst.append(value)
        return 'x%d' % (len(lst) - 1)

    def alpha_val(self, p, value):
        """concrete value -> abstract value id of the (first 3 entries of the) catalogue or 'other'"""
        for k, x in enumerate(self.values[p][:3]):
            if self.same(p, x, value):
                return 'v%d' % k
        return 'other'

    def same(self, p, x, value):
        """equal values (==) that also stand for the same transported value (1 vs 1.0 vs True differ)"""
        try:
            if not (x == value and value == x):
                return False
            dt = self.dts[p]
            return canon(dt.export_value(x)) == canon(dt.export_value(value))
        except Exception:
            return False

    def m_or_uc(self):
        return self.m if self.m is not None else self.under_construction

    def usable(self, p, entry):
        """what a stored entry stands for: ('ok', value) or ('bad', None); oracle: the datatype itself"""
        dt = self.dts[p]
        try:
            v = dt.validate(dt.import_value(entry))
            if canon(dt.export_value(v)) is None:
                raise ValueError
            return 'ok', v
        except Exception:
            return 'bad', None

    # -- disk
    def snap_id(self, obj):
        key = canon(obj)
        if key not in self.snapids:
            self.snapids[key] = 's%d' % len(self.snapids)
        return self.snapids[key]

    def file_class(self, path=TARGET):
        """'absent' | 'partial' (not a JSON object) | 'c:<id>': a JSON object, identified by what it stands for
        (per parameter the value its entry restores | 'bad' | '-', and whether foreign keys are present)"""
        raw = self.fs.files.get(path)
        if raw is None:
            return 'absent'
        try:
            obj = json.loads(raw.decode('utf-8'))
        except (ValueError, RecursionError):
            return 'partial'
        if not isinstance(obj, dict):
            return 'partial'
        ent = {}
        for p in self.pnames:
            if p not in obj:
                ent[p] = '-'
            else:
                ok, v = self.usable(p, obj[p])
                ent[p] = self.val_id(p, v) if ok == 'ok' else 'bad'
        return 'c:' + self.snap_id({'ent': ent, 'extra': any(k not in self.pnames for k in obj)})

    def cur_export(self, mod=None):
        """the snapshot the current parameter values stand for (None while not exportable)"""
        mod = mod or self.m_or_uc()
        try:
            return {p: mod.parameters[p].datatype.export_value(mod.parameters[p].value) for p in self.pnames}
        except Exception:
            return None

    def cur_id(self, mod=None):
        mod = mod or self.m_or_uc()
        if self.cur_export(mod) is None:
            return 'none'
        return self.snap_id({'ent': self.cur_vals(mod), 'extra': False})

    def skip_flag(self):
        """would the next save be skipped as 'already on disk'?  (alpha of persistentData)"""
        m = self.m
        return m is not None and getattr(m, 'persistentData', None) == self.cur_export()

    # -- actions
    def start(self, cfg=None, plan=None, cdef=None):
        """(re)create the module from the disk.  cfg: {p: configured value}, cdef: {p: configured default}"""
        from frappy.config import Param
        self.m = None
        self.under_construction = None
        _FS[0] = self.fs
        self.fs.revive()
        self.fs.arm(plan)
        cfgdict = {'description': ''}
        for p, v in (cfg or {}).items():
            cfgdict[p] = Param(v)
        for p, v in (cdef or {}).items():
            cfgdict[p] = Param(default=v)
        self.start_error = None
        self.log = LoggerStub('m')
        pre = self.target_class()
        self._last_target = pre
        entries, descr = self.stored_entries()
        self.trace.append({'ev': 'boot', 'pre': pre, 'file': entries, 'descr': descr})
        dflt = {p: self.val_id(p, self.values[p][0]) for p in self.pnames}
        cfgids = {p: (self.val_id(p, self.dts[p](cfg[p])) if p in (cfg or {}) else '-') for p in self.pnames}
        cdefids = {p: (self.val_id(p, self.dts[p](cdef[p])) if p in (cdef or {}) else '-') for p in self.pnames}
        ev = {'ev': 'start', 'ok': False, 'cfg': cfgids, 'cdef': cdefids, 'def': dflt, 'got': dflt, 'skip': False,
              'nodef': {p: p in self.nodef for p in self.pnames}, 'err': {p: False for p in self.pnames},
              'fgot': {q: 'v0' for q in FOREIGN}}
        try:
            self.m = self.cls('m', self.log, cfgdict, _Srv())
            out = 'ok'
        except Crash:
            self.m = None
            self.trace.append({'ev': 'ret', 'call': 'start', 'out': 'crash', 'must': False, 'faults': len(self.fs.fired),
                               'target': self.target_class(), 'cur': 'none', 'skip': False})
            return 'crash'
        except Exception as e:  # start-up failed
            self.m = None
            self.start_error = repr(e)
            out = 'failed'
        if self.m is not None:
            errs = self.errs()
            ev.update(ok=True, got=self.cur_vals(self.m), skip=self.skip_flag(),
                      err={p: p in errs for p in self.pnames},
                      fgot={q: next(('v%d' % k for k, x in enumerate(vals) if x == self.m.parameters[q].value), 'other')
                            for q, vals in FOREIGN.items()})
        ev.update(target=self.target_class(), cur=self.cur_class(), error=self.start_error)
        self.trace.append(ev)
        return out

    def call(self, fn, plan=None, name='call', must=False):
        """run a module-level action with a fault plan; returns 'ok' | 'crash' | 'raised:<type>'"""
        _FS[0] = self.fs
        self.fs.arm(plan)
        must = must and not self.m.writeDict
        try:
            fn()
            out = 'ok'
        except Crash:
            self.m = None
            out = 'crash'
        except Exception as e:
            out = 'raised:' + type(e).__name__
        self.trace.append({'ev': 'ret', 'call': name, 'out': out.split(':')[0], 'must': must,
                           'faults': len(self.fs.fired), 'target': self.target_class(),
                           'cur': self.cur_class() if self.m is not None else 'none',
                           'skip': self.skip_flag() if self.m is not None else False})
        return out

    def reload(self, plan=None):
        """loadParameters(): what a driver does when it detects a power cycle of the hardware"""
        entries, descr = self.stored_entries()
        before = self.cur_vals(self.m)
        fbefore = self.foreign_id()
        out = self.call(self.m.loadParameters, plan, 'reload', False)
        ret = self.trace.pop()
        ret.update(ev='reload', file=entries, descr=descr, before=before, ok=out == 'ok', cfg={p: '-' for p in before},
                   got=self.cur_vals(self.m) if self.m is not None else before, fbefore=fbefore,
                   fgot=self.foreign_id() if self.m is not None else fbefore)
        ret['def'] = before
        self.trace.append(ret)
        return out

    def stop(self):
        """the process ends between two calls"""
        self.m = None
        self.trace.append({'ev': 'ret', 'call': 'stop', 'out': 'crash', 'must': False, 'faults': 0,
                           'target': self.target_class(), 'cur': 'none', 'skip': False})

    def change(self, p, value, plan=None, via=None, fail=False, refused=False):
        """via: 'set' (driver assigns), 'write' (client change), 'read' (read back from the hardware)"""
        m = self.m
        via = via or ('write' if p in self.haswrite else 'set')
        if fail and via in ('read', 'write'):
            self.fail[p] = via
        if via == 'write':
            fn = lambda: getattr(m, 'write_' + p)(value)
        elif via == 'read':
            def fn():
                m._hw[p] = value
                getattr(m, 'read_' + p)()
        else:
            fn = lambda: setattr(m, p, value)
        out = self.call(fn, plan, 'change', p in self.auto and not fail and not refused)
        self.fail.pop(p, None)
        return out

    def fchange(self, k):
        """the parameters that are not persistent change to their k-th value"""
        m = self.m

        def fn():
            for q, vals in FOREIGN.items():
                setattr(m, q, vals[k])
        return self.call(fn, None, 'fchange', False)

    def reset(self, plan=None):
        """factory_reset"""
        out = self.call(self.m.factory_reset, plan, 'reset', False)
        ret = self.trace.pop()
        ret.update(ev='reset', ok=out == 'ok', got=self.cur_vals(self.m) if self.m is not None else {})
        self.trace.append(ret)
        return out

    def wipe(self):
        """the environment removes the persistent directory under the running process"""
        d = posixpath.dirname(TARGET)
        for f in [f for f in self.fs.files if f.startswith(d + '/')]:
            del self.fs.files[f]
        self.fs.dirs.discard(d)
        self._last_target = 'absent'
        self.trace.append({'ev': 'env', 'what': 'wipe', 'target': self.target_class()})

    def save(self, plan=None):
        return self.call(self.m.saveParameters, plan, 'save', True)

    def write_init(self, plan=None):
        return self.call(self.m.writeInitParams, plan, 'writeinit', False)


class _Srv:
    class _Disp:
        def announce_update(self, moduleobj, pobj):
            pass

    class _Node:
        equipment_id = 'eq'
        name = 'node'

    def __init__(self):
        self.dispatcher = self._Disp()
        self.secnode = self._Node()


# ============================================================================ spec -> code replay

NOTJSON = [b'', b'{', b'\xff\xfe\x00', b'{"p1": 1,', b'{\n  "p1": 1\n}\n}', b"{'p1': 1}", b'{"p1": 1}\x00garbage',
           b'\xc3\x28{}', b'{"p1": }', b'nul', b'[' * 100000, b'{"p1":' * 50000, b'{"p1": ' + b'9' * 5000 + b'}']
NOTDICT = [b'[]', b'null', b'3', b'"x"', b'true', b'[{"p1": 1}]', b'1.5e3', b'[1, 2]\n']
# keys that are no persistent parameter of the module (np: not persistent, poff: persistent = off), with values
# that would be valid for them
EXTRA = [('np', 1.5), ('poff', 7), ('zz_unknown', 1), ('status', [100, 'x']), ('', None), ('p1 ', {'a': []}), ('P1', 1),
         ('description', 'x'), ('pollinterval', 1.0)]


class Replayer:
    """executes abstract actions of Gen_Persistent on a World and projects the state (alpha)"""

    def __init__(self, types, auto, hw, variant=0, nodef=()):
        ix = lambda names: [int(P[1:]) - 1 for P in names]
        self.w = World(types, auto=ix(auto), haswrite=ix(hw), nodef=ix(nodef), buffered=bool(variant >> 4 & 1))
        self.variant = variant
        self.concrete = {}

    # -- alpha
    def alpha_entry(self, p, obj):
        w = self.w
        if p not in obj:
            return '-'
        e = obj[p]
        dt = w.dts[p]
        for k, x in enumerate(w.values[p][:3]):
            if canon(dt.export_value(x)) == canon(e):
                return 'v%d' % k
        return 'other' if w.usable(p, e)[0] == 'ok' else 'bad'

    def alpha_target(self):
        w = self.w
        raw = w.fs.files.get(TARGET)
        none = {w.PN(p): '-' for p in w.pnames}
        if raw is None:
            return {'k': 'absent', 'ent': none, 'extra': '-'}
        try:
            obj = json.loads(raw.decode('utf-8'))
        except (ValueError, RecursionError):
            return {'k': 'notjson', 'ent': none, 'extra': '-'}
        if not isinstance(obj, dict):
            return {'k': 'notdict', 'ent': none, 'extra': '-'}
        return {'k': 'json', 'ent': {w.PN(p): self.alpha_entry(p, obj) for p in w.pnames},
                'extra': 'v1' if any(k not in w.pnames for k in obj) else '-'}

    def alpha(self):
        w = self.w
        m = w.m
        if m is None:
            none = {w.PN(p): '-' for p in w.pnames}
            return {'alive': False, 'target': self.alpha_target(), 'val': none, 'wd': none, 'skip': False,
                    'err': [], 'fval': '-'}
        return {'alive': True, 'target': self.alpha_target(), 'err': [w.PN(p) for p in w.errs()],
                'fval': w.foreign_id(),
                'val': {w.PN(p): w.alpha_val(p, m.parameters[p].value) for p in w.pnames},
                'wd': {w.PN(p): (w.alpha_val(p, m.writeDict[p]) if p in m.writeDict else '-') for p in w.pnames},
                'skip': w.skip_flag()}

    # -- gamma
    def corrupt(self, c, P):
        w = self.w
        p = w.pn(P)
        v = self.variant
        raw = w.fs.files.get(TARGET)
        if c == 'missing':
            w.fs.files.pop(TARGET, None)
            return 'deleted'
        if c == 'notjson':
            reps = list(NOTJSON)
            if raw and raw.startswith(b'{') and len(raw) > 8:
                reps += [raw[:len(raw) // 2], raw[:-2], raw[1:], raw.replace(b':', b'=', 1)]
            w.fs.files[TARGET] = reps[v % len(reps)]
        elif c == 'notdict':
            w.fs.files[TARGET] = NOTDICT[v % len(NOTDICT)]
        else:
            obj = json.loads(raw.decode('utf-8'))
            if c == 'extra':
                k, x = EXTRA[v % len(EXTRA)]
                obj[k] = x
            elif c == 'bad':
                obj[p] = w.bad[p][v % len(w.bad[p])]
            elif c == 'drop':
                del obj[p]
            w.fs.files[TARGET] = json.dumps(obj, indent=v % 3 or None).encode('utf-8')
        return repr(w.fs.files[TARGET][:200])

    def step(self, a, plan=None):
        """execute one abstract action; returns the outcome string"""
        w = self.w
        act = a['act']
        if act == 'start':
            cfg = {w.pn(P): w.gamma(w.pn(P), v) for P, v in a['cfg'].items() if v != '-'}
            cdef = {w.pn(P): w.gamma(w.pn(P), v) for P, v in a.get('cdef', {}).items() if v != '-'}
            return w.start(cfg, plan, cdef)
        if act in ('writeinit', 'change', 'save', 'fchange', 'reload', 'reset') and w.m is None:
            return 'no process'
        if act == 'fchange':
            return w.fchange(int(a['v'][1:]))
        if act == 'reload':
            return w.reload(plan)
        if act == 'reset':
            return w.reset(plan)
        if act == 'wipe':
            return w.wipe()
        if act == 'writeinit':
            return w.write_init(plan)
        if act == 'change':
            p = w.pn(a['p'])
            return w.change(p, w.gamma(p, a['v']), plan, via=a.get('via'))
        if act == 'save':
            return w.save(plan)
        if act == 'corrupt':
            return self.corrupt(a['c'], a['p'])
        raise MachineryError('unknown action %r' % act)


def save_segment(window):
    """the operations of the (first) save inside a window of FS events: indices by abstract role"""
    ops = [(e['i'], e['op']) for e in window]
    first = next((k for k, (_, o) in enumerate(ops) if o == 'open_w'), None)
    if first is None:
        return None
    seg = {'pre': [], 'open': [ops[first][0]], 'write': [], 'close': [], 'rename': [], 'remove': []}
    k = first - 1
    while k >= 0 and ops[k][1] in ('stat', 'mkdir'):
        seg['pre'].insert(0, ops[k][0])
        k -= 1
    for i, o in ops[first + 1:]:
        if o == 'open_w':
            break
        if o in ('write', 'flush', 'fsync'):
            (seg['write'] if not seg['close'] else seg['close']).append(i)
        elif o in seg and o != 'pre':
            seg[o].append(i)
    return seg


def concrete_points(seg, f, nchunks, pick):
    """concrete op indices standing for the abstract fault position f"""
    if seg is None:
        return []
    op = f['op']
    if op == 'write':
        ws = seg['write']
        n = len(ws)
        if n < nchunks:
            return ws[f['i'] - 1:f['i']]
        lo, hi = (f['i'] - 1) * n // nchunks, f['i'] * n // nchunks
        # chunk i < N: some data of the file is still missing when the fault strikes
        grp = ws[lo:hi]
        if f['i'] == 1:
            grp = grp or ws[:1]
        return grp if pick is None else [grp[pick % len(grp)]]
    pts = seg.get(op, [])
    if op in ('rename', 'remove', 'open', 'close'):
        pts = pts[:1]
    return pts if pick is None or not pts else [pts[pick % len(pts)]]


def _match(exp, obs):
    return (exp['alive'] == obs['alive'] and exp['target'] == obs['target'] and exp['val'] == obs['val']
            and exp['wd'] == obs['wd'] and obs['skip'] in exp['skip']
            and sorted(exp['err']) == obs['err'] and exp['fval'] == obs['fval'])


def _diff(exps, obs):
    best = None
    for e in exps:
        d = sorted(k for k in ('alive', 'target', 'val', 'wd', 'fval') if e[k] != obs[k])
        if sorted(e['err']) != obs['err']:
            d.append('err')
        if obs['skip'] not in e['skip']:
            d.append('skip')
        if best is None or len(d) < len(best):
            best = d
    return best or []


def run_actions(acts, types, variant, plans, observe=True):
    """execute the action list; plans: {step: {op index: fault}}; returns (replayer, per-step obs, windows)"""
    st0 = next(a for a in acts if a['act'] == 'start')
    rp = Replayer(types, st0['auto'], st0['hw'], variant, st0.get('nodef', ()))
    rp.w.recording = observe
    obs, wins, outs = [], [], []
    for k, a in enumerate(acts):
        outs.append(rp.step(a, plans.get(k)))
        wins.append(list(rp.w.fs.window) if a['act'] not in ('corrupt', 'wipe') else [])
        obs.append(rp.alpha() if observe else None)
    return rp, obs, wins, outs


def replay_group(job):
    """job: actions (without exp), strict alternatives, dev alternatives (prefix-indexed), shape, variant, pick
    returns list of results, one per concrete run"""
    acts, alts, devalts, types, variant, pick, nchunks, want_trace = job
    acts = json.loads(acts)
    alts = [json.loads(a) for a in alts]
    devalts = None if devalts is None else [json.loads(a) for a in devalts]
    results = []
    # resolve abstract fault positions to concrete FS calls, one faulted step after the other
    plansets = [{}]
    faulted = [k for k, a in enumerate(acts) if (a.get('f') or {}).get('kind', 'none') != 'none']
    for k in faulted:
        f = acts[k]['f']
        new = []
        for plans in plansets:
            _, _, wins, _ = run_actions(acts[:k + 1], types, variant, plans, observe=False)
            # all concrete calls for the last fault of the behaviour, one representative for earlier ones
            pts = concrete_points(save_segment(wins[k]), f, nchunks, pick if k == faulted[-1] else variant)
            for pt in pts:
                q = dict(plans)
                q[k] = {pt: f['kind']}
                new.append(q)
        plansets = new
    if not plansets:
        return [{'unmapped': True}]
    for plans in plansets:
        rp, obs, wins, outs = run_actions(acts, types, variant, plans)
        res = {'plans': {str(k): {str(i): x for i, x in v.items()} for k, v in plans.items()}, 'bad': None,
               'types': rp.w.types}
        if want_trace:
            res['trace'] = compress(rp.w.trace)
        live = list(range(len(alts)))
        for k in range(len(acts)):
            nxt = [j for j in live if _match(alts[j][k], obs[k])]
            if not nxt:
                res['bad'] = {'step': k, 'expected': [alts[j][k] for j in live][:4], 'observed': obs[k],
                              'diff': _diff([alts[j][k] for j in live], obs[k]), 'outcome': outs[k],
                              'start_error': rp.w.start_error, 'obs': obs}
                if obs[k]['target']['k'] == 'json' and 'target' in res['bad']['diff']:
                    # which datatypes are not in the file although the save got as far as the rename
                    want = [alts[j][k]['target'] for j in live if alts[j][k]['target']['k'] == 'json']
                    ns = sorted({types[int(P[1:]) - 1] for P, e in obs[k]['target']['ent'].items()
                                 if e == '-' and want and all(t['ent'][P] != '-' for t in want)})
                    if ns:
                        res['bad']['notstored'] = ns
                best = -1
                if devalts is not None:
                    # explained from the first to the last step by the recorded deviation (as-implemented variant)?
                    best = max((next((j for j in range(len(acts)) if not _match(e[j], obs[j])), len(acts))
                                for e in devalts), default=0)
                    res['bad'].update(dev_matched=best, dev_n=len(acts))
                if best == len(acts):
                    for key in ('obs', 'expected', 'observed'):
                        del res['bad'][key]
                elif acts[k]['act'] == 'start':
                    evs = [e for e in rp.w.trace if e['ev'] in ('boot', 'start', 'ret')]
                    nth = sum(1 for a in acts[:k + 1] if a['act'] == 'start')
                    boots = [i for i, e in enumerate(evs) if e['ev'] == 'boot']
                    b = boots[nth - 1]
                    if b + 1 < len(evs) and evs[b + 1]['ev'] == 'start':
                        res['start_events'] = [evs[b], evs[b + 1]]
                        del res['bad']['obs']
                elif devalts is not None:
                    res['bad']['observed_beyond'] = obs[min(best, len(acts) - 1)]
                    del res['bad']['obs']
                break
            live = nxt
        for k, pl in plans.items():
            if not any(e['outcome'] in ('crash', 'error') for e in wins[k]):
                res['bad'] = res['bad'] or {'step': k, 'machinery': 'planned fault did not fire'}
        results.append(res)
    return results


# ============================================================================ code -> spec

_TLC_FIELDS = {'fs': ('ev', 'op', 'out', 'target', 'cur', 'vals'), 'boot': ('ev', 'pre', 'file'),
               'start': ('ev', 'ok', 'cfg', 'cdef', 'def', 'got', 'skip', 'target', 'cur', 'nodef', 'err', 'fgot'),
               'ret': ('ev', 'call', 'out', 'must', 'faults', 'target', 'cur', 'skip'),
               'reload': ('ev', 'out', 'ok', 'file', 'before', 'got', 'faults', 'target', 'cur', 'skip', 'fbefore',
                          'fgot'),
               'reset': ('ev', 'out', 'ok', 'got', 'faults', 'target', 'cur', 'skip'),
               'env': ('ev', 'what', 'target')}


def tlc_view(trace):
    """the fields Trace_Persistent reads (descriptions for signatures stay on the python side)"""
    return [{k: e[k] for k in _TLC_FIELDS[e['ev']] if k in e} for e in trace]


def compress(trace):
    """merge runs of identical fs events (the clauses evaluate identically on them)"""
    out = []
    for e in trace:
        if out and e['ev'] == 'fs' and out[-1] == e:
            continue
        out.append(e)
    return out


KINDS = ['null', 'true', 'false', '0', '3', '-1', '1.5', '1e400', 'NaN', '-Infinity', '"s"', '""', '[]', '{}', '[1]',
         '{"a": 1}', '[[]]', '"3"', '12345678901234567890']


def _dtypes(names):
    """'limit' when only PersistentLimit parameters are concerned, else the datatype names"""
    names = sorted(set(names))
    return 'limit' if names and all(t in LIMIT_POSTFIX for t in names) else '+'.join(names)


def start_signature(boot, start, types):
    """signature of a start-up that the specification did not accept (classification only)"""
    d = boot.get('descr', {})
    sig = {'module': 'Persistent', 'clause': 'Tolerant'}
    bk = d.get('badkinds') or {}
    if not start['ok']:
        sig['effect'] = 'startup_failed'
        if d.get('top') != 'dict':
            sig['cause'] = d.get('top')
        elif bk:
            sig.update(cause='bad', badkind='+'.join(sorted(set(bk.values()))))
        elif d.get('unknown'):
            sig['cause'] = 'unknown_key'
        else:
            sig['cause'] = 'good_file'
        return sig
    for p in sorted(start['got']):
        cfg, fil, dfl, got = start['cfg'][p], boot['file'][p], start['def'][p], start['got'][p]
        if start.get('cdef', {}).get(p, '-') != '-':
            dfl = start['cdef'][p]
        exp = cfg if cfg != '-' else fil if fil not in ('-', 'bad') else dfl
        if got == exp:
            continue
        if cfg != '-':
            return {'module': 'Persistent', 'clause': 'Precedence', 'effect': 'configured_value_not_used'}
        if fil == 'bad':
            sig.update(cause='bad', badkind=bk.get(p, '?'), effect='bad_value_used')
        elif fil == '-':
            sig.update(cause='missing_entry', effect='default_not_applied')
        else:
            sig.update(clause='RoundTrip', cause='good_entry', effect='stored_value_not_restored', dtype=types.get(p, '?'))
            if types.get(p) in LIMIT_POSTFIX:
                sig = {'module': 'Persistent', 'clause': 'RoundTrip', 'cause': 'value_not_stored', 'dtypes': 'limit',
                       'effect': 'not_restored'}
        return sig
    for p in sorted(start.get('err', {})):
        if start['err'][p] and (boot['file'][p] not in ('-', 'bad') or start['cfg'][p] != '-'):
            return {'module': 'Persistent', 'clause': 'RoundTrip', 'cause': 'restored_value',
                    'effect': 'still_flagged_not_initialized'}
    if any(v != 'v0' for v in start.get('fgot', {}).values()):
        return {'module': 'Persistent', 'clause': 'Tolerant', 'cause': 'foreign_key',
                'effect': 'entry_of_non_persistent_parameter_restored'}
    if start.get('target') != start.get('cur') and any(
            boot['file'][p] not in ('-', 'bad') and boot['file'][p] != start['got'][p] for p in start['got']):
        return {'module': 'Persistent', 'clause': 'Precedence', 'cause': 'startup_save_missing',
                'effect': 'stale_file_of_previous_run_left_for_reload'}
    sig['effect'] = 'other'
    return sig


def trace_signature(trace, l, clause, types):
    ev = trace[l - 1] if 0 < l <= len(trace) else {}
    # a rejection while a process starts: classify by the input (stored file / configuration) of that start
    bi = next((k for k in range(min(l, len(trace)) - 1, -1, -1) if trace[k]['ev'] == 'boot'), None)
    if bi is not None and ev.get('ev') in ('fs', 'start', 'boot'):
        si = next((k for k in range(bi, len(trace)) if trace[k]['ev'] in ('start', 'ret')), None)
        st = None if si is None else trace[si]
        if st is not None and st['ev'] == 'start' and si >= l - 1:
            sig = start_signature(trace[bi], st, types)
            if sig.get('effect') != 'other':
                return sig
    sig = {'module': 'Persistent', 'clause': clause, 'event': ev.get('ev')}
    if ev.get('ev') == 'fs':
        sig.update(op=ev['op'], out=ev['out'].split(':')[0],
                   target='object_not_standing_for_current_values' if ev['target'].startswith('c:') else ev['target'])
        if ev.get('notstored'):
            sig = {'module': 'Persistent', 'clause': 'RoundTrip', 'cause': 'value_not_stored',
                   'dtypes': _dtypes(ev['notstored'])}
    if ev.get('ev') == 'ret':
        sig.update(call=ev['call'], out=ev['out'], faulted=ev['faults'] > 0)
    if ev.get('ev') == 'start' and clause == 'Start.saved':
        sig = {'module': 'Persistent', 'clause': 'Precedence', 'cause': 'startup_save_missing',
               'effect': 'stale_file_of_previous_run_left_for_reload'}
    if ev.get('ev') == 'reload' and clause == 'Foreign':
        sig = {'module': 'Persistent', 'clause': 'Tolerant', 'cause': 'foreign_key', 'at': 'reload',
               'effect': 'entry_of_non_persistent_parameter_restored'}
    if ev.get('ev') == 'reload' and clause == 'Reload.values':
        sig = start_signature(ev, ev, types)
        sig['at'] = 'reload'
    if ev.get('ev') == 'boot' and clause == 'RoundTrip':
        sig['dtype'] = '?'
    return sig


# ---- generators of executions (each returns {'gen':..., 'types':..., 'trace':[...]})

def _rand_world(rnd, nmax=4, limits=False):
    n = rnd.randint(1, nmax)
    types = tuple(rnd.choice(ALLTYPES if limits else ALLTYPES[:-2]) for _ in range(n))
    auto = [k for k in range(n) if rnd.random() < 0.5]
    hw = [k for k in range(n) if rnd.random() < 0.4]
    if all(t in LIMIT_POSTFIX for t in types):
        types += ('int',)
    return types, auto, hw


def _rand_plan(rnd, crash_only=False, pfault=0.35):
    if rnd.random() > pfault:
        return None
    plan = {}
    for _ in range(rnd.choice([1, 1, 1, 2, 3])):
        kind = 'crash' if crash_only or rnd.random() < 0.35 else 'ioerror'
        plan[rnd.choice([rnd.randint(0, 5), rnd.randint(0, 45), rnd.randint(20, 70)])] = kind
    return plan


def _rand_corrupt(rnd, w):
    """the environment damages the stored file between two runs"""
    raw = w.fs.files.get(TARGET)
    r = rnd.random()
    if not raw or r < 0.1:
        w.fs.files.pop(TARGET, None)
        return
    if r < 0.3:
        w.fs.files[TARGET] = raw[:rnd.randint(0, len(raw))]
    elif r < 0.5:
        k = rnd.randrange(len(raw) * 8)
        b = bytearray(raw)
        b[k // 8] ^= 1 << (k % 8)
        w.fs.files[TARGET] = bytes(b)
    elif r < 0.6:
        w.fs.files[TARGET] = rnd.choice(NOTDICT + NOTJSON)
    else:
        try:
            obj = json.loads(raw.decode('utf-8'))
            if not isinstance(obj, dict):
                return
            p = rnd.choice(w.pnames)
            c = rnd.random()
            if c < 0.3:
                obj.pop(p, None)
            elif c < 0.6:
                obj[p] = rnd.choice(w.bad[p])
            elif c < 0.8:
                k, x = rnd.choice(EXTRA)
                obj[k] = x
            else:
                obj[p] = json.loads(rnd.choice(KINDS))
            w.fs.files[TARGET] = json.dumps(obj).encode()
        except (ValueError, RecursionError):     # the stored file is no JSON (or nested too deeply): leave it as it is
            pass


def _converts(dt, v):
    try:
        dt(v)
        return True
    except Exception:
        return False


def random_history(arg):
    seed, nsteps, corrupting = arg
    rnd = random.Random(seed)
    types, auto, hw = _rand_world(rnd, limits=seed % 4 == 1)
    nodef = [k for k in range(len(types)) if rnd.random() < 0.3]
    w = World(types, auto, hw, buffered=rnd.random() < 0.5, nodef=nodef)

    def start(plan=None):
        cfg, cdef = {}, {}
        for p in w.pnames:
            r = rnd.random()
            if r < 0.2 and w.types[p] not in LIMIT_POSTFIX:
                cfg[p] = rnd.choice(w.values[p])
            elif r < 0.3 and w.types[p] not in LIMIT_POSTFIX:
                cdef[p] = rnd.choice(w.values[p])
        return w.start(cfg, plan, cdef)

    start(_rand_plan(rnd, True, 0.15))
    for _ in range(nsteps):
        if w.m is None:
            if corrupting and rnd.random() < 0.3:
                _rand_corrupt(rnd, w)
            out = start(_rand_plan(rnd, True, 0.15))
            if out == 'failed':
                break
            continue
        r = rnd.random()
        if w.m.writeDict:
            # the poller writes the registered values before anything else happens (a save may come first)
            if r > 0.93:
                w.reload()      # a power cycle of the hardware is detected before the start-up writes
            elif r < 0.8:
                if r < 0.1:     # the hardware refuses one of the registered values
                    w.fail[rnd.choice(sorted(w.m.writeDict))] = 'write'
                w.write_init(_rand_plan(rnd, pfault=0.2))
                w.fail.clear()
            else:
                w.save(_rand_plan(rnd))
        elif r < 0.05:
            w.reload(_rand_plan(rnd, pfault=0.2))
        elif r < 0.09:
            w.reset(_rand_plan(rnd, pfault=0.2))
        elif r < 0.12:
            w.fchange(rnd.randrange(3))
        elif r < 0.15:
            w.wipe()
        elif r < 0.62:
            p = rnd.choice(w.pnames)
            via = rnd.choice(['set', 'read'] + (['write'] if p in w.haswrite else []))
            if rnd.random() < 0.05:
                # a value the datatype refuses: nothing changes (the parameter may go into error state)
                # (only values that even the conversion refuses: assignments by the driver are not range checked)
                cand = [v for v in (None, 'no value', [[[]]], {'?': 1}, 1e99) if not _converts(w.dts[p], v)]
                if cand:
                    w.change(p, rnd.choice(cand), None, via=via, refused=True)
            else:
                w.change(p, rnd.choice(w.values[p]), _rand_plan(rnd), via=via, fail=rnd.random() < 0.08)
        elif r < 0.9:
            w.save(_rand_plan(rnd))
        else:
            w.stop()            # restart follows
    if w.m is not None or rnd.random() < 0.5:
        if w.m is not None:
            w.stop()
        start()
    return {'gen': ['random_history', list(arg)], 'types': w.types, 'trace': compress(w.trace)}


def fault_sweep(arg):
    """a crash / I/O error at EVERY concrete file-system call of a save (auto save, explicit save, start-up save)"""
    types, auto, hw, where, buffered = arg
    res = []

    def scenario(plan_at, plan):
        w = World(types, auto, hw, buffered=buffered)
        pl = {k: (plan if k == plan_at else None) for k in ('start', 'change', 'save')}
        win = None
        if w.start({}, pl['start']) == 'ok':
            w.write_init()
            p = w.pnames[0]
            o = w.change(p, w.values[p][1], pl['change'])
            if plan_at == 'change':
                win = list(w.fs.window)
            if o != 'crash':
                q = w.pnames[-1]
                w.change(q, w.values[q][2])
                o = w.save(pl['save'])
                if plan_at == 'save':
                    win = list(w.fs.window)
                if o != 'crash':
                    w.save()            # the retry
            if w.m is not None:
                w.stop()
        elif plan_at == 'start':
            win = list(w.fs.window)
        if plan_at == 'start' and win is None:
            win = list(w.fs.window)
        w.start({})
        return w, win

    w0, win = scenario(where, None)
    n = len(win)
    for i in range(n):
        for kind in (('crash',) if where == 'start' else ('crash', 'ioerror')):
            w, _ = scenario(where, {i: kind})
            res.append({'gen': ['fault_sweep', [list(types), list(auto), list(hw), where, buffered], i, kind],
                        'types': w.types, 'trace': compress(w.trace)})
    return res


def stored_file(types, which=1):
    """bytes of a file the real module wrote for the catalogue values `which` + the world"""
    w = World(types, auto=[], haswrite=[])
    w.start()
    for p in w.pnames:
        w.change(p, w.values[p][which])
    w.save()
    return w, w.fs.files[TARGET]


def corruption_cases(types, tier, rnd, full=True):
    """(label, bytes) for every corruption of the stored file (full: incl. truncation at every byte and bit flips)"""
    w, raw = stored_file(types)
    cases = [('trunc', raw[:k]) for k in range(len(raw))] if full else []
    bits = range(len(raw) * 8) if full else []
    if tier == 'quick' and full:
        bits = sorted(rnd.sample(list(bits), min(len(raw) * 8, 500)))
    for k in bits:
        b = bytearray(raw)
        b[k // 8] ^= 1 << (k % 8)
        cases.append(('bitflip', bytes(b)))
    for x in NOTDICT + NOTJSON:
        cases.append(('toplevel', x))
    obj = json.loads(raw.decode())
    for p in w.pnames:
        for kd in KINDS:
            txt = json.dumps({**obj, p: '@@'}).replace('"@@"', kd)
            cases.append(('kind', txt.encode()))
        for bad in w.bad[p]:
            cases.append(('badentry', json.dumps({**obj, p: bad}).encode()))
        cases.append(('dropped', json.dumps({k: v for k, v in obj.items() if k != p}).encode()))
        cases.append(('renamed', json.dumps({(k + '_old' if k == p else k): v for k, v in obj.items()}).encode()))
    for k, x in EXTRA:
        cases.append(('unknownkey', json.dumps({**obj, k: x}).encode()))
    cases.append(('reordered', json.dumps(dict(reversed(list(obj.items()))), separators=(',', ':')).encode()))
    cases.append(('bom', b'\xef\xbb\xbf' + raw))
    cases.append(('utf16', raw.decode().encode('utf-16')))
    cases.append(('doubled', raw + raw))
    return cases


def corruption_sweep(arg):
    types, tier, seed, lo, hi, full = arg
    rnd = random.Random(seed)
    cases = corruption_cases(types, tier, rnd, full)[lo:hi]
    res = []
    for idx, (label, data) in enumerate(cases):
        w = World(types, auto=[], haswrite=[])
        w.fs.dirs.add(posixpath.dirname(TARGET))
        w.fs.files[TARGET] = data
        cfg = {}
        if idx % 5 == 4:
            p = w.pnames[idx % len(w.pnames)]
            if w.types[p] not in LIMIT_POSTFIX:
                cfg = {p: w.values[p][2]}
        w.start(cfg)
        res.append({'gen': ['corruption', list(types), label, data.decode('latin-1'), cfg and list(cfg)],
                    'types': w.types, 'trace': compress(w.trace)})
    return res


# ============================================================================ the check

def _emit(cfg, timeout=1100):
    """Gen_Persistent behaviour emission (like core.emit_behaviours; the output is large, so behaviours are
    reduced at once to  action sequence (json text) -> set of expected-state sequences (json text))"""
    r = run_tlc('Gen_Persistent', cfg, workers=1, timeout=timeout)
    if r.violated or not r.ok:
        raise MachineryError(f'behaviour emission Gen_Persistent/{cfg} failed: {r.violated or r.error}\n{r.out[-2000:]}')
    groups = {}
    n = 0
    pat = '<<"BEH", "'
    out = r.out
    r.out = out[-3000:]
    pos = 0
    while True:
        i = out.find(pat, pos)
        if i < 0:
            break
        j = out.find('">>\n', i)
        beh = json.loads(out[i + len(pat):j].replace('\\"', '"').replace('\\\\', '\\'))
        pos = j
        n += 1
        acts = [{k: v for k, v in s.items() if k not in ('exp', 'alt')} for s in beh]
        groups.setdefault(json.dumps(acts, sort_keys=True), set()).add(json.dumps([s['exp'] for s in beh], sort_keys=True))
    return r, n, groups


class DevIndex:
    """behaviours of the as-implemented variant (Dev = {"BelieveEarly"}), looked up by action sequence / prefix"""

    def __init__(self, groups):
        self.full = groups
        self.bylen = {}

    def prefix(self, acts):
        n = len(acts)
        if n not in self.bylen:
            d = {}
            for key, alts in self.full.items():
                a = json.loads(key)
                if len(a) >= n:
                    d.setdefault(json.dumps(a[:n], sort_keys=True), set()).update(
                        json.dumps(json.loads(e)[:n], sort_keys=True) for e in alts)
            self.bylen[n] = d
        return self.bylen[n].get(json.dumps(acts, sort_keys=True))

    def explains(self, acts, obs, upto):
        """(k, n): the deviating behaviours over acts[:n] allow obs[0..k-1]; n < len(acts) when only a prefix exists"""
        n = len(acts)
        alts = self.full.get(json.dumps(acts, sort_keys=True))
        while alts is None and n > upto:
            n -= 1
            alts = self.prefix(acts[:n])
        if not alts:
            return 0, n
        best = 0
        for e in alts:
            e = json.loads(e)
            k = 0
            while k < n and _match(e[k], obs[k]):
                k += 1
            best = max(best, k)
        return best, n


def _step_signature(acts, bad):
    a = acts[bad['step']]
    f = a.get('f') or {}
    d = bad.get('diff', [])
    clause = ('Retry' if d == ['skip'] else
              'Atomic' if 'target' in d and f.get('kind', 'none') != 'none' else
              'Saved' if 'target' in d and a['act'] in ('change', 'save') else
              'WriteDict' if d == ['wd'] else 'State')
    return {'module': 'Persistent', 'clause': clause, 'act': a['act'], 'fault': f.get('kind', 'none'),
            'op': f.get('op', ''), 'diff': d}


def _gen_pass(chk, name, cfg, nchunks, shapes_per, want_traces, tracebag, strict, deviating):
    """spec -> code for one Gen configuration"""
    quick = chk.tier == 'quick'
    r, nbeh, groups = strict.result()
    chk.add_tlc(r)
    rd, _, dgroups = deviating.result()
    chk.add_tlc(rd)
    dev = DevIndex(dgroups)
    rnd = random.Random(chk.seed * 7919 + len(groups))
    jobs = []
    three = '"P3"' in next(iter(groups))
    for gi, (key, alts) in enumerate(groups.items()):
        # parameters declared without default or given a configured default: not for limits (their default is
        # derived from the base parameter) and not for bool (two values only)
        nodefs = set()
        for a in json.loads(key):
            if a['act'] == 'start':
                nodefs |= set(a.get('nodef', [])) | {P for P, v in a.get('cdef', {}).items() if v != '-'}
        for sh in range(shapes_per):
            k = rnd.randrange(1 << 30)
            si = gi + sh * 5 + chk.seed
            types = SHAPES[si % len(SHAPES)][:3 if three else 2]
            while any(types[int(P[1:]) - 1] in LIMIT_POSTFIX or types[int(P[1:]) - 1] == 'bool' for P in nodefs):
                si += 1         # (a limit always has a default; bool has only two values)
                types = SHAPES[si % len(SHAPES)][:3 if three else 2]
            jobs.append((key, sorted(alts), (sorted(dgroups[key]) if key in dgroups else None), types, k,
                         (k if quick else None), nchunks, (gi + sh) % want_traces == 0))
    sample = json.loads(jobs[len(jobs) // 2][0]) if jobs else None
    del groups
    res = pool_map(replay_group, jobs)
    nbad = 0
    for job, runs in zip(jobs, res):
        acts = None
        for x in runs:
            if x.get('unmapped') or (not x['bad'] and not x.get('trace')):
                continue
            acts = json.loads(job[0])
            break
        for x in runs:
            if x.get('unmapped'):
                chk.notes['unmapped_fault_positions'] = chk.notes.get('unmapped_fault_positions', 0) + 1
                continue
            chk.impl_traces += 1
            chk.case(hash((job[0], job[3], json.dumps(x['plans'], sort_keys=True))),
                     '"crash"' in job[0] or '"ioerror"' in job[0] or '"corrupt"' in job[0])
            if x.get('trace'):
                tracebag.append({'gen': ['gen', name, acts, list(job[3]), job[4], x['plans']],
                                 'types': x['types'], 'trace': x['trace']})
            bad = x['bad']
            if not bad:
                continue
            nbad += 1
            if 'machinery' in bad:
                raise MachineryError(f"{bad['machinery']}: {acts} {x['plans']}")
            detail = {'kind': 'gen', 'cfg': cfg, 'actions': acts, 'types': list(job[3]), 'variant': job[4],
                      'plans': x['plans'], 'failed': {k: v for k, v in bad.items() if k != 'obs'}}
            if bad.get('notstored') and bad.get('dev_matched') != bad.get('dev_n', -1):
                chk.violation({'module': 'Persistent', 'clause': 'RoundTrip', 'cause': 'value_not_stored',
                               'dtypes': _dtypes(bad['notstored'])}, detail)
                continue
            if x.get('start_events'):
                sig = start_signature(x['start_events'][0], x['start_events'][1], x['types'])
                chk.violation(sig, detail)
                continue
            # is the run explained by the recorded deviation?  (Gen with Dev = {"BelieveEarly"})
            if 'dev_matched' in bad:
                matched, n = bad['dev_matched'], bad['dev_n']
            else:
                matched, n = dev.explains(acts, bad['obs'], bad['step'] + 1)
            sig = _step_signature(acts, bad)
            if matched == n and n > bad['step']:
                sig['deviation'] = 'Dev_BelieveEarly'
            elif matched > bad['step']:
                # the deviation explains the first mismatch, but something later is not explained by it either
                sig = {'module': 'Persistent', 'clause': 'State', 'beyond_deviation': 'Dev_BelieveEarly',
                       'act': acts[matched]['act'], 'fault': (acts[matched].get('f') or {}).get('kind', 'none')}
                detail['failed_beyond_deviation_at'] = matched
            chk.violation(sig, detail)
    chk.notes.setdefault('gen', []).append({'cfg': cfg, 'behaviours': nbeh, 'action_sequences': len(jobs) // shapes_per,
                                            'executions': sum(len(r) for r in res),
                                            'runs_mismatching_strict_spec': nbad})
    if sample:
        chk.sample({'behaviour': sample})


def _validate(chk, items):
    """code -> spec: TLC judges the recorded executions"""
    traces = [tlc_view(x['trace']) for x in items]
    # binding self test: corrupt one field of recorded executions -> TLC must reject exactly there
    canaries = []
    src = None
    for xi, x in enumerate(traces[:2000]):
        k = next((i for i, e in enumerate(x) if e['ev'] == 'fs' and 'vals' in e and e['target'].startswith('c:')), None)
        j = next((i for i, e in enumerate(x) if e['ev'] == 'start' and e['ok']), None)
        if k is not None and j is not None and k < j:
            a = json.loads(json.dumps(x))
            a[k]['target'] = 'c:bogus'
            b = json.loads(json.dumps(x))
            p = sorted(b[j]['got'])[0]
            b[j]['got'][p] = 'x_corrupted'
            c = json.loads(json.dumps(x))
            c[j]['target'] = 'absent'
            if not canaries or xi % 7 == 3:
                canaries = [(a, k + 1, 'Atomic'), (b, j + 1, 'Values'), (c, j + 1, 'Consistent')]
                src = xi
    if not canaries:
        chk.notes['binding_selftest'] = 'skipped: no recorded execution with a completed save followed by a start'
    traces += [c[0] for c in canaries]
    verdicts, st, tr = validate_traces('Trace_Persistent', traces, 'Trace_Persistent.cfg', timeout=1100)
    for n, (c, l, clause) in enumerate(canaries):
        v = verdicts.pop(len(items) + n)
        if verdicts[src] is not None and verdicts[src][0] <= l:
            continue        # the execution itself is rejected before the corrupted event
        if v is None or (clause and (v[0], v[1]) != (l, clause)):
            raise MachineryError(f'trace validation is not binding: corrupted trace {n} got verdict {v}, '
                                 f'expected rejection at {l} {clause}')
    del traces[len(items):]
    if canaries:
        chk.notes['binding_selftest'] = 'corrupted target class after rename / restored value / target class at start: each rejected by TLC at that event'
    chk.states += st
    chk.transitions += tr
    redo = []
    for i, v in verdicts.items():
        chk.impl_traces += 1
        chk.case(json.dumps(items[i]['gen'], sort_keys=True, default=str), len(items[i]['trace']) > 3)
        if v is None:
            continue
        if v[1].startswith('Retry'):
            redo.append(i)
            continue
        sig = trace_signature(items[i]['trace'], v[0], v[1], items[i]['types'])
        chk.violation(sig, {'kind': 'trace', 'gen': items[i]['gen'], 'failed_at': v[0], 'clause': v[1],
                            'event': items[i]['trace'][v[0] - 1] if 0 < v[0] <= len(items[i]['trace']) else None})
    if redo:
        # not explained by the property; explained when the recorded deviation Dev_BelieveEarly is admitted?
        v2, st, tr = validate_traces('Trace_Persistent', [traces[i] for i in redo], 'Trace_Persistent_dev.cfg',
                                     timeout=1100)
        chk.states += st
        chk.transitions += tr
        for k, i in enumerate(redo):
            v = verdicts[i]
            ev = items[i]['trace'][v[0] - 1]
            detail = {'kind': 'trace', 'gen': items[i]['gen'], 'failed_at': v[0], 'clause': v[1], 'event': ev}
            if v2[k] is None:
                chk.violation({'module': 'Persistent', 'clause': v[1], 'deviation': 'Dev_BelieveEarly',
                               'call': ev.get('call'), 'out': ev.get('out')}, detail)
            else:
                detail.update(failed_at=v2[k][0], clause=v2[k][1])
                sig = trace_signature(items[i]['trace'], v2[k][0], v2[k][1], items[i]['types'])
                sig['beyond_deviation'] = 'Dev_BelieveEarly'
                chk.violation(sig, detail)


def _chunks(n, size):
    return [(lo, min(n, lo + size)) for lo in range(0, n, size)]


# (Gen configuration, datatype shapes per behaviour, every n-th execution also goes to trace validation)
GEN_PLAN = {'quick': [('Gen_Persistent', 1, 5), ('Gen_PersistentC', 2, 6), ('Gen_PersistentO', 1, 8)],
            'thorough': [('Gen_Persistent', 1, 150), ('Gen_PersistentB', 3, 40), ('Gen_PersistentM', 1, 80),
                         ('Gen_PersistentC', 3, 20), ('Gen_PersistentO', 1, 100)]}


def run(chk):
    quick = chk.tier == 'quick'
    chk.rule = ('spec->code: every behaviour of Gen_Persistent (start/writeinit/change/save/corrupt/restart with a '
                'crash or I/O error before each operation of the reference save) executed on the real PersistentMixin '
                'over FakeFS, abstract fault positions mapped to concrete FS calls (quick: one representative per '
                'position, thorough: all), state compared with TLC after every step; code->spec: those executions + '
                'random multi-fault histories + a fault at every concrete FS call + corruption sweeps, judged by '
                'Trace_Persistent. distinct = (action sequence, datatypes, concrete fault calls) or generator '
                'arguments; non-trivial = contains a fault, a corruption or more than a bare start')
    chk.assumptions += [
        'FakeFS: write() is applied unbuffered and in order; a crash drops all later operations; rename is atomic',
        'usable stored entry = datatype.validate(datatype.import_value(entry)) succeeds (datatypes trusted, C01/C02)',
        'I/O errors while reading at start-up are not injected (property is silent); crashes are',
        'values registered in writeDict at start-up are compared (documented purpose of persistence: write to HW)']
    boot()
    for m in ('Persistent', 'Gen_Persistent', 'Trace_Persistent'):
        sany(m)
    # self test of gamma/alpha: catalogue values are valid, distinct; bad entries are judged bad by the datatypes
    w = World(tuple(ALLTYPES))
    for p, t in w.types.items():
        ids = [w.alpha_val(p, v) for v in w.values[p][:3]]
        if t != 'bool' and ids != ['v0', 'v1', 'v2']:
            raise MachineryError(f'catalogue of {t} is not made of 3 distinct values: {ids}')
        if not w.bad[p]:
            raise MachineryError(f'catalogue: no stored entry of the list for {t} is rejected by the datatype')

    # TLC runs side by side: design check, as-implemented variant, behaviour emission (strict and deviating)
    from concurrent.futures import ThreadPoolExecutor
    t = 'quick' if quick else 'thorough'
    import time as _t
    t0 = _t.time()
    with ThreadPoolExecutor(6) as ex:
        mc = ex.submit(model_check, 'Persistent', f'MC_Persistent_{t}.cfg', timeout=1100)
        asimp = ex.submit(run_tlc, 'Persistent', 'MC_Persistent_asimplemented.cfg', timeout=300)
        plan = GEN_PLAN[t]

        def submit(i):
            # emission of the strict and the deviating variant of configuration i (big outputs: at most 2 ahead)
            return [ex.submit(_emit, f'{plan[i][0]}_{t}{sfx}.cfg') for sfx in ('', '_dev')]

        ahead = 2 if quick else 1
        em = {i: submit(i) for i in range(min(ahead, len(plan)))}
        # 1 design check
        chk.add_tlc(mc.result())
        r = asimp.result()
        if not r.violated or r.violated[1] != 'Retry':
            raise MachineryError('the Retry invariant does not distinguish the as-implemented design (vacuous?)')
        chk.add_tlc(r)
        chk.notes['phase_s'] = {'mc': round(_t.time() - t0, 1)}
        # 2 spec -> code
        bag = []
        for i, (name, shapes_per, every) in enumerate(plan):
            if i + ahead < len(plan):
                em[i + ahead] = submit(i + ahead)
            cfg = f'{name}_{t}.cfg'
            nchunks = int(re.search(r'NChunks = (\d+)', (SPEC / cfg).read_text()).group(1))
            strict, deviating = em.pop(i)
            _gen_pass(chk, name, cfg, nchunks, shapes_per, every, bag, strict, deviating)
            del strict, deviating

    chk.notes['phase_s']['gen_replay'] = round(_t.time() - t0, 1)
    t0 = _t.time()
    # 3 code -> spec
    n = 250 if quick else 4000
    items = list(bag)
    items += pool_map(random_history, [(chk.seed * 1000003 + i, 25 if quick else 40, i % 3 == 0) for i in range(n)])
    rnd = random.Random(chk.seed + 17)
    sweeps = []
    for k in range(2 if quick else 12):
        types, auto, hw = _rand_world(rnd, 3)
        for where in ('change', 'save', 'start'):
            sweeps.append((types, auto or [0], hw, where, k % 2 == 1))
    for part in pool_map(fault_sweep, sweeps):
        items += part
    jobs = []
    # every datatype gets its stored entries corrupted (kinds, bad entries, dropped / renamed / foreign keys);
    # truncation at every byte and bit flips on some shapes (quick) / on all (thorough)
    order = list(ALLTYPES)
    rnd.shuffle(order)
    shapes = [(tuple(order[k:k + 4]), not quick or k < 4) for k in range(0, len(order), 4)]
    shapes += [(tuple(rnd.sample(ALLTYPES[:-2], 3)), True) for _ in range(0 if quick else 8)]
    shapes.append((('struct', 'array', 'nested'), True))
    for types, full in shapes:
        ncases = len(corruption_cases(types, chk.tier, random.Random(chk.seed), full))
        jobs += [(types, chk.tier, chk.seed, lo, hi, full) for lo, hi in _chunks(ncases, 400)]
    for part in pool_map(corruption_sweep, jobs):
        items += part
    chk.notes['traces'] = {'from_gen_replays': len(bag), 'total': len(items),
                           'events': sum(len(x['trace']) for x in items)}
    chk.notes['phase_s']['trace_generation'] = round(_t.time() - t0, 1)
    t0 = _t.time()
    _validate(chk, items)
    chk.notes['phase_s']['trace_validation'] = round(_t.time() - t0, 1)
    # 4 concurrent saves of one module under the deterministic scheduler (PersistentConc)
    t0 = _t.time()
    from . import c17_conc
    c17_conc.add(chk)
    chk.notes['phase_s']['concurrent'] = round(_t.time() - t0, 1)
    chk.sample({'trace_prefix': tlc_view(items[-1]['trace'])[:3]})
    chk.exhaustive = False


def replay(chk, rep):
    d = rep['detail']
    boot()
    if d.get('kind') == 'conc':
        from . import c17_conc
        return c17_conc.replay(chk, rep)
    if d.get('kind') == 'gen':
        plans = {int(k): {int(i): x for i, x in v.items()} for k, v in d['plans'].items()}
        rp, obs, wins, outs = run_actions(d['actions'], tuple(d['types']), d['variant'], plans)
        for k, a in enumerate(d['actions']):
            print(k, a, '->', outs[k])
            print('     fs:', ' '.join('%s:%s' % (e['op'], e['outcome'][:5]) for e in wins[k]))
            print('     observed:', obs[k])
        print('first step not allowed by the specification:', json.dumps(d['failed'], indent=1, default=str))
        return 0
    gen = d['gen']
    if gen[0] == 'random_history':
        item = random_history(tuple(gen[1]))
    elif gen[0] == 'fault_sweep':
        types, auto, hw, where, buffered = gen[1]
        item = [x for x in fault_sweep((tuple(types), auto, hw, where, buffered)) if x['gen'][2:] == gen[2:]][0]
    elif gen[0] == 'corruption':
        w = World(tuple(gen[1]))
        w.fs.dirs.add(posixpath.dirname(TARGET))
        w.fs.files[TARGET] = gen[3].encode('latin-1')
        w.start({p: w.values[p][2] for p in (gen[4] or [])})   # (gen[4]: configured parameters)
        print('stored file:', w.fs.files.get(TARGET) and gen[3], 'start error:', w.start_error)
        item = {'trace': compress(w.trace)}
    else:
        plans = {int(k): {int(i): x for i, x in v.items()} for k, v in gen[5].items()}
        rp, _, _, _ = run_actions(gen[2], tuple(gen[3]), gen[4], plans)
        item = {'trace': compress(rp.w.trace)}
    for k, e in enumerate(item['trace']):
        print('%s%3d %s' % ('>>' if k + 1 == d['failed_at'] else '  ', k + 1, e))
    print('rejected at event', d['failed_at'], 'clause', d['clause'])
    return 0
