"""Requests of several connections are served one at a time (shared by C04 and C07).

spec/DispLock.tla      design level: read-merge-write on the cache is atomic only under the dispatcher lock
spec/DispSerial.tla    observable level: the driver gets the payload merged into the CURRENT value; every reply
                       reports what its own request did
Binding: real Dispatcher + real Module with a struct parameter (optional members) and a scalar one; 2-3 request
threads under the deterministic scheduler with every source line of dispatcher.py / modulebase.py a possible
preemption point; TLC validates each execution (Trace_DispSerial)."""
import json

from .. import detsched as ds
from ..core import MachineryError, model_check, pool_map, run_tlc, sany, validate_traces
from ..env import LoggerStub, boot

SCEN = {
    'two_members': {'c1': [('change', 'pars', {'a': 1})], 'c2': [('change', 'pars', {'b': 2})]},
    'three': {'c1': [('change', 'pars', {'a': 1}), ('read', 'pars', None)], 'c2': [('change', 'pars', {'b': 2})],
              'c3': [('change', 'pars', {'a': 3, 'b': 3})]},
    'scalar': {'c1': [('change', 'target', {'v': 1})], 'c2': [('change', 'target', {'v': 2}), ('read', 'target', None)]},
    'mixed': {'c1': [('change', 'target', {'v': 5}), ('change', 'pars', {'b': 7})], 'c2': [('read', 'pars', None), ('change', 'pars', {'a': 4})]},
}


def run_scenario(name, strategy):
    boot()
    import frappy.modulebase as mb
    import frappy.protocol.dispatcher as dp
    from frappy.datatypes import IntRange, StructOf
    from frappy.modules import Module
    from frappy.params import Parameter
    s = ds.Scheduler(strategy, max_steps=40000, trace_files=('frappy/protocol/dispatcher.py', 'frappy/modulebase.py'))
    who = {}
    with ds.Patch(mb, dp):
        class SecNode:
            def __init__(self):
                self.modules = {}
                self.export = []
                self.name = 'n'

            def get_module(self, n):
                return self.modules.get(n)

        class Srv:
            restart = shutdown = None

        srv = Srv()
        srv.secnode = SecNode()
        disp = srv.dispatcher = dp.Dispatcher('d', LoggerStub(), {}, srv)

        def drv(self, pname, value):
            me = s.me()
            c, n = who.get(me.name if me else '', ('?', 0))
            v = {'v': int(value)} if pname == 'target' else {k: int(x) for k, x in dict(value).items()}
            s.log(ev='drv', c=c, n=n, p=pname, v=v)
            if me is not None and not s.aborting:
                s.yield_('drv')
            return value

        class Mod(Module):
            pars = Parameter('struct', StructOf(optional=['a', 'b'], a=IntRange(0, 9), b=IntRange(0, 9)),
                             default={'a': 0, 'b': 0}, readonly=False)
            target = Parameter('scalar', IntRange(0, 9), default=0, readonly=False)

            def write_pars(self, value):
                return drv(self, 'pars', value)

            def write_target(self, value):
                return drv(self, 'target', value)

            def earlyInit(self):
                pass

        m = Mod('m', LoggerStub('m'), {'description': ''}, srv)
        srv.secnode.modules['m'] = m
        srv.secnode.export.append('m')

        class C:
            def __init__(self, name):
                self.name = name

            def send_reply(self, msg):
                pass

        def requester(cname, script):
            conn = C(cname)
            for n, (kind, p, payload) in enumerate(script, 1):
                who[s.me().name] = (cname, n)
                s.log(ev='req', c=cname, n=n, kind=kind, p=p, payload=payload or {})
                wire = '_pars' if p == 'pars' else 'target'
                data = None if kind == 'read' else (payload['v'] if p == 'target' else payload)
                try:
                    rep = disp.handle_request(conn, (kind, f'm:{wire}', data))
                    val = rep[2][0]
                    v = {'v': int(val)} if p == 'target' else {k: int(x) for k, x in dict(val).items()}
                    s.log(ev='rep', c=cname, n=n, v=v)
                except ds.SchedAbort:
                    raise
                except BaseException as e:  # noqa
                    s.log(ev='rep', c=cname, n=n, v={'error': type(e).__name__})

        for c, script in sorted(SCEN[name].items()):
            s.spawn('r_' + c, requester, c, script)
        s.run()
        final = {'pars': {k: int(x) for k, x in dict(m.pars).items()}, 'target': {'v': int(m.target)}}
    tr = [{'ev': 'cfg', 'cur': {'pars': {'a': 0, 'b': 0}, 'target': {'v': 0}}}]
    for e in s.events:
        if e['ev'] in ('req', 'drv', 'rep'):
            tr.append({k: v for k, v in e.items() if k not in ('seq', 'th', 'vt')})
    tr.append({'ev': 'end', 'cur': final})
    if s.deadlock or s.livelock or any(t.exc is not None for t in s.threads.values()):
        tr.append({'ev': 'broken'})
    return {'choices': [c for _, c in s.choices], 'raw_choices': list(s.choices), 'trace': tr}


def _explore(args):
    name, mode, seed, nruns = args
    out = []
    if mode == 'dfs':
        class Run:
            def __init__(self, r):
                self.choices = r['raw_choices']
                self.res = r

        for st in ds.explore(lambda strat: Run(run_scenario(name, strat)), max_preemptions=1, max_runs=nruns, max_depth=400):
            out.append((st.res['choices'], st.res['trace']))
    else:
        for k in range(nruns):
            r = run_scenario(name, ds.RandomStrategy(seed * 7919 + k, stay=0.85 + 0.04 * (k % 3)))
            out.append((r['choices'], r['trace']))
    return name, out


def add(chk):
    """called from C04's and C07's run(): adds the design check, the executions and their verdicts to chk"""
    quick = chk.tier == 'quick'
    for m in ('DispLock', 'DispSerial', 'Trace_DispSerial'):
        sany(m)
    chk.add_tlc(model_check('DispLock', 'MC_DispLock_locked.cfg', timeout=300))
    r = run_tlc('DispLock', 'MC_DispLock_unlocked.cfg', timeout=300)
    chk.add_tlc(r)
    if not r.violated or r.violated[1] != 'NoLostMember':
        raise MachineryError(f'the unlocked dispatcher design was expected to violate NoLostMember: {r.violated or r.error}')
    jobs = []
    for name in SCEN:
        jobs.append((name, 'dfs', chk.seed, 120 if quick else 2500))
        jobs.append((name, 'rnd', chk.seed + 3, 60 if quick else 1500))
    traces, origin, seen = [], [], set()
    for name, out in pool_map(_explore, jobs, chunksize=1):
        for choices, tr in out:
            k = (name, tuple(choices))
            if k not in seen:
                seen.add(k)
                traces.append(tr)
                origin.append((name, choices))
    verdicts, st, trn = validate_traces('Trace_DispSerial', traces, 'Trace_DispSerial.cfg', timeout=900)
    chk.states += st
    chk.transitions += trn
    for i, v in verdicts.items():
        name, choices = origin[i]
        chk.impl_traces += 1
        chk.case(('serial', name, tuple(choices)), len(set(choices)) > 1)
        if v is not None:
            l = v[0]
            ev = traces[i][l - 1] if 0 < l <= len(traces[i]) else {}
            chk.violation({'module': 'DispSerial', 'event': ev.get('ev'), 'scenario': name},
                          {'serial': name, 'choices': choices, 'failed_at': l, 'event': ev, 'trace': traces[i]})
    chk.notes['serial_request_schedules'] = len(traces)


def replay(chk, rep):
    d = rep['detail']
    r = run_scenario(d['serial'], ds.GuidedStrategy(d['choices']))
    for e in r['trace']:
        print(json.dumps(e))
    return 0
