"""C11 - Client: every caller gets its own reply or an error, under all interleavings.

spec/Client.tla     code-shaped PlusCal model of caller / tx / rx / disconnect / peer / clock
spec/ClientObs.tla  the property at the level of observable events (+ named deviations)
Binding:
  design     : TLC checks Client.tla with the repaired switches (must hold) and with the
               as-implemented switches (expected to fail; counterexamples kept as documentation)
  code->spec : the real SecopClient runs on a scripted fake connection under the deterministic
               scheduler (bounded-preemption DFS + random schedules, virtual time); every execution
               is validated by TLC against Trace_ClientObs.
"""
import json
import random

from ..core import MachineryError, model_check, pool_map, run_tlc, sany, validate_traces
from .. import core

META = {
    'text': 'TLC model-checks a statement-level PlusCal model of the client protocol (caller/tx/rx threads, '
            'disconnect entered concurrently, FIFO peer with updates/ignore/drop, virtual clock) over all '
            'interleavings for 2 callers: the repaired design satisfies OwnReply, AtMostOnce, NoSpuriousTimeout, '
            'ShutdownClean, NoWorkerLeft; the as-implemented switches reproduce three races. The real SecopClient is '
            'executed under a deterministic scheduler that owns every thread switch (all schedules with <=2 '
            'preemptions at synchronisation points, plus random schedules; thorough adds line-level preemption) in '
            'virtual time - over a scripted connection and over the real AsynTcp on a fake socket layer (peer closing or '
            'resetting), with experimental requests / replies, requests repeated after a time-out, and a client that '
            'reconnects by itself (refused attempts, node coming back, state callbacks, shutdown ending the reconnect '
            'thread) - and every execution is validated by TLC against the observable-level specification.',
    'note': 'Trusted: TLC, the deterministic scheduler (harness/detsched.py) and the fake connection; CPython GIL '
            'semantics for yield-point granularity. Bounds: 2-4 callers, one connection drop (optionally one '
            'reopening), one user disconnect. Fault placement: drop/disconnect start after all callers passed '
            'queue_request\'s connect(), except in the late-caller / reconnect scenarios.',
    'tech': 'TLA+/PlusCal spec + TLC model checking; deterministic-scheduler exploration of the real code; '
            'TLC trace validation (Trace_ClientObs) with named deviations',
    'ref': 'DESIGN.md section 5 C11',
}

SCENARIOS = {
    'samekey_stream': dict(callers=[('read', 'm:p1'), ('read', 'm:p1')], streaming=True),
    'diffkey_upd': dict(callers=[('read', 'm:p1'), ('change', 'm:p2')], updates=1),
    'samekey_quiet': dict(callers=[('read', 'm:p1'), ('read', 'm:p1')]),
    'samekey_drop': dict(callers=[('read', 'm:p1'), ('read', 'm:p1')], drop=True),
    'diffkey_user': dict(callers=[('read', 'm:p1'), ('read', 'm:p2')], user=True),
    'three_drop_user': dict(callers=[('read', 'm:p1'), ('read', 'm:p1'), ('change', 'm:p2')], drop=True,
                            user=True, updates=1),
    'ignored': dict(callers=[('read', 'm:p1'), ('read', 'm:p2')], ignore=[1]),
    'unknown_action': dict(callers=[('read', 'm:p1'), ('foo', 'm:p1')]),
    'four_mixed': dict(callers=[('read', 'm:p1'), ('read', 'm:p1'), ('change', 'm:p1'), ('read', 'm:p2')], updates=2),
    'four_drop': dict(callers=[('read', 'm:p1'), ('read', 'm:p1'), ('read', 'm:p2'), ('bar', 'm:p2')], drop=True),
    'late_callers_drop': dict(callers=[('read', 'm:p1'), ('read', 'm:p2'), ('read', 'm:p1')], drop=True, anytime=True),
    'user_stream': dict(callers=[('read', 'm:p1'), ('read', 'm:p1')], user=True, streaming=True),
    # experimental requests answered by an experimental (non-error) reply: only one at a time
    'unknown_reply': dict(callers=[('read', 'm:p1'), ('foo', 'm:p1')], xreply=True),
    'two_unknown': dict(callers=[('foo', 'm:p1'), ('bar', 'm:p2'), ('read', 'm:p1')], xreply=True),
    # a client that reconnects by itself (activate on): the reconnect thread must end with the shutdown,
    # callers during the outage are refused, callers after the node is back are served
    'active_drop_user': dict(activate=True, callers=[('read', 'm:p1'), ('read', 'm:p2')], drop=True, user=True, user_after=3.5),
    'active_reopen_user': dict(activate=True, reopen=2, callers=[('read', 'm:p1'), ('read', 'm:p2', 1.2), ('read', 'm:p1', 6.0)],
                               drop=True, anytime=True, user=True, user_after=8.0),
    # requests parked behind one that is answered by an error reply / behind an experimental one, on a
    # connection kept busy by updates (no idle heartbeat comes to the rescue)
    'samekey_error_stream': dict(callers=[('read', 'm:p1'), ('read', 'm:p1'), ('read', 'm:p1')], errors=[1, 2], streaming=True),
    'two_unknown_error_stream': dict(callers=[('foo', 'm:p1'), ('foo', 'm:p1')], streaming=True),
    'samekey_change_error': dict(callers=[('change', 'm:p2'), ('change', 'm:p2')], errors=[1], updates=2),
    # error updates are asynchronous messages too: they never answer a request, also not an experimental one
    'unknown_errupdate': dict(callers=[('foo', 'm:p1'), ('read', 'm:p2')], xreply=True, errupd_before_reply=True),
    # a request that timed out must not block a later request with the same key
    # nobody connects beforehand: the first requests do - several at the same time - and all are served over ONE
    # connection; the shutdown leaves no worker thread behind
    'lazy_connect': dict(lazy=True, callers=[('read', 'm:p1'), ('read', 'm:p2'), ('change', 'm:p1')], user=True, user_after=1.0),
    'lazy_connect_same': dict(lazy=True, callers=[('read', 'm:p1'), ('read', 'm:p1')], user=True, user_after=1.0),
    # a request made while the user shuts the client down: it is refused or served, but the client stays shut down
    # (no reconnect, no worker thread left) - also for a client that reconnects by itself after a LOSS
    'request_during_shutdown': dict(activate=True, callers=[('read', 'm:p1'), ('read', 'm:p2', 2.0), ('read', 'm:p1', 2.0)],
                                    user=True, user_at=2.0),
    'request_during_shutdown2': dict(callers=[('read', 'm:p1'), ('change', 'm:p2', 2.0)], user=True, user_at=2.0),
    'timeout_then_same': dict(callers=[('read', 'm:p1'), ('read', 'm:p1', 11.5)], ignore=[1]),
    # the answer to a request that timed out arrives late, while the next request with the same key is waiting behind it
    'late_reply_same': dict(callers=[('read', 'm:p1'), ('read', 'm:p1', 10.1)], late={1: 10.4}),
    # ... and the next request is made in the window between the time-out and the receive thread's housekeeping
    'late_reply_window': dict(callers=[('read', 'm:p1', 0.5), ('read', 'm:p1', 10.6)], late={1: 10.3}),
    'late_reply_window2': dict(callers=[('read', 'm:p1', 0.3), ('read', 'm:p1', 10.4), ('read', 'm:p1', 10.5)], late={1: 10.4}),
    'late_reply_same2': dict(callers=[('read', 'm:p1'), ('read', 'm:p1', 10.05), ('read', 'm:p2', 10.3)], late={1: 10.7}),
}
T0 = 1000000.0


def scenario(name):
    """name, name@tcp (the real AsynTcp over a fake socket layer) or name@reset (tcp, the peer resets instead of closing)"""
    base, _, variant = name.partition('@')
    sc = dict(SCENARIOS[base])
    if variant in ('tcp', 'reset'):
        sc['tcp'] = True
    if variant == 'reset':
        sc['reset'] = True
    return sc


def alpha(r, sc):
    """events of one execution -> trace in the vocabulary of ClientObs"""
    tr = []
    qmap = {('q_put', 'txq'): 'txq_put', ('q_get', 'txq'): 'txq_get',
            ('q_put', 'pending'): 'pending_put', ('q_get', 'pending'): 'pending_get'}

    def ci(tag):
        return int(tag[1:]) if tag and tag[0] == 'c' and tag[1:].isdigit() else None
    for e in r['events']:
        vt = int(round((e['vt'] - T0) * 10))
        ev = e['ev']
        if ev == 'call':
            tr.append({'ev': 'call', 'i': e['i'], 'key': f"{e['action']} {e['ident']}", 'vt': vt})
        elif ev in ('q_put', 'q_get'):
            i = ci(e.get('tag'))
            if i:
                tr.append({'ev': qmap[ev, e['q']], 'i': i, 'vt': vt})
        elif ev == 'io_send' and e.get('data') and e['action'] not in ('ping', 'describe'):
            tr.append({'ev': 'send', 'i': int(e['data']), 'vt': vt})
        elif ev == 'ev_set':
            i = ci(e.get('tag'))
            if i:
                tr.append({'ev': 'evset', 'i': i, 'vt': vt})
        elif ev == 'peer_recv' and e['gid']:
            tr.append({'ev': 'precv', 'i': e['gid'], 'vt': vt})
        elif ev == 'peer_send' and e.get('gid'):
            tr.append({'ev': 'psend', 'i': e['gid'], 'vt': vt})
        elif ev == 'peer_drop':
            tr.append({'ev': 'pdrop', 'vt': vt})
        elif ev == 'io_shutdown':
            tr.append({'ev': 'ioshut', 'vt': vt})
        elif ev == 'peer_reopen':
            tr.append({'ev': 'reopen', 'vt': vt})
        elif ev == 'connect_refused':
            tr.append({'ev': 'refused', 'vt': vt})
        elif ev == 'state':
            # by: who makes the client change its state - a caller (a request re-opens a shut down client) or one of
            # the client's own threads (after a shutdown they have nothing to announce any more)
            th = str(e.get('th', ''))
            tr.append({'ev': 'state', 'online': e['online'], 'state': e['state'], 'vt': vt,
                       'by': 'caller' if th.startswith('c') and th[1:].isdigit() else 'user' if th == 'user' else 'worker'})
        elif ev == 'disc_call':
            tr.append({'ev': 'disc_call', 'who': e['who'], 'vt': vt})
        elif ev == 'disc_ret':
            tr.append({'ev': 'disc_ret', 'who': e['who'], 'exc': e['exc'] or '', 'vt': vt})
        elif ev == 'ret':
            tr.append({'ev': 'ret', 'i': e['i'], 'kind': e['kind'], 'gid': e.get('gid') or 0,
                       'dt': int(round(e['dt'] * 10)), 'vt': vt})
    excs = []
    for n, x in sorted(r['thread_exc'].items()):
        excs.append('AttributeError:join' if 'AttributeError' in x and "'join'" in x else x[:60])
    left = list(r['left'])
    if r['deadlock']:
        left.append('DEADLOCK')
    if r['livelock']:
        left.append('LIVELOCK')
    tr.append({'ev': 'end', 'left': left, 'excs': excs, 'vt': tr[-1]['vt'] if tr else 0})
    return tr


def _explore(args):
    name, mode, seed, nruns, line_level = args
    from .. import detsched as ds
    from ..clientworld import run_scenario
    sc = scenario(name)
    out = []
    if mode == 'dfs':
        class Run:
            def __init__(self, r):
                self.choices = r['raw_choices']
                self.res = r

        def once(strategy):
            return Run(run_scenario(sc, strategy, line_level))
        for s in ds.explore(once, max_preemptions=2, max_runs=nruns):
            out.append((s.res['choices'], alpha(s.res, sc), line_level))
    elif mode == 'corpus':
        # schedules that exposed a defect once (corpus/C11.json): replayed on every run
        for entry in json.loads((core.VERIF / 'corpus' / 'C11.json').read_text()):
            if entry['scenario'] == name:
                r = run_scenario(sc, ds.GuidedStrategy(entry['choices']), bool(entry.get('line_level')))
                out.append((r['choices'], alpha(r, sc), bool(entry.get('line_level'))))
    else:
        for k in range(nruns):
            r = run_scenario(sc, ds.RandomStrategy(seed * 7919 + k, stay=0.3 + 0.5 * ((seed + k) % 3) / 2), line_level)
            out.append((r['choices'], alpha(r, sc), line_level))
    return name, out


FIXED = dict(UseLock='TRUE', SafeJoin='TRUE', Release='TRUE', Recheck='TRUE')
ASIMPL = [('stale_park', dict(FIXED, UseLock='FALSE'), 'NoSpuriousTimeout',
           dict(KeyOf='SameKey', Streaming='TRUE', CanDrop='FALSE', WithUser='FALSE', MaxUpd=0)),
          ('join_cleared_handle', dict(FIXED, SafeJoin='FALSE'), 'ShutdownClean',
           dict(KeyOf='DiffKey', Streaming='FALSE', CanDrop='FALSE', WithUser='TRUE', MaxUpd=0)),
          ('lost_in_txq', dict(FIXED, Release='FALSE', Recheck='FALSE'), 'NoSpuriousTimeout',
           dict(KeyOf='DiffKey', Streaming='FALSE', CanDrop='TRUE', WithUser='FALSE', MaxUpd=0))]


def _cfg(name, switches, env, callers='{"c1", "c2"}', ignore='{}'):
    lines = ['SPECIFICATION Spec', 'CONSTANTS', f'  Callers = {callers}', f"  KeyOf <- {env['KeyOf']}",
             f'  MayIgnore = {ignore}', f"  MaxUpd = {env['MaxUpd']}", f"  Streaming = {env['Streaming']}",
             f"  CanDrop = {env['CanDrop']}", f"  WithUser = {env['WithUser']}", '  T = 3', '  H = 2']
    lines += [f'  {k} = {v}' for k, v in switches.items()]
    lines += ['  defaultInitValue = defaultInitValue', 'INVARIANT OwnReply', 'INVARIANT AtMostOnce',
              'INVARIANT NoSpuriousTimeout', 'INVARIANT ShutdownClean', 'INVARIANT NoWorkerLeft',
              'CHECK_DEADLOCK FALSE']
    p = core.SPEC / f'MC_Client_{name}.cfg'
    txt = '\n'.join(lines) + '\n'
    if not p.exists() or p.read_text() != txt:
        p.write_text(txt)
    return p.name


def run(chk):
    quick = chk.tier == 'quick'
    chk.rule = ('executions of the real SecopClient under the deterministic scheduler: per scenario all schedules with '
                '<= 2 preemptions at synchronisation points (capped) plus seeded random schedules; distinct = distinct '
                'choice sequence; non-trivial = at least one preemption or a fault (drop / disconnect / ignored request)')
    for m in ('Client', 'ClientObs', 'Trace_ClientObs'):
        sany(m)
    # 1. design: repaired switches must satisfy every invariant
    envs = [dict(KeyOf='SameKey', Streaming='TRUE', CanDrop='FALSE', WithUser='FALSE', MaxUpd=0),
            dict(KeyOf='DiffKey', Streaming='FALSE', CanDrop='FALSE', WithUser='TRUE', MaxUpd=0),
            dict(KeyOf='SameKey', Streaming='FALSE', CanDrop='TRUE', WithUser='FALSE', MaxUpd=0)]
    if not quick:
        envs.append(dict(KeyOf='DiffKey', Streaming='FALSE', CanDrop='TRUE', WithUser='TRUE', MaxUpd=0))
        envs.append(dict(KeyOf='SameKey', Streaming='FALSE', CanDrop='TRUE', WithUser='FALSE', MaxUpd=1))
        envs.append(dict(KeyOf='SameKey', Streaming='TRUE', CanDrop='TRUE', WithUser='TRUE', MaxUpd=1))
    thunks = []
    for n, env in enumerate(envs):
        one = quick and env['WithUser'] == 'TRUE'       # quick: user disconnect with a single caller
        cfg = _cfg(f'fixed_{n}' + ('_1c' if one else ''), FIXED, env, callers='{"c1"}' if one else '{"c1", "c2"}')
        thunks.append(lambda cfg=cfg: model_check('Client', cfg, timeout=1500, heap='12g'))
    # ... and a peer that may ignore a request produces legitimate time-outs only
    cfg = _cfg('fixed_ign', FIXED, envs[0] | {'Streaming': 'FALSE'}, ignore='{"c1"}')
    thunks.append(lambda cfg=cfg: model_check('Client', cfg, timeout=600))
    # 2. design: the as-implemented switches break the property (documentation of the findings)
    for name, sw, inv, env in ASIMPL:
        cfg = _cfg('asimpl_' + name, sw, env)
        thunks.append(lambda cfg=cfg: run_tlc('Client', cfg, timeout=900, heap='8g'))
    results = core.run_parallel(thunks, width=4 if quick else 3)
    for r in results:
        chk.add_tlc(r)
    asimpl = {}
    for (name, sw, inv, env), r in zip(ASIMPL, results[-len(ASIMPL):]):
        asimpl[name] = {'expected_violation': inv, 'tlc': r.violated[1] if r.violated else None,
                        'counterexample_steps': [a.split(' line')[0] for a, _ in r.counterexample()][1:]}
        if not r.violated and not r.ok:
            raise MachineryError(f'TLC failed on as-implemented model {name}: {r.error}')
    chk.notes['as_implemented_model'] = asimpl

    # 3. code -> spec
    jobs = []
    ndfs, nrnd = (250, 150) if quick else (4000, 3000)
    for name in SCENARIOS:
        jobs.append((name, 'dfs', chk.seed, ndfs, False))
        sc = SCENARIOS[name]
        lossy = sc.get('drop') or sc.get('user')
        for part in range(2 if quick else 8):
            # random schedules alternate between the scripted connection and the real AsynTcp over fake sockets;
            # where the connection is lost, also with a peer that resets instead of closing
            variant = '' if part % 2 == 0 else ('@reset' if lossy and part % 4 == 1 else '@tcp')
            jobs.append((name + variant, 'rnd', chk.seed * 31 + part, nrnd // (2 if quick else 8), False))
        if lossy:
            jobs.append((name + '@reset', 'dfs', chk.seed, 80 if quick else 1500, False))
        if not quick:
            jobs.append((name, 'rnd', chk.seed * 17 + 5, 400, True))    # line-level preemption
        elif 'late' in sc or name.startswith('timeout'):
            jobs.append((name, 'rnd', chk.seed * 17 + 5, 60, True))     # (time-out housekeeping: also in quick)
    for name in sorted({e['scenario'] for e in json.loads((core.VERIF / 'corpus' / 'C11.json').read_text())}):
        jobs.append((name, 'corpus', 0, 0, False))
    results = pool_map(_explore, jobs, chunksize=1)
    traces, origin, lines = [], [], {}
    seen = set()
    for name, out in results:
        for choices, tr, ll in out:
            k = (name, ll, tuple(choices))
            if k in seen:
                continue
            seen.add(k)
            traces.append(tr)
            origin.append((name, choices))
            lines[len(traces) - 1] = ll
    verdicts, st, trn, extra = validate_traces('Trace_ClientObs', traces, 'Trace_ClientObs.cfg', timeout=1200,
                                              collect=('DEVS',))
    chk.states += st
    chk.transitions += trn
    devs_by_trace = {}
    for i, js in extra['DEVS']:
        d = set(json.loads(js))
        devs_by_trace[i] = d if i not in devs_by_trace else (devs_by_trace[i] & d if not d or not devs_by_trace[i] else min(devs_by_trace[i], d, key=len))
    for i, v in verdicts.items():
        name, choices = origin[i]
        chk.impl_traces += 1
        pre = sum(1 for a, b in zip(choices, choices[1:]) if a != b)
        sc = scenario(name)
        chk.case((name, tuple(choices)), pre > 0 or any(sc.get(k) for k in ('drop', 'user', 'ignore')))
        if v is not None:
            l = v[0]
            ev = traces[i][l - 1] if 0 < l <= len(traces[i]) else {}
            sig = {'module': 'ClientObs', 'event': ev.get('ev'), 'kind': ev.get('kind') or ev.get('exc') or
                   (','.join(ev.get('left', []) + ev.get('excs', [])) if ev.get('ev') == 'end' else ''),
                   'scenario_faults': sorted(k for k in ('drop', 'user', 'ignore', 'streaming') if sc.get(k))}
            chk.violation(sig, {'scenario': name, 'choices': choices, 'line_level': lines.get(i, False), 'failed_at': l,
                                'event': ev, 'trace': traces[i]})
    count = {}
    for i, d in devs_by_trace.items():
        if verdicts.get(i) is not None:
            continue
        name, choices = origin[i]
        for dev in sorted(d):
            count[dev] = count.get(dev, 0) + 1
            chk.violation({'module': 'ClientObs', 'deviation': dev},
                          {'scenario': name, 'choices': choices, 'line_level': lines.get(i, False), 'trace': traces[i]})
    chk.notes['deviations_needed'] = count
    if traces:
        chk.sample({'scenario': origin[0][0], 'choices': origin[0][1][:30], 'trace': traces[0][:12]})
    chk.notes['scenarios'] = {n: sum(1 for o in origin if o[0] == n) for n in sorted({o[0] for o in origin})}


def replay(chk, rep):
    from .. import detsched as ds
    from ..clientworld import run_scenario
    d = rep['detail']
    r = run_scenario(scenario(d['scenario']), ds.GuidedStrategy(d['choices']), bool(d.get('line_level')))
    for e in alpha(r, scenario(d['scenario'])):
        print(e)
    print('thread exceptions:', r['thread_exc'], 'left:', r['left'])
    return 0
