"""C18, concurrent part: driver threads updating linked parameters of one module at the same time.

spec/LinkedConc.tla     design level: store + consistency callbacks are one step under the module's update lock;
                        the variant with the callbacks outside the lock must violate the consistency (TLC)
spec/LinkedSerial.tla   observable level: every execution is a serial order of complete driver updates
Binding: a real Module with a StructParam without combined methods (s), one with combined methods (c) and a
FloatEnumParam (r); 2-3 driver threads assigning members / structs / the index under the deterministic scheduler
(every source line of modulebase.py, extparams.py, params.py is a possible preemption point); every announced update
is recorded together with the caches at that moment; TLC validates each execution (Trace_LinkedSerial)."""
import json

from .. import detsched as ds
from ..core import MachineryError, model_check, pool_map, run_tlc, sany, validate_traces
from ..env import LoggerStub, boot

TICK = 0.25
TABLE = {0: 1, 1: 3, 2: 7}          # Tab() of LinkedSerial.tla
MEMBERS = 'pqr'


def am(m, v):
    return {'k': 'am', 'x': 's', 'm': m, 'v': v}


def as_(v):
    return {'k': 'as', 'x': 'c', 'sv': {k: v + n for n, k in enumerate(MEMBERS)}}


def ai(i):
    return {'k': 'ai', 'i': i}


SCEN = {
    'two_members': {'t1': [am('p', 5)], 't2': [am('q', 7)]},
    'same_member': {'t1': [am('p', 5)], 't2': [am('p', 6)]},
    'member_twice': {'t1': [am('p', 5), am('q', 6)], 't2': [am('q', 7)]},
    'three_members': {'t1': [am('p', 1)], 't2': [am('q', 2)], 't3': [am('r', 3)]},
    'two_structs': {'t1': [as_(1)], 't2': [as_(4)]},
    'two_indices': {'t1': [ai(1)], 't2': [ai(2)]},
    'index_and_member': {'t1': [ai(2), am('p', 4)], 't2': [am('q', 8), ai(1)]},
}


def run_scenario(name, strategy):
    boot()
    import frappy.extparams as ep
    import frappy.modulebase as mb
    import frappy.params as pa
    from frappy.datatypes import IntRange
    from frappy.modules import Module
    from frappy.params import Parameter
    s = ds.Scheduler(strategy, max_steps=60000,
                     trace_files=('frappy/modulebase.py', 'frappy/extparams.py', 'frappy/params.py'))
    with ds.Patch(mb, ep, pa):
        class Disp:
            """stands for the dispatcher: called by announceUpdate for every update that is sent"""

            def announce_update(self, modobj, pobj):
                me = s.me()
                if me is None:      # construction / start-up in the controlling thread
                    return
                par = modobj.parameters
                name = pobj.name
                if name in ('s', 'c'):
                    e = dict(kind='str', x=name, m='', v={k: int(v) for k, v in dict(pobj.value).items()},
                             snapmem={k: int(par[f'{name}_{k}'].value) for k in MEMBERS})
                elif name == 'r':
                    e = dict(kind='flt', x='', m='', v=int(pobj.value / TICK), snapidx=int(par['r_idx'].value))
                elif name == 'r_idx':
                    e = dict(kind='idx', x='', m='', v=int(pobj.value))
                else:
                    e = dict(kind='mem', x=name[0], m=name[2:], v=int(pobj.value))
                s.log(ev='emit', **e)

        class Srv:
            secnode = None
            dispatcher = Disp()

        def members():
            return {k: Parameter('member ' + k, IntRange(0, 9), default=0) for k in MEMBERS}

        class Mod(Module):
            s = ep.StructParam('struct without combined methods', members(), 's_', readonly=False)
            c = ep.StructParam('struct with combined methods', members(), 'c_', readonly=False)
            r = ep.FloatEnumParam('float', [(i, 'L%d' % i, t * TICK) for i, t in TABLE.items()], '', readonly=False)

            def read_c(self):
                return dict(self.c)

            def write_c(self, value):
                return value

            def earlyInit(self):
                pass

        m = Mod('m', LoggerStub('m'), {'description': ''}, Srv())
        m.s = {k: 0 for k in MEMBERS}       # start values without error flags
        m.c = {k: 0 for k in MEMBERS}
        for k in MEMBERS:
            setattr(m, 's_' + k, 0)
        m.r_idx = 0

        def driver(script):
            for j in script:
                if j['k'] == 'am':
                    setattr(m, f"{j['x']}_{j['m']}", j['v'])
                elif j['k'] == 'as':
                    setattr(m, j['x'], dict(j['sv']))
                else:
                    m.r_idx = j['i']

        for th, script in sorted(SCEN[name].items()):
            s.spawn(th, driver, script)
        s.run()
        par = m.parameters
        final = {'str': {x: {k: int(v) for k, v in dict(par[x].value).items()} for x in ('s', 'c')},
                 'mem': {x: {k: int(par[f'{x}_{k}'].value) for k in MEMBERS} for x in ('s', 'c')},
                 'idx': int(par['r_idx'].value), 'fval': int(par['r'].value / TICK)}
    hw0 = {x: {k: 0 for k in MEMBERS} for x in ('s', 'c')}
    final['hw'] = hw0
    tr = [{'ev': 'cfg', 'scripts': SCEN[name], 'hw': hw0}]
    for e in s.events:
        if e['ev'] == 'emit':
            tr.append({k: v for k, v in e.items() if k not in ('seq', 'vt')})
    tr.append(dict(final, ev='end'))
    if s.deadlock or s.livelock or any(t.exc is not None for t in s.threads.values()):
        tr.append({'ev': 'broken', 'why': 'deadlock' if s.deadlock else 'livelock' if s.livelock else
                   repr([t.exc for t in s.threads.values() if t.exc is not None])[:200]})
    return {'choices': [c for _, c in s.choices], 'raw_choices': list(s.choices), 'trace': tr}


# ------------------------------------------------------------------ struct read against member writes

def rs():
    return ('drv', {'k': 'rs', 'x': 's'})


def wm(via, m, v):
    return (via, {'k': 'wm', 'x': 's', 'm': m, 'v': v})


# thread -> [(via, job)]: read_<struct>() as the poller calls it, write_<member> directly or as a change request
RSCEN = {
    'read_vs_write': {'t1': [rs()], 't2': [wm('drv', 'q', 5)]},
    'read_vs_client_write': {'t1': [rs()], 't2': [wm('cli', 'q', 5)]},
    'reads_vs_writes': {'t1': [rs(), rs()], 't2': [wm('drv', 'p', 4), wm('cli', 'r', 6)]},
    'two_writers_one_reader': {'t1': [wm('drv', 'p', 4)], 't2': [wm('cli', 'q', 5)], 't3': [rs()]},
}
HW0 = {'p': 1, 'q': 2, 'r': 3}         # the hardware differs from the start values of the cache


def run_readwrite(name, strategy):
    boot()
    import frappy.extparams as ep
    import frappy.modulebase as mb
    import frappy.protocol.dispatcher as dp
    from frappy.datatypes import IntRange
    from frappy.modules import Module
    from frappy.params import Parameter
    scripts = RSCEN[name]
    s = ds.Scheduler(strategy, max_steps=60000, trace_files=('frappy/modulebase.py', 'frappy/extparams.py'))
    with ds.Patch(mb, ep, dp):
        class SecNode:
            def __init__(self):
                self.modules = {}
                self.export = []
                self.name = 'n'

            def get_module(self, n):
                return self.modules.get(n)

        class Srv:
            restart = shutdown = None

        class Disp(dp.Dispatcher):
            def announce_update(self, moduleobj, pobj):
                if s.me() is not None and pobj.readerror is None:
                    par = moduleobj.parameters
                    if pobj.name == 's':
                        s.log(ev='emit', kind='str', x='s', m='', v={k: int(v) for k, v in dict(pobj.value).items()},
                              snapmem={k: int(par['s_' + k].value) for k in MEMBERS})
                    else:
                        s.log(ev='emit', kind='mem', x='s', m=pobj.name[2:], v=int(pobj.value))
                super().announce_update(moduleobj, pobj)

        srv = Srv()
        srv.secnode = SecNode()
        disp = srv.dispatcher = Disp('d', LoggerStub(), {}, srv)
        ns = {'s': ep.StructParam('struct without combined methods',
                                  {k: Parameter('member ' + k, IntRange(0, 9), default=0) for k in MEMBERS}, 's_',
                                  readonly=False),
              'earlyInit': lambda self: None}
        for k in MEMBERS:
            ns['read_s_' + k] = lambda self, k=k: self.hw[k]

            def wfunc(self, value, k=k):
                self.hw = dict(self.hw, **{k: int(value)})
                return self.hw[k]
            ns['write_s_' + k] = wfunc
        m = type('RW', (Module,), ns)('m', LoggerStub('m'), {'description': ''}, srv)
        m.hw = dict(HW0)
        m.s = {k: 0 for k in MEMBERS}       # start values without error flags
        for k in MEMBERS:
            setattr(m, 's_' + k, 0)
        srv.secnode.modules['m'] = m
        srv.secnode.export.append('m')

        class Conn:
            def send_reply(self, msg):
                pass

        def worker(script):
            conn = Conn()
            for via, j in script:
                if j['k'] == 'rs':
                    m.read_s()
                elif via == 'cli':
                    disp.handle_request(conn, ('change', 'm:' + m.parameters['s_' + j['m']].export, j['v']))
                else:
                    getattr(m, 'write_s_' + j['m'])(j['v'])

        for th, script in sorted(scripts.items()):
            s.spawn(th, worker, script)
        s.run()
        par = m.parameters
        zero = {k: 0 for k in MEMBERS}
        final = {'str': {'s': {k: int(v) for k, v in dict(par['s'].value).items()}, 'c': zero},
                 'mem': {'s': {k: int(par['s_' + k].value) for k in MEMBERS}, 'c': zero},
                 'hw': {'s': dict(m.hw), 'c': zero}, 'idx': 0, 'fval': TABLE[0]}
    tr = [{'ev': 'cfg', 'scripts': {th: [j for _, j in sc] for th, sc in scripts.items()},
           'hw': {'s': dict(HW0), 'c': zero}}]
    for e in s.events:
        if e['ev'] == 'emit':
            tr.append({k: v for k, v in e.items() if k not in ('seq', 'vt')})
    tr.append(dict(final, ev='end'))
    if s.deadlock or s.livelock or any(t.exc is not None for t in s.threads.values()):
        tr.append({'ev': 'broken', 'why': 'deadlock' if s.deadlock else 'livelock' if s.livelock else
                   repr([t.exc for t in s.threads.values() if t.exc is not None])[:200]})
    return {'choices': [c for _, c in s.choices], 'raw_choices': list(s.choices), 'trace': tr}


# ------------------------------------------------------------------ value write against limit writes

def _p(via, v):
    return (via, {'k': 'p', 'v': v})


def _lim(via, k, *v):
    return (via, {'k': k, 'v': v[0]} if k != 'limits' else {'k': k, 'a': v[0], 'b': v[1]})


# kind of limit parameters, then the script of every thread: (via, job); via: 'drv' write_<p>(...) called
# directly, 'cli' a change request through the real dispatcher (one request at a time there)
LSCEN = {
    'max_vs_value_direct': ('minmax', {'t1': [_lim('drv', 'max', 3)], 't2': [_p('drv', 5)]}),
    'max_vs_value_client': ('minmax', {'t1': [_lim('drv', 'max', 3)], 't2': [_p('cli', 5)]}),
    'client_max_vs_driver_value': ('minmax', {'t1': [_lim('cli', 'max', 3)], 't2': [_p('drv', 5)]}),
    'min_vs_value': ('minmax', {'t1': [_lim('drv', 'min', 7)], 't2': [_p('cli', 5)]}),
    'tuple_vs_value': ('limits', {'t1': [_lim('drv', 'limits', 0, 3)], 't2': [_p('drv', 5)]}),
    'narrow_widen': ('minmax', {'t1': [_lim('drv', 'max', 3), _lim('drv', 'max', 9)], 't2': [_p('drv', 5), _p('cli', 2)]}),
    'two_clients': ('minmax', {'t1': [_lim('cli', 'max', 3)], 't2': [_p('cli', 5)]}),
}


def run_limits(name, strategy):
    boot()
    import frappy.modulebase as mb
    import frappy.protocol.dispatcher as dp
    from frappy.datatypes import IntRange
    from frappy.modules import Module
    from frappy.params import Limit, Parameter
    kind, scripts = LSCEN[name]
    s = ds.Scheduler(strategy, max_steps=60000, trace_files=('frappy/modulebase.py',))
    with ds.Patch(mb, dp):
        class SecNode:
            def __init__(self):
                self.modules = {}
                self.export = []
                self.name = 'n'

            def get_module(self, n):
                return self.modules.get(n)

        class Srv:
            restart = shutdown = None

        class Disp(dp.Dispatcher):
            def announce_update(self, moduleobj, pobj):
                if s.me() is not None:
                    v = pobj.value
                    s.log(ev='emit', p='p' if pobj.name == 'a' else pobj.name[2:],
                          v=[int(x) for x in v] if isinstance(v, tuple) else int(v))
                super().announce_update(moduleobj, pobj)

        srv = Srv()
        srv.secnode = SecNode()
        disp = srv.dispatcher = Disp('d', LoggerStub(), {}, srv)
        ns = {'a': Parameter('limited', IntRange(0, 10), default=0, readonly=False),
              'write_a': lambda self, value: value, 'earlyInit': lambda self: None}
        for k in (('a_min', 'a_max') if kind == 'minmax' else ('a_limits',)):
            ns[k] = Limit()
        m = type('Lim', (Module,), ns)('m', LoggerStub('m'), {'description': ''}, srv)
        srv.secnode.modules['m'] = m
        srv.secnode.export.append('m')

        class Conn:
            def send_reply(self, msg):
                pass

        def worker(script):
            conn = Conn()
            for via, j in script:
                pname = 'a' if j['k'] == 'p' else 'a_' + j['k']
                value = (j['a'], j['b']) if j['k'] == 'limits' else j['v']
                s.log(ev='call', job=j)
                try:
                    if via == 'cli':
                        disp.handle_request(conn, ('change', f'm:{m.parameters[pname].export}',
                                                   list(value) if isinstance(value, tuple) else value))
                    else:
                        getattr(m, 'write_' + pname)(value)
                    ok = True
                except ds.SchedAbort:
                    raise
                except Exception:
                    ok = False
                s.log(ev='ret', ok=ok)

        for th, script in sorted(scripts.items()):
            s.spawn(th, worker, script)
        s.run()
        lims = m.a_limits if kind == 'limits' else (m.a_min, m.a_max)
        final = {'lo': int(lims[0]), 'hi': int(lims[1]), 'val': int(m.a)}
    tr = [{'ev': 'cfg', 'threads': sorted(scripts), 'lo': 0, 'hi': 10, 'kind': kind}]
    for e in s.events:
        if e['ev'] in ('call', 'emit', 'ret'):
            tr.append({k: v for k, v in e.items() if k not in ('seq', 'vt')})
    tr.append(dict(final, ev='end'))
    if s.deadlock or s.livelock or any(t.exc is not None for t in s.threads.values()):
        tr.append({'ev': 'broken', 'why': 'deadlock' if s.deadlock else 'livelock' if s.livelock else
                   repr([t.exc for t in s.threads.values() if t.exc is not None])[:200]})
    return {'choices': [c for _, c in s.choices], 'raw_choices': list(s.choices), 'trace': tr}


def _runner(name):
    return run_limits if name in LSCEN else run_readwrite if name in RSCEN else run_scenario


def _explore(args):
    name, mode, seed, nruns = args
    run_scenario = _runner(name)        # noqa: the scenario family decides which world is built
    out = []
    try:
        if mode == 'dfs':
            class Run:
                def __init__(self, r):
                    self.choices = r['raw_choices']
                    self.res = r

            for st in ds.explore(lambda strat: Run(run_scenario(name, strat)), max_preemptions=2, max_runs=nruns,
                                 max_depth=600):
                out.append((st.res['choices'], st.res['trace']))
        else:
            for k in range(nruns):
                r = run_scenario(name, ds.RandomStrategy(seed * 7919 + k, stay=0.8 + 0.06 * (k % 3)))
                out.append((r['choices'], r['trace']))
    except Exception as e:      # an exception object of frappy cannot travel to the parent process
        return name, out, repr(e)[:300]
    return name, out, None


def design(chk, pool):
    """submit the design-level TLC runs to the thread pool; returns what finish() needs"""
    quick = chk.tier == 'quick'
    futs = [('locked', None, pool.submit(model_check, 'LinkedConc', 'MC_LinkedConc_locked.cfg', timeout=300, workers=2))]
    for mode, prop in (('members', 'AnnouncedConsistent'), ('structs', 'ConsistentAtRest'),
                       ('index', 'AnnouncedConsistent'))[:1 if quick else 3]:
        futs.append((mode, prop, pool.submit(run_tlc, 'LinkedConc', f'MC_LinkedConc_unlocked_{mode}.cfg', timeout=300,
                                             workers=2)))
    futs.append(('limits locked', None, pool.submit(model_check, 'LinkedLimitsConc', 'MC_LinkedLimitsConc_locked.cfg',
                                                    timeout=300, workers=1)))
    futs.append(('limits', 'AcceptedWithinCurrent', pool.submit(run_tlc, 'LinkedLimitsConc',
                                                                'MC_LinkedLimitsConc_unlocked.cfg', timeout=300, workers=1)))
    return futs


def executions(chk, pool):
    """run the scenarios under the scheduler (worker processes) and hand the traces to TLC (thread pool)"""
    quick = chk.tier == 'quick'
    if not quick:
        for m in ('LinkedConc', 'LinkedSerial', 'Trace_LinkedSerial', 'LinkedLimitsConc', 'LinkedLimitsSerial',
                  'Trace_LinkedLimitsSerial'):
            sany(m)
    jobs = []
    for name in SCEN:
        jobs.append((name, 'dfs', chk.seed, 50 if quick else 800))
        jobs.append((name, 'rnd', chk.seed + 5, 30 if quick else 400))
    for name in RSCEN:
        jobs.append((name, 'dfs', chk.seed, 40 if quick else 600))
        jobs.append((name, 'rnd', chk.seed + 7, 20 if quick else 300))
    for name in LSCEN:
        jobs.append((name, 'dfs', chk.seed, 40 if quick else 600))
        jobs.append((name, 'rnd', chk.seed + 9, 20 if quick else 300))
    traces, origin, seen = [], [], set()
    for name, out, err in pool_map(_explore, jobs, chunksize=1):
        if err:
            chk.violation({'module': 'LinkedSerial', 'scenario': name, 'event': 'exception in the harness run'},
                          {'concurrent': name, 'error': err})
        for choices, tr in out:
            k = (name, tuple(choices))
            if k not in seen:
                seen.add(k)
                traces.append(tr)
                origin.append((name, choices))
    fam = [[i for i, (n, _) in enumerate(origin) if (n in LSCEN) == lim] for lim in (False, True)]
    return traces, origin, fam, [
        pool.submit(validate_traces, 'Trace_LinkedSerial', [traces[i] for i in fam[0]], 'Trace_LinkedSerial.cfg',
                    timeout=900),
        pool.submit(validate_traces, 'Trace_LinkedLimitsSerial', [traces[i] for i in fam[1]],
                    'Trace_LinkedLimitsSerial.cfg', timeout=900)]


def finish(chk, dfuts, ex):
    for mode, prop, fut in dfuts:
        r = fut.result()
        chk.add_tlc(r)
        if prop and (not r.violated or r.violated[1] != prop):
            raise MachineryError(f'callbacks outside the update lock ({mode}) were expected to violate {prop}: '
                                 f'{r.violated or r.error}')
    traces, origin, fam, vfuts = ex
    verdicts = {}
    for sel, vfut in zip(fam, vfuts):
        vd, st, trn = vfut.result()
        chk.states += st
        chk.transitions += trn
        verdicts.update({sel[k]: v for k, v in vd.items()})
    for i, v in sorted(verdicts.items()):
        name, choices = origin[i]
        chk.impl_traces += 1
        chk.case(('concurrent', name, tuple(choices)), len(set(choices)) > 1)
        if v is not None:
            l = v[0]
            ev = traces[i][l - 1] if 0 < l <= len(traces[i]) else {}
            chk.violation({'module': 'LinkedLimitsSerial' if name in LSCEN else 'LinkedSerial', 'scenario': name,
                           'event': ev.get('ev'), 'kind': ev.get('kind', ev.get('p', ''))},
                          {'concurrent': name, 'choices': choices, 'failed_at': l, 'event': ev, 'trace': traces[i]})
    chk.notes['concurrent_update_schedules'] = len(traces)
    chk.sample({'concurrent_trace': traces[len(traces) // 2][:4]}, limit=16)


def replay(chk, rep):
    d = rep['detail']
    r = _runner(d['concurrent'])(d['concurrent'], ds.GuidedStrategy(d['choices']))
    for e in r['trace']:
        print(json.dumps(e))
    return 0
