"""C18 - Linked parameters stay mutually consistent.

Four specifications (spec/LinkedStruct.tla, LinkedFloatEnum.tla, LinkedLimits.tla, LinkedControl.tla), each with
  MC_*   : TLC checks the specification's own invariants / action properties,
  Gen_*  : TLC enumerates layouts x operation sequences with the expected abstract state per step;
           every sequence is executed on REAL frappy modules (StructParam, FloatEnumParam, Limit,
           HasControlledBy / HasOutputModule) behind a real Dispatcher with an activated fake connection;
           the observed state must equal one of the outcomes TLC printed for that step,
  Trace_*: seeded random histories (more members / values / tables, longer) are recorded and validated by TLC.
Python only concretises (gamma), projects (alpha) and schedules; verdicts come from TLC's output.
"""
import json
import random
import time
from concurrent.futures import ThreadPoolExecutor
from functools import lru_cache

from ..core import MachineryError, model_check, pool_map, run_tlc, sany, validate_traces
from ..env import Conn, LoggerStub, ServerStub, boot
from . import c18_sched

META = {
    'text': 'TLC model-checks four small specifications of linked parameters (struct <-> members, float <-> enum '
            'index, limit parameters, control hand-over) and enumerates every operation sequence over the configured '
            'alphabets to depth 5 (quick) / 7 (thorough) for each layout; every sequence is executed on real frappy '
            'modules behind a real Dispatcher and the module attributes, the hardware stub, the reply and the view '
            'reconstructed from the update stream are compared with the expected abstract state after every step; '
            'seeded random longer histories over larger value sets are validated by TLC against Trace_Linked*.',
    'note': 'Bounded: 2-3 members with a clipping or a refusing hardware; 6 value tables written in 4 label styles, '
            'index readable or write-only, 4 driver answers to an index write (echo / None / another valid index / '
            'error); 4 limit kinds with default or configured start limits, inherited or explicit limit datatype, '
            'custom or predefined (target) parameter name, optional user hook; one output with 1-3 controllers or two '
            'outputs with 1-2 controllers each (plus an earlier and a later node alive in the same process). Alphabets '
            'of 4-6 operations per layout at full depth, wider ones at depth 4-5 (thorough) and in the random traces; '
            'client/driver path, class structure, int/float datatype, label style and driver style are picked by the '
            'harness from the seed, not enumerated by TLC. Behaviours are not followed beyond a step that shows a '
            'known finding. Trusted: TLC, the alpha/gamma tables in harness/props/c18.py, the hardware stubs. Direct '
            'assignment to the derived float parameter, check hooks returning True, failing reads and the legacy Done '
            'return value are outside the alphabet.',
    'tech': 'TLA+ specs (LinkedStruct, LinkedFloatEnum, LinkedLimits, LinkedControl) + TLC model checking; '
            'spec->code replay of all TLC behaviours; code->spec TLC trace validation',
    'ref': 'DESIGN.md section 5 C18',
}

TICK = 0.25
# value tables of the random histories; Trace_LinkedFloatEnum looks the same names up in Tab() of the specification
TABLES = {'asc3': {0: 1, 1: 3, 2: 7}, 'desc3': {0: 7, 1: 3, 2: 1}, 'gap3': {1: 5, 2: 1, 9: 3},
          'two': {0: 2, 1: 6}, 'dup3': {0: 4, 1: 4, 2: 6}, 'mix4': {0: 4, 1: 1, 2: 7, 5: 2}}
SUBS = ('LinkedStruct', 'LinkedFloatEnum', 'LinkedLimits', 'LinkedControl')


NONE, GARBAGE = -1, -3     # integer sentinels (TLC cannot compare values of different types)


def _tick(x):
    """alpha for reals: multiples of TICK -> integer ticks"""
    if isinstance(x, (int, float)) and not isinstance(x, bool) and float(x / TICK).is_integer():
        return int(x / TICK)
    return NONE if x == 'none' else GARBAGE


def _int(x):
    return x if isinstance(x, int) and not isinstance(x, bool) else NONE if x == 'none' else GARBAGE


# ------------------------------------------------------------------ common world

class World:
    """real dispatcher + real modules + one activated fake connection"""
    mainmod = 'm'

    def __init__(self):
        boot()
        self.srv = ServerStub()
        self.disp = self.srv.dispatcher
        self.view = {}
        self.conn = None

    def add(self, name, cls, **cfg):
        m = cls(name, LoggerStub(name), dict(description='', **cfg), self.srv)
        self.srv.secnode.add_module(m, name)
        return m

    @staticmethod
    def startup(m):
        """what the poll thread does before clients are served"""
        m.earlyInit()
        m.initModule()
        m.writeInitParams()
        for pname in m.parameters:
            rfunc = getattr(m, 'read_' + pname)
            if rfunc.poll:
                rfunc()

    def connect(self):
        self.conn = Conn('c', self.disp)
        self.disp.handle_request(self.conn, ('activate', None, None))
        self.drain()

    def drain(self):
        for msg in self.conn.msgs:
            if msg[0] == 'update':
                self.view[msg[1]] = msg[2][0]
            elif msg[0] == 'error_update':
                self.view[msg[1]] = None
        del self.conn.msgs[:]

    def spec_of(self, m, pname):
        return f'{m.name}:{m.parameters[pname].export}'

    def seen(self, m, pname):
        """last value delivered on the activated connection ('none': nothing or an error report)"""
        v = self.view.get(self.spec_of(m, pname))
        return 'none' if v is None else v

    def request(self, action, m, pname, data=None):
        """-> (True, value replied) | (False, error class)"""
        try:
            rep = self.disp.handle_request(self.conn, (action, self.spec_of(m, pname), data))
            return True, rep[2][0]
        except Exception as e:  # the interface turns any exception into an error reply
            return False, type(e).__name__

    @staticmethod
    def call(func, *args):
        try:
            return True, func(*args)
        except Exception as e:
            return False, type(e).__name__

    def access(self, via, kind, m, pname, value=None):
        """one read / write of a parameter by the client (dispatcher) or the driver (method call)"""
        if via == 'client':
            return self.request('change' if kind == 'w' else 'read', m, pname, value)
        if kind == 'w':     # a missing access method counts as a refusal, not as a harness error
            return self.call(lambda: getattr(m, 'write_' + pname)(value))
        return self.call(lambda: getattr(m, 'read_' + pname)())


# ------------------------------------------------------------------ (1) struct <-> members

def _failure(exc, what):
    """the exception a driver raises: two SECoP error classes or something that is no SECoPError at all"""
    from frappy.errors import HardwareError, RangeError
    if exc == 'badvalue':
        return RangeError(what)
    if exc == 'hardware':
        return HardwareError(what)
    return ValueError(what) if len(what) % 2 else OSError(what)


@lru_cache(None)
def _struct_class(layout, members):
    from frappy.core import IntRange, Module, Parameter
    from frappy.extparams import StructParam

    def touch(self, k):
        """hardware access to member k (None: to the device as a whole): fails while a fault is armed"""
        if self.fault is not None and k in (None, self.fault):
            raise _failure(self.exc, 'no answer for %s' % self.fault)

    def store(self, v):
        """the hardware: clips at hwmax or refuses"""
        if v > self.hwmax and self.hwmode == 'refuse':
            raise _failure(self.exc, 'the hardware refuses %r' % v)
        return min(int(v), self.hwmax)

    ns = {'s': StructParam('linked struct', {k: Parameter('member ' + k, IntRange(0, 9)) for k in members},
                           'm_', readonly=False)}
    if layout == 'combined':
        def read_s(self):
            touch(self, None)
            return dict(self.hw)

        def write_s(self, value):
            touch(self, None)
            self.hw = {k: store(self, v) for k, v in value.items()}   # nothing is stored when one is refused
            return dict(self.hw)
        ns.update(read_s=read_s, write_s=write_s)
    else:
        for k in members:
            def rfunc(self, k=k):
                touch(self, k)
                return self.hw[k]

            def wfunc(self, value, k=k):
                touch(self, k)
                self.hw = dict(self.hw, **{k: store(self, value)})
                return self.hw[k]
            ns['read_m_' + k] = rfunc
            ns['write_m_' + k] = wfunc
    return type('Struct_' + layout, (Module,), ns)


class StructWorld(World):
    def __init__(self, init, variant):
        super().__init__()
        self.members = tuple(sorted(init['exp']['hw']))
        self.layout = init['layout']
        self.m = m = self.add('m', _struct_class(self.layout, self.members))
        m.hw = {k: 0 for k in self.members}
        m.hwmax, m.hwmode, m.exc, m.fault = init['hwmax'], init['hwmode'], init['exc'], None
        self.startup(m)
        self.connect()

    def obs(self):
        m = self.m
        self.drain()
        return {'hw': dict(m.hw), 'mem': {k: getattr(m, 'm_' + k) for k in self.members}, 'str': dict(m.s),
                'merr': [k for k in self.members if m.parameters['m_' + k].readerror is not None],
                'serr': m.parameters['s'].readerror is not None,
                'vmem': {k: _int(self.seen(m, 'm_' + k)) for k in self.members}, 'vstr': self.struct(self.seen(m, 's'))}

    def struct(self, v):
        return {k: _int(v.get(k)) for k in self.members} if isinstance(v, dict) else {k: GARBAGE for k in self.members}

    def step(self, a, via):
        m, act = self.m, a['act']
        rep = None
        m.fault = None if a.get('f', 'none') == 'none' else a['f']
        try:
            if act in ('ws', 'rs'):
                rep = self.access(via, act[0], m, 's', a.get('v'))
            elif act in ('wm', 'rm'):
                rep = self.access(via, act[0], m, 'm_' + a['m'], a.get('v'))
            elif act == 'as':
                m.s = a['v']
            elif act == 'am':
                setattr(m, 'm_' + a['m'], a['v'])
        finally:
            m.fault = None
        o = self.obs()
        o['ok'] = rep is None or rep[0]
        if rep is not None:
            v = rep[1] if rep[0] else 'none'
            o['rep'] = self.struct(v) if act in ('ws', 'rs') else _int(v)
        return o

    @staticmethod
    def expect(a, e):
        x = {'hw': e['hw'], 'mem': e['mem'], 'str': e['str'], 'merr': sorted(e['merr']), 'serr': e['serr'],
             'vmem': {k: NONE if k in e['merr'] else v for k, v in e['mem'].items()},
             'vstr': {k: GARBAGE if e['serr'] else v for k, v in e['str'].items()}, 'ok': e['ok']}
        if a['act'] in ('ws', 'rs'):
            x['rep'] = e['str'] if e['ok'] else {k: GARBAGE for k in e['str']}
        elif a['act'] in ('wm', 'rm'):
            x['rep'] = e['mem'][a['m']] if e['ok'] else NONE
        return x

    @staticmethod
    def symptom(a, o, prev):
        shown = [k for k in o['mem'] if not o['serr'] and k not in o['merr']]
        if any(o['mem'][k] != o['str'][k] for k in shown):
            return 'struct != members'
        # a driver assignment is nothing but propagation: the other side has to show the assigned value(s);
        # a member / struct that kept its old value or its error flag did not follow
        if a.get('act') == 'as' and (o['merr'] or any(o['mem'][k] != a['v'][k] for k in o['mem'])):
            return 'struct != members'
        if a.get('act') == 'am' and (o['serr'] or o['str'][a['m']] != a['v']):
            return 'struct != members'
        if (any(o['vmem'][k] != (NONE if k in o['merr'] else o['mem'][k]) for k in o['mem'])
                or any(o['vstr'][k] != (GARBAGE if o['serr'] else o['str'][k]) for k in o['str'])):
            return 'stream != cache'
        return 'other'

    @staticmethod
    def layout_of(init):
        return {'layout': init['layout'], 'hwmode': init['hwmode'], 'exc': init['exc']}


# ------------------------------------------------------------------ (2) float <-> enum index

def _fe_labels(table, style):
    """gamma for the label set: the same index -> value table written in the forms FloatEnumParam accepts"""
    items = list(table)
    if style == 0:      # (index, label, value)
        return [(i, 'L%d' % i, t * TICK) for i, t in items], ''
    if style == 1:      # the same in reverse order of definition
        return [(i, 'L%d' % i, t * TICK) for i, t in reversed(items)], ''
    labels, nextidx, used = [], 0, set()
    for i, t in items:  # value taken from the label ('750mV'), index given only where it is not the next one
        label = '%dmV' % (t * 250)
        if label in used:   # equal values need different labels
            elem = ['L%d' % i, t * TICK]
        else:
            elem = [label]
        used.add(label)
        if i != nextidx or style == 3:
            elem.insert(0, i)
        labels.append(elem[0] if len(elem) == 1 else tuple(elem))
        nextidx = i + 1
    return labels, 'V'


@lru_cache(None)
def _fe_class(shape, mode, cap, table, style, iname):
    from frappy.core import Module
    from frappy.extparams import FloatEnumParam
    labels, unit = _fe_labels(table, style)
    kwds = {} if iname == 'r_idx' else {'idx_name': iname}
    ns = {'r': FloatEnumParam('linked float', labels, unit, readonly=False, **kwds)}

    def write_idx(self, value):
        """the driver: answers with the index the hardware is really on"""
        i = int(value)
        self.req = i
        if i > cap and mode in ('raise', 'crash'):
            raise _failure('hardware' if mode == 'raise' else 'other', 'range %d not available' % i)
        if i > cap and mode == 'clamp':
            i = cap
        self.hw = i
        return None if mode == 'none' else i
    ns['write_' + iname] = write_idx
    if shape == 'rw':
        def read_idx(self):
            return self.hw
        ns['read_' + iname] = read_idx
    return type('FloatEnum_%s_%s' % (shape, mode), (Module,), ns)


class FloatEnumWorld(World):
    def __init__(self, init, variant, fresh=False):
        super().__init__()
        self.table = {int(k): v for k, v in init['table'].items()}
        self.shape = init['shape']
        first = min(self.table)
        self.iname = iname = ('r_idx', 'ri')[variant // 4 % 2]
        cls = _fe_class(self.shape, init['mode'], init['cap'], tuple(sorted(self.table.items())), variant % 4, iname)
        cfg = {iname: {'value': first}} if self.shape == 'w' and not fresh else {}
        self.m = self.add('m', cls, **cfg)
        self.m.hw = first
        if not fresh:
            self.startup(self.m)
        self.m.req = -1
        self.connect()

    def obs(self, probe=False):
        m = self.m
        self.drain()
        seen_i, seen_v = self.seen(m, self.iname), self.seen(m, 'r')
        o = {'idx': int(getattr(m, self.iname)), 'hw': m.hw, 'req': m.req, 'val': _tick(m.r),
             'vidx': -1 if seen_i == 'none' else seen_i, 'vval': -1 if seen_v == 'none' else _tick(seen_v)}
        if probe:
            ok, v = self.request('read', m, 'r')
            o['pval'] = _tick(v) if ok else GARBAGE
            self.drain()
        return o

    def step(self, a, via, probe=False):
        m, act = self.m, a['act']
        rep = None
        if act == 'wf':
            rep = self.access(via, 'w', m, 'r', a['x'] * TICK)
        elif act == 'rf':
            rep = self.access(via, 'r', m, 'r')
        elif act == 'wi':
            rep = self.access(via, 'w', m, self.iname, a['i'])
        elif act == 'ri':
            rep = self.access(via, 'r', m, self.iname)
        elif act == 'ai':
            setattr(m, self.iname, a['i'])
        o = self.obs(probe)
        o['last'] = 'ok' if rep is None or rep[0] else 'refused'
        if rep is not None:
            o['rep'] = NONE if not rep[0] else _tick(rep[1]) if act in ('wf', 'rf') else _int(int(rep[1]))
        return o

    @staticmethod
    def expect(a, e, probe=False):
        x = {'idx': e['idx'], 'hw': e['hw'], 'req': e['req'], 'val': e['val'], 'vidx': e['idx'], 'vval': e['val'],
             'last': e['last']}
        if a['act'] in ('wf', 'rf'):
            x['rep'] = e['val'] if e['last'] == 'ok' else -1
        elif a['act'] in ('wi', 'ri'):
            x['rep'] = e['idx'] if e['last'] == 'ok' else -1
        if probe:
            x['pval'] = e['val']
        return x

    def symptom(self, a, o, prev):
        t = self.table.get(o['idx'])
        if o['val'] != t:
            return 'attribute != T[idx]'
        if o.get('pval', t) not in (t, -2):
            return 'read reply != T[idx]'
        if o['vval'] not in (t, -1) or o['vidx'] not in (o['idx'], -1):
            return 'stream != T[idx]'
        if a.get('act') == 'wf' and o.get('rep') not in (t, -1):
            return 'write reply != T[idx]'
        return 'other'

    @staticmethod
    def layout_of(init):
        return {'shape': init['shape'], 'mode': init['mode']}


# ------------------------------------------------------------------ (3) limit parameters

@lru_cache(None)
def _lim_class(kind, structure, forbidden, dlo, dhi, integer, pn, explicit, hexc):
    """pn: name of the limited parameter: a custom one ('p') or the predefined 'target' of a Writable
    explicit: the limit parameters are declared with their own datatype instead of inheriting it"""
    from frappy.core import FloatRange, IntRange, Module, Parameter, Writable
    from frappy.datatypes import LimitsType
    from frappy.params import Limit
    scale = 1 if integer else TICK
    dt = IntRange(dlo, dhi) if integer else FloatRange(dlo * scale, dhi * scale)
    limits = {'minmax': ('_min', '_max'), 'min': ('_min',), 'max': ('_max',), 'limits': ('_limits',)}[kind]
    base = {pn: Parameter('limited parameter', dt, readonly=False, default=dlo * scale)}
    root = Module
    if pn == 'target':
        root = Writable
        base['value'] = Parameter('value', FloatRange(), default=0)

    def write(self, value):
        self.hw = value
        return value
    base['write_' + pn] = write
    if forbidden:
        def check(self, value):  # returns None: the automatic limit check still applies
            if value in [f * scale for f in forbidden]:
                raise _failure(hexc, 'value refused by the driver')
        base['check_' + pn] = check
    if explicit:
        lims = {pn + k: Limit(datatype=LimitsType(dt.copy()) if k == '_limits' else dt.copy()) for k in limits}
    else:
        lims = {pn + k: Limit() for k in limits}
    if structure == 'same':
        return type('Lim_same', (root,), dict(base, **lims))
    basecls = type('LimBase', (root,), base)
    if structure == 'derived':
        return type('Lim_derived', (basecls,), lims)
    mixin = type('LimMixin', (), lims)
    return type('Lim_mixin', (mixin, basecls), {})


class LimitsWorld(World):
    STRUCTURES = ('same', 'mixin', 'derived')

    def __init__(self, init, variant):
        super().__init__()
        self.kind = init['kind']
        self.dlo, self.dhi = init['dlo'], init['dhi']
        forbidden = tuple(init['forbidden'])
        structure = self.STRUCTURES[variant % 3] if not forbidden else self.STRUCTURES[1 + variant % 2]
        self.integer = bool(variant // 3 % 2)
        self.scale = 1 if self.integer else TICK
        self.pn = pn = ('p', 'target')[variant // 6 % 2]
        # configured start values of the limit parameters (as in a cfg file), only where they are not the default
        lo0, hi0 = init.get('cfg') or (init['exp']['lo'], init['exp']['hi'])
        explicit = bool(variant // 12 % 2)     # then there is no inherited default: always configured
        cfg = {}
        if self.kind == 'limits':
            if (lo0, hi0) != (self.dlo, self.dhi) or explicit:
                cfg[pn + '_limits'] = {'value': (lo0 * self.scale, hi0 * self.scale)}
        else:
            if self.kind in ('minmax', 'min') and (lo0 != self.dlo or explicit):
                cfg[pn + '_min'] = {'value': lo0 * self.scale}
            if self.kind in ('minmax', 'max') and (hi0 != self.dhi or explicit):
                cfg[pn + '_max'] = {'value': hi0 * self.scale}
        self.m = self.add('m', _lim_class(self.kind, structure, forbidden, self.dlo, self.dhi, self.integer, pn, explicit,
                                              init.get('hexc', 'badvalue')),
                          **cfg)
        self.m.hw = self.dlo * self.scale
        self.startup(self.m)
        self.connect()

    def tick(self, x):
        return _tick(x) if not self.integer else _int(x)

    def limits(self, get):
        if self.kind == 'limits':
            pair = get(self.pn + '_limits')
            return (self.tick(pair[0]), self.tick(pair[1])) if isinstance(pair, (list, tuple)) else (NONE, NONE)
        lo = self.tick(get(self.pn + '_min')) if self.kind in ('minmax', 'min') else self.dlo
        hi = self.tick(get(self.pn + '_max')) if self.kind in ('minmax', 'max') else self.dhi
        return lo, hi

    def obs(self):
        m = self.m
        self.drain()
        lo, hi = self.limits(lambda p: getattr(m, p))
        vlo, vhi = self.limits(lambda p: self.seen(m, p))
        return {'lo': lo, 'hi': hi, 'val': self.tick(getattr(m, self.pn)), 'drv': self.tick(m.hw),
                'vlo': vlo, 'vhi': vhi, 'vval': self.tick(self.seen(m, self.pn))}

    def step(self, a, via):
        m, act = self.m, a['act']
        if act == 'p':
            pname, value = self.pn, a['v'] * self.scale
        elif act == 'limits':
            pname, value = self.pn + '_limits', (a['a'] * self.scale, a['b'] * self.scale)
            if via == 'client':
                value = list(value)
        else:
            pname, value = self.pn + '_' + act, a['v'] * self.scale
        if via == 'assign' and act != 'p':
            setattr(m, pname, value)
            ok = m.parameters[pname].readerror is None
        else:
            ok, _ = self.access('client' if via == 'client' else 'driver', 'w', m, pname, value)
        o = self.obs()
        o['last'] = 'ok' if ok else 'refused'
        return o

    @staticmethod
    def expect(a, e):
        return {'lo': e['lo'], 'hi': e['hi'], 'val': e['val'], 'drv': e['val'], 'last': e['last'],
                'vlo': e['lo'], 'vhi': e['hi'], 'vval': e['val']}

    @staticmethod
    def symptom(a, o, prev):
        act = a.get('act')
        assigned = 'assign' in (a.get('how'), a.get('via'))
        if (act == 'limits' and a['a'] > a['b'] and not assigned
                and (o['last'] == 'ok' or (o['lo'], o['hi']) == (a['a'], a['b']))):
            return 'inverted tuple accepted'
        if act == 'p' and o['last'] == 'ok' and prev and not prev['lo'] <= a['v'] <= prev['hi']:
            return 'accepted outside limits'
        if act == 'p' and o['last'] == 'refused' and prev and prev['lo'] <= a['v'] <= prev['hi']:
            return 'refused inside limits'
        if (o['vlo'], o['vhi'], o['vval']) != (o['lo'], o['hi'], o['val']):
            return 'stream != cache'
        return 'other'

    @staticmethod
    def layout_of(init):
        return {'kind': init['kind']}


# ------------------------------------------------------------------ (4) control hand-over

@lru_cache(None)
def _ctl_classes(style):
    from frappy.core import FloatRange, Parameter, Writable
    from frappy.mixins import HasControlledBy, HasOutputModule

    def crash(self):
        """the hardware write of the target fails after control was switched: the driver may raise anything"""
        exc, self.failnext = getattr(self, 'failnext', None), None
        if exc:
            raise _failure(exc, 'cannot set the target')

    class Out(HasControlledBy, Writable):
        value = Parameter(datatype=FloatRange())
        target = Parameter(datatype=FloatRange())

        def write_target(self, value):
            self.self_controlled()
            crash(self)
            return value

    class Ctl(HasOutputModule, Writable):
        value = Parameter(datatype=FloatRange())
        target = Parameter(datatype=FloatRange())
        hookfail = None     # (direction, flavour): the hardware action of set_control_active fails once armed

        def set_control_active(self, active):
            """the documented hook for switching hardware control; the hardware may refuse"""
            if self.hookfail and self.hookfail[0] == ('on' if active else 'off'):
                raise _failure(self.hookfail[1], 'cannot switch control ' + self.hookfail[0])
            super().set_control_active(active)

        if style == 'always':
            def write_target(self, value):
                self.activate_control()
                crash(self)
                return value
        else:
            def write_target(self, value):  # as frappy_psi.picontrol / mercury do it
                if not self.control_active:
                    self.activate_control()
                crash(self)
                return value
    return Out, Ctl


class _Node:
    """a bystander node in the same process: one output with one controller that is in control"""

    def __init__(self, out, ctl, oname, cname):
        boot()
        self.srv = ServerStub()
        self.o = out(oname, LoggerStub(oname), {'description': ''}, self.srv)
        self.srv.secnode.add_module(self.o, oname)
        self.c = ctl(cname, LoggerStub(cname), {'description': '', 'output_module': oname}, self.srv)
        self.srv.secnode.add_module(self.c, cname)
        for m in (self.o, self.c):
            World.startup(m)
        self.c.write_target(1.0)
        self.cname = cname

    def intact(self):
        return bool(self.c.control_active) and getattr(self.o.controlled_by, 'name', None) == self.cname


class ControlWorld(World):
    """the node under test (o1 with a1..a<n1>, o2 with b1..b<n2>) between an earlier node created once per
    process and a later node created after it (with the SAME module names, as a second node would have)"""
    ALL = ('a1', 'a2', 'a3', 'b1', 'b2')
    OUTS = ('o1', 'o2')
    OUT_OF = {'a1': 'o1', 'a2': 'o1', 'a3': 'o1', 'b1': 'o2', 'b2': 'o2'}
    earlier = {}

    def __init__(self, init, variant):
        super().__init__()
        style = ('always', 'ifnot')[variant % 2]
        out, ctl = _ctl_classes(style)
        if style not in self.earlier:
            self.earlier[style] = _Node(out, ctl, 'oe', 'e1')
        n1, n2 = divmod(init['lay'], 10)
        built = self.ALL[:n1] + self.ALL[3:3 + n2]
        self.outs = {o: self.add(o, out) for o in self.OUTS[:2 if n2 else 1]}
        self.ctls = {c: self.add(c, ctl, output_module=self.OUT_OF[c]) for c in built}
        self.count, self.salt, self.exc = 0, variant, init.get('exc', 'hardware')
        for m in list(self.outs.values()) + list(self.ctls.values()):
            self.startup(m)
        # two of three executions run between an earlier and a later node, the third one alone in its view
        self.others = [] if variant % 3 == 2 else [self.earlier[style], _Node(out, ctl, 'o1', 'a1')]
        self.connect()

    def obs(self):
        self.drain()
        active = {c: bool(self.ctls[c].control_active) if c in self.ctls else False for c in self.ALL}
        vactive = {c: self.seen(self.ctls[c], 'control_active') if c in self.ctls else False for c in self.ALL}
        # a view entry that is not a boolean is reported as the opposite of the cache (TLC needs a boolean)
        vactive = {c: v if isinstance(v, bool) else not active[c] for c, v in vactive.items()}
        cby, vcby = {}, {}
        for oname in self.OUTS:
            o = self.outs.get(oname)
            if o is None:
                cby[oname] = vcby[oname] = 'self'
                continue
            names = {v: k for k, v in o.parameters['controlled_by'].datatype.export_datatype()['members'].items()}
            cby[oname] = getattr(o.controlled_by, 'name', repr(o.controlled_by))
            vcby[oname] = names.get(self.seen(o, 'controlled_by'), 'unknown')
        return {'active': active, 'cby': cby, 'vactive': vactive, 'vcby': vcby,
                'foreign': all(nd.intact() for nd in self.others)}

    def step(self, a, via):
        act = a['act']
        self.count += 1
        value = float(self.count)
        exc = (None, None, 'badvalue', 'hardware', 'other', 'other')[(self.count * 7 + self.salt) % 6]
        f = a.get('f', 'none')
        if f != 'none':     # arm the hook fault: on the controllers of that output (off) / on the new one (on)
            exc = None
            out = a.get('o') or self.OUT_OF[a['c']]
            for c, m in self.ctls.items():
                if self.OUT_OF[c] == out and (f == 'off' or c == a.get('c')):
                    m.hookfail = (f, self.exc)
        try:
            return self._step(a, via, act, value, exc)
        finally:
            for m in self.ctls.values():
                m.hookfail = None

    def _step(self, a, via, act, value, exc):
        if act == 'take':
            self.ctls[a['c']].failnext = exc
            self.access(via, 'w', self.ctls[a['c']], 'target', value)
        elif act == 'self':
            self.outs[a['o']].failnext = exc
            self.access(via, 'w', self.outs[a['o']], 'target', value)
        elif act == 'upd':
            self.outs[self.OUT_OF[a['c']]].update_target(a['c'], value)
        return self.obs()

    @staticmethod
    def expect(a, e):
        return {'active': e['active'], 'cby': e['cby'], 'vactive': e['active'], 'vcby': e['cby'],
                'foreign': e['foreign']}

    @classmethod
    def symptom(cls, a, o, prev):
        mine = a.get('o') or cls.OUT_OF.get(a.get('c'))
        for oname in cls.OUTS:
            if prev and mine and oname != mine and (
                    o['cby'][oname] != prev['cby'][oname]
                    or any(o['active'][c] != prev['active'][c] for c in cls.ALL if cls.OUT_OF[c] == oname)):
                return 'operation on one output changed the other output'
        for oname in cls.OUTS:
            on = sorted(c for c, v in o['active'].items() if v and cls.OUT_OF[c] == oname)
            if len(on) > 1:
                return 'two controllers active'
            if on != ([] if o['cby'][oname] == 'self' else [o['cby'][oname]]):
                return 'controlled_by does not name the active controller'
        if not o['foreign']:
            return 'control state of another node changed'
        if (o['vactive'], o['vcby']) != (o['active'], o['cby']):
            return 'stream != cache'
        return 'other'

    @staticmethod
    def layout_of(init):
        return {'lay': init['lay']}


# one observed field and how to falsify it (binding self-test of the trace specifications)
CORRUPT = {'LinkedStruct': ('str', lambda v: {k: (x + 1) % 10 for k, x in v.items()}),
           'LinkedFloatEnum': ('val', lambda v: v + 1),
           'LinkedLimits': ('last', lambda v: 'ok' if v == 'refused' else 'refused'),
           'LinkedControl': ('cby', lambda v: dict(v, o1='a1' if v['o1'] != 'a1' else 'self'))}
WORLDS = {'LinkedStruct': StructWorld, 'LinkedFloatEnum': FloatEnumWorld, 'LinkedLimits': LimitsWorld,
          'LinkedControl': ControlWorld}
ASSIGN_ONLY = {'as', 'am', 'ai', 'upd'}          # operations that exist only on the driver side


def _vias(sub, actions, variant, rnd):
    """path of every step: pure client, pure driver or a seeded mix"""
    mode = variant % 4
    res = []
    for a in actions:
        if a['act'] in ASSIGN_ONLY:
            res.append('driver')
        elif a.get('how') == 'assign':
            res.append('assign')
        elif a.get('how') == 'write':
            res.append(('client', 'driver')[mode] if mode < 2 else rnd.choice(('client', 'driver')))
        elif sub == 'LinkedLimits' and a['act'] != 'p':
            res.append(('client', 'driver', 'assign')[mode] if mode < 3 else rnd.choice(('client', 'driver', 'assign')))
        else:
            res.append(('client', 'driver')[mode] if mode < 2 else rnd.choice(('client', 'driver')))
    return res


# ------------------------------------------------------------------ spec -> code

def _replay_group(item):
    """item: (sub, variant, seed, init step, [actions], [[exp per step] per TLC outcome sequence])
    execute the action sequence once on real modules; the observed state sequence must be one of
    the outcome sequences TLC printed.  returns None or a failure description"""
    sub, variant, seed, init, actions, outcomes = item
    cls = WORLDS[sub]
    rnd = random.Random(seed)
    vias = _vias(sub, actions, variant, rnd)
    w = cls(init, variant)
    fe = sub == 'LinkedFloatEnum'
    prev = w.obs(True) if fe else w.obs()
    x0 = cls.expect(init, init['exp'], True) if fe else cls.expect(init, init['exp'])
    x0.pop('last', None)
    x0.pop('ok', None)
    if {k: prev.get(k) for k in x0} != x0:
        return {'step': 0, 'action': {'act': 'init'}, 'expected': [x0], 'observed': prev, 'vias': vias,
                'variant': variant, 'symptom': w.symptom({'act': 'init'}, prev, None)}
    alive = list(range(len(outcomes)))
    for j, (a, via) in enumerate(zip(actions, vias)):
        probe = fe and (variant % 2 == 0 or j == len(actions) - 1)
        got = w.step(a, via, probe) if fe else w.step(a, via)
        wanted = [cls.expect(a, outcomes[k][j], probe) if fe else cls.expect(a, outcomes[k][j]) for k in alive]
        alive = [k for k, x in zip(alive, wanted) if x == got]
        if not alive:
            wanted = [x for n, x in enumerate(wanted) if x not in wanted[:n]]
            return {'step': j + 1, 'action': a, 'via': via, 'expected': wanted, 'observed': got, 'vias': vias,
                    'variant': variant, 'symptom': w.symptom(a, got, prev)}
        prev = got
    return None


_ITEMS = []      # filled before the worker processes are forked; workers receive indices only


def _replay_index(i):
    """never raises: an exception object of frappy cannot be unpickled in the parent (it never imports frappy),
    and a real module that cannot be built or driven for a legal layout is an observation, not a harness error"""
    item = _ITEMS[i]
    try:
        return _replay_group(item)
    except Exception as e:
        if isinstance(e, ImportError):      # no frappy to test: a machinery failure, not an observation
            raise RuntimeError(repr(e)) from None
        return {'step': 0, 'action': {'act': 'init'}, 'expected': [], 'observed': {'exception': repr(e)[:300]},
                'vias': [], 'variant': item[1], 'symptom': 'exception outside an access method: ' + type(e).__name__}


def _parse_behaviours(r, tag='BEH'):
    pat = '<<"%s", "' % tag
    res = []
    for line in r.out.splitlines():
        if line.startswith(pat) and line.endswith('">>'):
            res.append(json.loads(line[len(pat):-3].replace('\\"', '"')))
    return res


def _groups(sub, behs, seed):
    groups = {}
    for b in behs:
        init, steps = b[0], b[1:]
        actions = [{k: v for k, v in s.items() if k != 'exp'} for s in steps]
        key = json.dumps([init, actions], sort_keys=True)
        g = groups.get(key)
        if g is None:
            g = groups[key] = (init, actions, [])
        g[2].append([s['exp'] for s in steps])
    items = []
    for n, key in enumerate(sorted(groups)):
        init, actions, outcomes = groups[key]
        items.append((sub, n, seed * 1000003 + n, init, actions, outcomes))
    return items


def _diff(bad):
    obs = bad['observed']
    if not bad['expected']:
        return []
    return sorted({k for x in bad['expected'] for k in x if x[k] != obs.get(k)}
                  if len(bad['expected']) == 1 else
                  set.intersection(*[{k for k in x if x[k] != obs.get(k)} for x in bad['expected']]))


# ------------------------------------------------------------------ code -> spec

def _random_trace(arg):
    """-> trace (list of events) or, when the real modules cannot be built / driven, {'broken': description}"""
    try:
        return _random_trace1(arg)
    except Exception as e:
        if isinstance(e, ImportError):
            raise RuntimeError(repr(e)) from None
        return {'broken': 'exception outside an access method: ' + type(e).__name__, 'detail': repr(e)[:300]}


def _random_trace1(arg):
    sub, seed, n = arg
    rnd = random.Random(seed)
    variant = rnd.randrange(1 << 16)
    fresh = False
    if sub == 'LinkedStruct':
        init = {'act': 'init', 'layout': rnd.choice(('combined', 'separate')), 'hwmax': 7,
                'hwmode': rnd.choice(('clip', 'clip', 'refuse')), 'exc': rnd.choice(('badvalue', 'hardware', 'other')),
                'exp': {'hw': {k: 0 for k in 'pqr'}}}
        mem = 'pqr'

        def fault():
            return rnd.choice(mem) if rnd.random() < 0.25 else 'none'

        def pick():
            r = rnd.random()
            sv = {k: rnd.randint(1, 9) for k in mem}
            if r < 0.25:
                return {'act': 'wm', 'm': rnd.choice(mem), 'v': rnd.randint(1, 9), 'f': fault()}
            if r < 0.45:
                return {'act': 'ws', 'v': sv, 'f': fault()}
            if r < 0.65:
                return {'act': 'rm', 'm': rnd.choice(mem), 'f': fault()}
            if r < 0.8:
                return {'act': 'rs', 'f': fault()}
            if r < 0.9:
                return {'act': 'am', 'm': rnd.choice(mem), 'v': rnd.randint(1, 9)}
            return {'act': 'as', 'v': sv}
    elif sub == 'LinkedFloatEnum':
        tables = TABLES
        tab = rnd.choice(sorted(tables))
        shape = rnd.choice(('rw', 'w'))
        # a module whose index can only be written and has no configured value is served exactly as constructed
        fresh = shape == 'w' and rnd.random() < 0.5
        idxs = sorted(tables[tab])
        init = {'act': 'init', 'tab': tab, 'shape': shape, 'table': tables[tab], 'fresh': fresh,
                'mode': rnd.choice(('echo', 'none', 'clamp', 'clamp', 'raise', 'crash')), 'cap': idxs[min(1, len(idxs) - 1)]}

        def pick():
            r = rnd.random()
            if r < 0.4:
                return {'act': 'wf', 'x': rnd.randint(0, 8)}
            if r < 0.55:
                return {'act': 'wi', 'i': rnd.choice(idxs)}
            if r < 0.7:
                return {'act': 'ai', 'i': rnd.choice(idxs)}
            if r < 0.85:
                return {'act': 'ri'}
            return {'act': 'rf'}
    elif sub == 'LinkedLimits':
        kind = rnd.choice(('minmax', 'minmax', 'min', 'max', 'limits', 'limits'))
        lo0, hi0 = rnd.choice(((0, 8), (0, 8), (2, 6), (1, 8), (0, 5), (6, 2) if kind != 'limits' else (3, 3)))
        init = {'act': 'init', 'kind': kind, 'dlo': 0, 'dhi': 8,
                'forbidden': rnd.choice(([], [], [3], [2, 5])), 'hexc': rnd.choice(('badvalue', 'hardware', 'other')),
                'cfg': [lo0 if kind != 'max' else 0, hi0 if kind != 'min' else 8]}
        lim = {'minmax': ('min', 'max'), 'min': ('min',), 'max': ('max',), 'limits': ('limits',)}[kind]

        def pick():
            if rnd.random() < 0.55:
                return {'act': 'p', 'v': rnd.randint(0, 9)}
            act = rnd.choice(lim)
            if act == 'limits':
                return {'act': act, 'a': rnd.randint(0, 8), 'b': rnd.randint(0, 8)}
            return {'act': act, 'v': rnd.randint(0, 8)}
    else:
        lay = rnd.choice((10, 20, 30, 11, 21, 22, 21, 22))
        init = {'act': 'init', 'lay': lay, 'exc': rnd.choice(('hardware', 'other'))}
        names = ControlWorld.ALL[:lay // 10] + ControlWorld.ALL[3:3 + lay % 10]
        outs = ControlWorld.OUTS[:2 if lay % 10 else 1]

        def pick():
            r = rnd.random()
            if r < 0.45:
                return {'act': 'take', 'c': rnd.choice(names), 'f': rnd.choice(('none', 'none', 'none', 'off', 'on'))}
            if r < 0.65:
                return {'act': 'self', 'o': rnd.choice(outs), 'f': rnd.choice(('none', 'none', 'off'))}
            return {'act': 'upd', 'c': rnd.choice(names)}
    actions = [pick() for _ in range(n)]
    vias = _vias(sub, actions, 3, rnd)
    return _record(sub, init, actions, vias, variant, fresh, rnd)


def _fault_case(arg):
    """one operation sequence with faults enumerated by TLC (Gen_LinkedStruct / FGSpec) -> recorded execution"""
    n, seed, seq = arg
    try:
        rnd = random.Random(seed)
        init, actions = seq[0], seq[1:]
        return _record('LinkedStruct', init, actions, _vias('LinkedStruct', actions, n, rnd), n)
    except Exception as e:
        return {'broken': 'exception outside an access method: ' + type(e).__name__, 'detail': repr(e)[:300]}


def _clean(x):
    """TLC's JSON reader has no null"""
    if isinstance(x, dict):
        return {k: _clean(v) for k, v in x.items()}
    if isinstance(x, (list, tuple)):
        return [_clean(v) for v in x]
    return 'none' if x is None else x


def _record(sub, init, actions, vias, variant, fresh=False, rnd=None):
    cls = WORLDS[sub]
    fe = sub == 'LinkedFloatEnum'
    w = cls(init, variant, fresh) if fe else cls(init, variant)
    first = dict({k: v for k, v in init.items() if k not in ('exp', 'act', 'table')}, ev='init')
    first.update(w.obs(True) if fe else w.obs())
    trace = [first]
    for a, via in zip(actions, vias):
        if fe:
            o = w.step(a, via, rnd.random() < 0.5 if rnd else True)
            o.setdefault('pval', -2)
        else:
            o = w.step(a, via)
        e = {k: v for k, v in a.items() if k != 'act'}
        e.update(o, ev=a['act'], via=via)
        trace.append(e)
    return _clean(trace)


def _trace_signature(sub, trace, l):
    """classify the event TLC could not explain (reporting only)"""
    cls = WORLDS[sub]
    init = trace[0]
    ev = trace[l - 1] if 0 < l <= len(trace) else {}
    prev = trace[l - 2] if l >= 2 else None
    a = dict(ev, act=ev.get('ev'))
    if sub == 'LinkedFloatEnum':
        w = object.__new__(FloatEnumWorld)
        w.table = TABLES[init['tab']]
        sym = w.symptom(a, ev, prev)
    else:
        sym = cls.symptom(a, ev, prev)
    sig = {'module': sub, 'op': ev.get('ev'), 'symptom': sym}
    sig.update(cls.layout_of(init))
    if sub == 'LinkedControl' and ev.get('f', 'none') != 'none':
        sig['fault'] = ev['f']
    if sub == 'LinkedStruct':       # history class: did a struct read fail since the last complete refresh?
        for e in trace[1:max(l - 1, 1)]:
            if e['ev'] == 'rs' and not e['ok']:
                sig['after'] = 'failed struct read'
            elif e['ev'] in ('rs', 'ws', 'as') and e['ok']:
                sig.pop('after', None)
    if sub == 'LinkedFloatEnum' and ev.get('ev') == 'init':
        sig['fresh'] = bool(init.get('fresh'))
    return sig


# ------------------------------------------------------------------ the check

def run(chk):
    quick = chk.tier == 'quick'
    tier = 'quick' if quick else 'thorough'
    chk.rule = ('per sub-module: every operation sequence TLC enumerates over the Gen_* alphabet (depth 5 quick; depth 7 '
                'narrow + depth 4-5 wide thorough, per layout) executed once on real modules, state compared after every '
                'step with the set of outcomes TLC printed; plus seeded random histories (30/40 operations) validated by '
                'Trace_*. A case is distinct by (configuration, layout, action sequence) or trace seed; all are '
                'non-trivial (every alphabet operation reads, writes or updates a linked parameter)')
    pool = ThreadPoolExecutor(16)
    t0 = time.time()
    timing = chk.notes.setdefault('timing_s', {})
    # every other module is parsed by the TLC runs below (a parse error there is a machinery failure as well)
    list(pool.map(sany, ['Linked'] if quick else ['Linked'] + [pre + m for m in SUBS for pre in ('', 'Gen_', 'Trace_')]))
    timing['sany'] = round(time.time() - t0, 1)
    # 1 design check + 2 behaviour emission, all TLC runs side by side
    mcs = {m: pool.submit(model_check, m, f'MC_{m}_{tier}.cfg', timeout=600, workers=2) for m in SUBS}
    if not quick:   # composition root on a tiny instance
        mcs['Linked'] = pool.submit(model_check, 'Linked', 'MC_Linked.cfg', timeout=300, workers=2)
    cfgs = [(m, f'Gen_{m}_{c}.cfg') for c in (('quick',) if quick else ('thorough', 'thorough_wide')) for m in SUBS]
    cfgs.append(('LinkedControl', f'Gen_LinkedControl_faults_{tier}.cfg'))
    gens = [(m, cfg, pool.submit(run_tlc, 'Gen_' + m, cfg, workers=1, timeout=1100, heap='3g' if quick else '5g'))
            for m, cfg in cfgs]
    cdesign = c18_sched.design(chk, pool)
    fgen = pool.submit(run_tlc, 'Gen_LinkedStruct', f'Gen_LinkedStruct_faults_{tier}.cfg', workers=1, timeout=900)
    # 3 random histories are recorded while the JVMs work
    ntr, ln = (150, 30) if quick else (1500, 40)
    targs = [(m, chk.seed * 7919 + i * 4 + k, ln) for k, m in enumerate(SUBS) for i in range(ntr)]
    traces = pool_map(_random_trace, targs)
    timing['record'] = round(time.time() - t0, 1)
    # 3b two or three driver threads on one module under the deterministic scheduler (LinkedConc / LinkedSerial)
    conc = c18_sched.executions(chk, pool)
    timing['concurrent'] = round(time.time() - t0, 1)
    for m in mcs:
        chk.add_tlc(mcs[m].result())
    timing['mc'] = round(time.time() - t0, 1)
    futs = {}
    for m in SUBS:     # validated by TLC while the replays run
        sel = [i for i, a in enumerate(targs) if a[0] == m]
        for i in sel:
            if isinstance(traces[i], dict):     # the real modules could not be built for this legal layout
                chk.impl_traces += 1
                chk.violation({'module': m, 'op': 'init', 'symptom': traces[i]['broken'], 'clause': 'trace'},
                              {'sub': m, 'args': targs[i], **traces[i]})
        sel = [i for i in sel if not isinstance(traces[i], dict)]
        batch = [traces[i] for i in sel]
        # binding self-test: the same trace with one observed field falsified must be rejected
        bad = json.loads(json.dumps(batch[0]))
        field, wrong = CORRUPT[m]
        bad[1][field] = wrong(bad[1][field])
        futs[m] = (sel, pool.submit(validate_traces, 'Trace_' + m, batch + [bad], f'Trace_{m}.cfg', timeout=900))
    for m, cfg, fut in gens:
        r = fut.result()
        if r.violated or not r.ok:
            raise MachineryError(f'behaviour emission {cfg} failed: {r.violated or r.error}\n{r.out[-2000:]}')
        chk.add_tlc(r)
        behs = _parse_behaviours(r)
        r.out = ''
        if not behs:
            raise MachineryError(f'{cfg} printed no behaviour')
        items = _groups(m, behs, chk.seed)
        chk.notes.setdefault('behaviours', {})[cfg] = {'tlc_behaviours': len(behs), 'action_sequences': len(items)}
        chk.sample({cfg: behs[len(behs) // 2]}, limit=8)
        del behs
        _ITEMS[:] = items
        res = pool_map(_replay_index, list(range(len(items))))
        for item, bad in zip(items, res):
            sub, variant, _, init, actions, _ = item
            chk.impl_traces += 1
            chk.case(f'{cfg}-{variant}', True)
            if bad:
                sig = {'module': sub, 'op': bad['action']['act'], 'symptom': bad['symptom'],
                       'diff': ','.join(_diff(bad))}
                sig.update(WORLDS[sub].layout_of(init))
                if bad['action'].get('f', 'none') != 'none':
                    sig['fault'] = bad['action']['f']
                chk.violation(sig, {'sub': sub, 'init': init, 'actions': actions, **bad})
        del items[:], _ITEMS[:]
    # 2b operation sequences with hardware faults: enumerated by TLC, executed, judged by Trace_LinkedStruct
    r = fgen.result()
    if r.violated or not r.ok:
        raise MachineryError(f'fault sequence emission failed: {r.violated or r.error}\n{r.out[-2000:]}')
    chk.add_tlc(r)
    seqs = _parse_behaviours(r, 'SEQ')
    r.out = ''
    if not seqs:
        raise MachineryError('Gen_LinkedStruct/FGSpec printed no sequence')
    fargs = [(n, chk.seed * 104729 + n, q) for n, q in enumerate(seqs)]
    ftraces = pool_map(_fault_case, fargs)
    good = [i for i, tr in enumerate(ftraces) if not isinstance(tr, dict)]
    fverdicts, st, tr = validate_traces('Trace_LinkedStruct', [ftraces[i] for i in good],
                                        'Trace_LinkedStruct_faults.cfg', timeout=900)
    chk.states += st
    chk.transitions += tr
    chk.notes['behaviours']['fault sequences'] = {'tlc_sequences': len(seqs)}
    for i, trc in enumerate(ftraces):
        chk.impl_traces += 1
        chk.case(f'faults-{i}', True)
        if isinstance(trc, dict):
            chk.violation({'module': 'LinkedStruct', 'op': 'init', 'symptom': trc['broken'], 'clause': 'faults'},
                          {'sub': 'LinkedStruct', 'sequence': seqs[i], **trc})
    for k, v in fverdicts.items():
        if v is not None:
            trc = ftraces[good[k]]
            sig = _trace_signature('LinkedStruct', trc, v[0])
            sig['clause'] = 'faults'
            chk.violation(sig, {'sub': 'LinkedStruct', 'trace': trc, 'failed_at': v[0], 'sequence': seqs[good[k]]})
    chk.sample({'fault_sequence': seqs[len(seqs) // 3]}, limit=12)
    timing['gen+replay'] = round(time.time() - t0, 1)
    for m in SUBS:
        sel, fut = futs[m]
        verdicts, st, tr = fut.result()
        if verdicts.pop(len(sel)) is None:
            raise MachineryError(f'Trace_{m} accepted a falsified trace')
        chk.notes.setdefault('binding_selftest', []).append(f'Trace_{m}: falsified {CORRUPT[m][0]} rejected')
        chk.states += st
        chk.transitions += tr
        for k, v in verdicts.items():
            trace = traces[sel[k]]
            chk.impl_traces += 1
            chk.case(f'{m}-rt{targs[sel[k]][1]}', True)
            if v is not None:
                l = v[0]
                sig = _trace_signature(m, trace, l)
                sig['clause'] = 'trace'
                chk.violation(sig, {'sub': m, 'trace': trace, 'failed_at': l, 'args': targs[sel[k]]})
        chk.sample({m + '_trace_prefix': traces[sel[0]][:3]})
    c18_sched.finish(chk, cdesign, conc)
    timing['validate'] = round(time.time() - t0, 1)
    pool.shutdown()
    chk.assumptions += [
        'hardware stubs store what is written (the struct stub clips at HwMax) and return what is stored',
        'omit_unchanged_within = 0 (generalConfig.testinit): every announced value is delivered',
        'a value inside limits and datatype and not refused by a user hook is expected to be accepted',
        'client/driver path, class structure (same/mixin/derived), int/float datatype and driver style are chosen '
        'by the harness from the seed',
    ]
    chk.exhaustive = False


def replay(chk, rep):
    d = rep['detail']
    if 'concurrent' in d:
        return c18_sched.replay(chk, rep)
    sub = d['sub']
    if 'actions' in d:
        cls = WORLDS[sub]
        fe = sub == 'LinkedFloatEnum'
        w = cls(d['init'], d['variant'])
        print('init', d['init'], '->', w.obs(True) if fe else w.obs())
        for j, (a, via) in enumerate(zip(d['actions'], d['vias'])):
            print(j + 1, a, via, '->', w.step(a, via, True) if fe else w.step(a, via))
            if j + 1 == d['step']:
                print('   expected one of', d['expected'])
                break
    else:
        again = _fault_case((0, 0, d['sequence'])) if 'sequence' in d else _random_trace(tuple(d['args']))
        if isinstance(again, dict) or 'trace' not in d:
            print(again)
            return 0
        for e, old in zip(again[:d['failed_at']], d['trace']):
            print(e, '' if e == old else '   (recorded: %r)' % old)
        print('event', d['failed_at'], 'was not explained by', sub, '- validating the re-execution:')
        print(validate_traces('Trace_' + sub, [again], f'Trace_{sub}.cfg')[0][0] or 'accepted')
    return 0
